(* Lemmas about Model/Expiry.v (C09), part 2: presence of a series along a history. *)
From stdpp Require Import gmap.
From Coq Require Import QArith Qcanon Qround Sorted Lia.
From GS Require Import Base.Bytes Model.Lexer Model.Series Model.MetricMap Model.Expiry Proofs.Expiry.
Local Open Scope Z_scope.

(* ---- lists ------------------------------------------------------------------------------ *)

Lemma ss_app_le (l1 l2 : list Z) :
  StronglySorted Z.le (l1 ++ l2) -> forall x y, In x l1 -> In y l2 -> x <= y.
Proof.
  induction l1 as [|a r IH]; intros H x y Hx Hy; [destruct Hx|].
  cbn in H. apply StronglySorted_inv in H. destruct H as [H1 H2].
  destruct Hx as [<-|Hx]; [|exact (IH H1 x y Hx Hy)].
  rewrite List.Forall_forall in H2. apply H2. apply in_or_app. right; exact Hy.
Qed.

Lemma ss_app_l (l1 l2 : list Z) : StronglySorted Z.le (l1 ++ l2) -> StronglySorted Z.le l1.
Proof.
  induction l1 as [|a r IH]; intros H; [constructor|].
  cbn in H. apply StronglySorted_inv in H. destruct H as [H1 H2]. constructor; [exact (IH H1)|].
  rewrite List.Forall_forall in *. intros x Hx. apply H2, in_or_app. left; exact Hx.
Qed.

Lemma ss_app_r (l1 l2 : list Z) : StronglySorted Z.le (l1 ++ l2) -> StronglySorted Z.le l2.
Proof.
  induction l1 as [|a r IH]; intros H; [exact H|].
  cbn in H. apply StronglySorted_inv in H. exact (IH (proj1 H)).
Qed.

Lemma times_app h1 h2 : times (h1 ++ h2) = times h1 ++ times h2.
Proof. unfold times. apply flat_map_app. Qed.
Lemma datapoints_app h1 h2 : datapoints (h1 ++ h2) = datapoints h1 ++ datapoints h2.
Proof. unfold datapoints. apply flat_map_app. Qed.

Lemma monotone_app_l h1 h2 : monotone (h1 ++ h2) -> monotone h1.
Proof. unfold monotone. rewrite times_app. apply ss_app_l. Qed.
Lemma monotone_app_r h1 h2 : monotone (h1 ++ h2) -> monotone h2.
Proof. unfold monotone. rewrite times_app. apply ss_app_r. Qed.

Lemma in_times_data ds h d : In d ds -> In (dp_ts d) (times (OData ds :: h)).
Proof. intros H. cbn. apply in_or_app. left. apply in_map. exact H. Qed.
Lemma in_times_flush now dt h : In now (times (OFlush now dt :: h)).
Proof. cbn. left; reflexivity. Qed.
Lemma in_times_op o h t : In o h -> In t (times [o]) -> In t (times h).
Proof.
  intros Hin Ht. apply in_split in Hin. destruct Hin as (l1 & l2 & ->).
  change (o :: l2) with ([o] ++ l2). rewrite !times_app. apply in_or_app. right. apply in_or_app. left; exact Ht.
Qed.

(* ---- the aggregate along a history -------------------------------------------------------- *)

Definition agg_from (cfg : config) (a : mmap) (h : list op) : mmap := fold_left (agg_step cfg) h a.

Lemma agg_after_from cfg h : agg_after cfg h = agg_from cfg empty_map h.
Proof. reflexivity. Qed.
Lemma agg_from_app cfg a h1 h2 : agg_from cfg a (h1 ++ h2) = agg_from cfg (agg_from cfg a h1) h2.
Proof. unfold agg_from. apply fold_left_app. Qed.
Lemma agg_after_app cfg h1 h2 : agg_after cfg (h1 ++ h2) = agg_from cfg (agg_after cfg h1) h2.
Proof. apply agg_from_app. Qed.
Lemma agg_after_snoc cfg h o : agg_after cfg (h ++ [o]) = agg_step cfg (agg_after cfg h) o.
Proof. rewrite agg_after_app. reflexivity. Qed.

Lemma reports_from_app cfg lim h1 : forall a h2,
  reports_from cfg lim a (h1 ++ h2) = reports_from cfg lim a h1 ++ reports_from cfg lim (agg_from cfg a h1) h2.
Proof.
  induction h1 as [|o r IH]; intros a h2; [reflexivity|].
  destruct o; cbn [app reports_from]; rewrite IH; reflexivity.
Qed.

(* the reports of a history are the [flush_at]s of the prefixes that end before a flush *)
Lemma reports_snoc_flush cfg lim h now dt :
  reports cfg lim (h ++ [OFlush now dt]) = reports cfg lim h ++ [flush_at cfg lim h dt].
Proof. unfold reports. rewrite reports_from_app. reflexivity. Qed.
Lemma reports_snoc_data cfg lim h ds : reports cfg lim (h ++ [OData ds]) = reports cfg lim h.
Proof. unfold reports. rewrite reports_from_app. cbn. apply app_nil_r. Qed.

Lemma ts_join_None_r s : ts_join s None = s.
Proof. destruct s; reflexivity. Qed.
Lemma ts_join_Some a b t : ts_join a b = Some t -> a = Some t \/ b = Some t.
Proof.
  destruct a as [x|], b as [y|]; cbn; intros H; try (injection H as <-); auto; try discriminate.
  destruct (Z.max_spec x y) as [[_ E]|[_ E]]; rewrite E; auto.
Qed.

Lemma ts_of_step ty k cfg a o :
  ts_of ty k (agg_step cfg a o) =
  match o with
  | OData ds => ts_join (ts_of ty k a) (fold_ts ty k None ds)
  | OFlush now _ => ts_of ty k a ≫= expire (interval cfg ty) now
  end.
Proof.
  destruct o as [ds|now dt]; cbn [agg_step].
  - unfold agg_receive. rewrite ts_of_merge, ts_of_batch. reflexivity.
  - apply ts_of_reset.
Qed.

Lemma quiet_data ty k ds : ~ mentions ty k (OData ds) -> forall d, In d ds -> ~ of_series ty k d.
Proof. intros H d Hin Hs. apply H. exists d. split; assumption. Qed.

(* a timestamp in the aggregate is the time of some earlier datapoint *)
Lemma ts_of_from_in ty k cfg h : forall a t,
  ts_of ty k (agg_from cfg a h) = Some t -> ts_of ty k a = Some t \/ In t (times h).
Proof.
  induction h as [|o r IH]; intros a t H; [left; exact H|].
  cbn in H. apply IH in H. destruct H as [H|H].
  - rewrite ts_of_step in H. destruct o as [ds|now dt].
    + apply ts_join_Some in H. destruct H as [H|H]; [left; exact H|].
      apply fold_ts_in in H. destruct H as [H|(d & Hin & _ & <-)]; [discriminate|].
      right. apply in_times_data. exact Hin.
    + left. destruct (ts_of ty k a) as [t0|]; [|discriminate]. cbn in H. unfold expire in H.
      destruct (is_expired _ _ _); [discriminate|exact H].
  - right. change (o :: r) with ([o] ++ r). rewrite times_app. apply in_or_app. right; exact H.
Qed.

Lemma ts_of_after_in ty k cfg h t : ts_of ty k (agg_after cfg h) = Some t -> In t (times h).
Proof.
  intros H. apply ts_of_from_in in H. destruct H as [H|H]; [|exact H].
  rewrite ts_of_empty in H. discriminate.
Qed.

(* right after its data, the series carries the time of its last datapoint *)
Lemma ts_after_data ty k cfg h0 ds1 d ds2 :
  monotone (h0 ++ [OData (ds1 ++ d :: ds2)]) ->
  of_series ty k d ->
  (forall d', In d' ds2 -> ~ of_series ty k d') ->
  ts_of ty k (agg_after cfg (h0 ++ [OData (ds1 ++ d :: ds2)])) = Some (dp_ts d).
Proof.
  intros Hm Hs Hq. rewrite agg_after_snoc, ts_of_step.
  unfold monotone in Hm. rewrite times_app in Hm. cbn in Hm. rewrite app_nil_r, map_app in Hm. cbn in Hm.
  rewrite fold_ts_last; try assumption.
  - destruct (ts_of ty k (agg_after cfg h0)) as [t|] eqn:E; [|reflexivity]. cbn. f_equal.
    apply ts_of_after_in in E.
    assert (t <= dp_ts d); [|lia].
    apply (ss_app_le _ _ Hm); [exact E|]. apply in_or_app. right. left; reflexivity.
  - intros t Ht; discriminate.
  - intros d' Hin. apply ss_app_r in Hm.
    apply (ss_app_le _ _ Hm); [apply in_map; exact Hin|left; reflexivity].
Qed.

(* without data for the series only flushes act on it *)
Definition expires_at (i T : Z) (o : op) : bool :=
  match o with OFlush f' _ => is_expired i f' T | OData _ => false end.

Lemma ts_quiet ty k cfg h1 :
  (forall o, In o h1 -> ~ mentions ty k o) ->
  forall a, ts_of ty k (agg_from cfg a h1) =
            match ts_of ty k a with
            | Some T => if existsb (expires_at (interval cfg ty) T) h1 then None else Some T
            | None => None
            end.
Proof.
  induction h1 as [|o r IH]; intros Hq a.
  - cbn. destruct (ts_of ty k a); reflexivity.
  - cbn [agg_from fold_left]. fold (agg_from cfg (agg_step cfg a o) r).
    rewrite IH by (intros o' Hin; apply Hq; right; exact Hin).
    rewrite ts_of_step. destruct o as [ds|now dt].
    + rewrite fold_ts_quiet by (apply quiet_data, Hq; left; reflexivity).
      rewrite ts_join_None_r. reflexivity.
    + cbn [existsb expires_at]. destruct (ts_of ty k a) as [T|]; [|reflexivity]. cbn. unfold expire.
      destruct (is_expired (interval cfg ty) now T); reflexivity.
Qed.

Lemma no_expiry_spec i T h1 :
  existsb (expires_at i T) h1 = false <->
  forall f' dt', In (OFlush f' dt') h1 -> ~ (i <> 0 /\ f' - T > i).
Proof.
  rewrite <- not_true_iff_false, existsb_exists. split.
  - intros H f' dt' Hin Hc. apply H. exists (OFlush f' dt'). split; [exact Hin|].
    cbn. apply is_expired_spec. exact Hc.
  - intros H (o & Hin & He). destruct o as [ds|f' dt']; cbn in He; [discriminate|].
    apply is_expired_spec in He. exact (H _ _ Hin He).
Qed.

(* ---- C09_reported_until ------------------------------------------------------------------ *)

Lemma ts_at_flush ty k cfg h0 ds1 d ds2 h1 :
  monotone (h0 ++ OData (ds1 ++ d :: ds2) :: h1) ->
  of_series ty k d ->
  (forall d', In d' ds2 -> ~ of_series ty k d') ->
  (forall o, In o h1 -> ~ mentions ty k o) ->
  ts_of ty k (agg_after cfg (h0 ++ OData (ds1 ++ d :: ds2) :: h1)) =
  if existsb (expires_at (interval cfg ty) (dp_ts d)) h1 then None else Some (dp_ts d).
Proof.
  intros Hm Hs Hq2 Hq1.
  change (OData (ds1 ++ d :: ds2) :: h1) with ([OData (ds1 ++ d :: ds2)] ++ h1) in *.
  rewrite app_assoc in *. rewrite agg_after_app, ts_quiet by exact Hq1.
  rewrite (ts_after_data ty k cfg h0 ds1 d ds2 (monotone_app_l _ _ Hm) Hs Hq2). reflexivity.
Qed.

Lemma reported_until cfg lim h0 ds1 d ds2 h1 f dt ty k :
  monotone (h0 ++ OData (ds1 ++ d :: ds2) :: h1 ++ [OFlush f dt]) ->
  of_series ty k d ->
  (forall d', In d' ds2 -> ~ of_series ty k d') ->
  (forall o, In o h1 -> ~ mentions ty k o) ->
  (reported ty k (flush_at cfg lim (h0 ++ OData (ds1 ++ d :: ds2) :: h1) dt)
   <-> forall f' dt', In (OFlush f' dt') h1 ->
         ~ (interval cfg ty <> 0 /\ f' - dp_ts d > interval cfg ty)).
Proof.
  intros Hm Hs Hq2 Hq1. unfold flush_at. rewrite reported_ts_of.
  assert (Hm' : monotone (h0 ++ OData (ds1 ++ d :: ds2) :: h1)).
  { change (OData (ds1 ++ d :: ds2) :: h1 ++ [OFlush f dt]) with ((OData (ds1 ++ d :: ds2) :: h1) ++ [OFlush f dt]) in Hm.
    rewrite app_assoc in Hm. exact (monotone_app_l _ _ Hm). }
  rewrite (ts_at_flush ty k cfg h0 ds1 d ds2 h1 Hm' Hs Hq2 Hq1), <- no_expiry_spec.
  destruct (existsb _ h1); split; intros H; try reflexivity; try discriminate.
  - destruct H as [x H]; discriminate.
  - eexists; reflexivity.
Qed.

(* a flush of [h1] happens at or after the last datapoint of the series *)
Lemma flush_after_data h0 ds1 d ds2 h1 f' dt' :
  monotone (h0 ++ OData (ds1 ++ d :: ds2) :: h1) -> In (OFlush f' dt') h1 -> dp_ts d <= f'.
Proof.
  intros Hm Hin. apply monotone_app_r in Hm. unfold monotone in Hm.
  change (OData (ds1 ++ d :: ds2) :: h1) with ([OData (ds1 ++ d :: ds2)] ++ h1) in Hm. rewrite times_app in Hm.
  apply (ss_app_le _ _ Hm).
  - cbn. rewrite app_nil_r. apply in_map. apply in_or_app. right; left; reflexivity.
  - apply (in_times_op (OFlush f' dt')); [exact Hin|left; reflexivity].
Qed.

Lemma reported_until_cases cfg lim h0 ds1 d ds2 h1 f dt ty k :
  monotone (h0 ++ OData (ds1 ++ d :: ds2) :: h1 ++ [OFlush f dt]) ->
  of_series ty k d ->
  (forall d', In d' ds2 -> ~ of_series ty k d') ->
  (forall o, In o h1 -> ~ mentions ty k o) ->
  let i := interval cfg ty in
  let T := dp_ts d in
  let R := reported ty k (flush_at cfg lim (h0 ++ OData (ds1 ++ d :: ds2) :: h1) dt) in
  (i > 0 -> (R <-> forall f' dt', In (OFlush f' dt') h1 -> f' <= T + i)) /\
  (i = 0 -> R) /\
  (i < 0 -> (R <-> forall f' dt', ~ In (OFlush f' dt') h1)).
Proof.
  intros Hm Hs Hq2 Hq1 i T R.
  pose proof (reported_until cfg lim h0 ds1 d ds2 h1 f dt ty k Hm Hs Hq2 Hq1) as HR.
  fold i T R in HR.
  assert (Hm' : monotone (h0 ++ OData (ds1 ++ d :: ds2) :: h1)).
  { change (OData (ds1 ++ d :: ds2) :: h1 ++ [OFlush f dt]) with ((OData (ds1 ++ d :: ds2) :: h1) ++ [OFlush f dt]) in Hm.
    rewrite app_assoc in Hm. exact (monotone_app_l _ _ Hm). }
  split; [|split]; intros Hi.
  - rewrite HR. split; intros H f' dt' Hin; specialize (H f' dt' Hin); lia.
  - apply HR. intros f' dt' _. lia.
  - rewrite HR. split; intros H f' dt' Hin.
    + pose proof (flush_after_data h0 ds1 d ds2 h1 f' dt' Hm' Hin). specialize (H f' dt' Hin). fold T in H0. lia.
    + exfalso. exact (H f' dt' Hin).
Qed.

(* ---- C09_never_after --------------------------------------------------------------------- *)

Lemma never_after cfg lim hA f1 dt1 hB dt ty k :
  (forall o, In o hB -> ~ mentions ty k o) ->
  ~ reported ty k (flush_at cfg lim hA dt1) ->
  ~ reported ty k (flush_at cfg lim (hA ++ OFlush f1 dt1 :: hB) dt).
Proof.
  unfold flush_at. rewrite !reported_ts_of. intros Hq Hn.
  rewrite agg_after_app. cbn [agg_from fold_left]. fold (agg_from cfg (agg_step cfg (agg_after cfg hA) (OFlush f1 dt1)) hB).
  rewrite ts_quiet by exact Hq. rewrite ts_of_step.
  destruct (ts_of ty k (agg_after cfg hA)) as [t|]; [exfalso; apply Hn; eexists; reflexivity|].
  cbn. intros [x Hx]; discriminate.
Qed.

Lemma reports_spec cfg lim h :
  (forall now dt, reports cfg lim (h ++ [OFlush now dt]) = reports cfg lim h ++ [flush_at cfg lim h dt]) /\
  (forall ds, reports cfg lim (h ++ [OData ds]) = reports cfg lim h) /\
  reports cfg lim [] = [].
Proof.
  split; [intros; apply reports_snoc_flush|split; [intros; apply reports_snoc_data|reflexivity]].
Qed.

(* a series that never had data is never reported *)
Lemma only_with_data cfg lim h dt ty k :
  (forall o, In o h -> ~ mentions ty k o) -> ~ reported ty k (flush_at cfg lim h dt).
Proof.
  intros Hq. unfold flush_at. rewrite reported_ts_of, agg_after_from, ts_quiet by exact Hq.
  rewrite ts_of_empty. intros [x Hx]; discriminate.
Qed.
