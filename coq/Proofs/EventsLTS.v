(* Proofs about the bookkeeping LTS of Model/Events.v (property C19): one inductive invariant,
   then exactly-once per backend, soundness of WaitForEvents, the semaphore bound. *)
From stdpp Require Import list list_numbers.
From Coq Require Import Lia ZifyBool ZifyNat ZifyN.
From RecordUpdate Require Import RecordSet.
From GS Require Import Base.Bytes Base.LTS Model.Events.
Import RecordSetNotations.
Local Arguments Nat.sub : simpl never.
Local Arguments Nat.eqb : simpl never.
Local Arguments Nat.leb : simpl never.
Local Arguments Nat.ltb : simpl never.
Local Arguments N.eqb : simpl never.
Local Arguments Z.add : simpl never.
Local Arguments Z.sub : simpl never.
Local Arguments Z.of_nat : simpl never.

(* ---- counting over lists ---------------------------------------------------------------- *)
Section Lists.
  Context {A : Type}.
  Implicit Types (p : A → bool) (f : A → nat) (l k : list A).

  Lemma cnt_app p l k : cnt p (l ++ k) = cnt p l + cnt p k.
  Proof. induction l; simpl; lia. Qed.
  Lemma cnt_delete p l i x : l !! i = Some x → cnt p (delete i l) + Nat.b2n (p x) = cnt p l.
  Proof.
    intros H. rewrite <- (take_drop_middle l i x H) at 2. rewrite delete_take_drop, !cnt_app. simpl. lia.
  Qed.
  Lemma cnt_insert p l i x y :
    l !! i = Some x → cnt p (<[i:=y]> l) + Nat.b2n (p x) = cnt p l + Nat.b2n (p y).
  Proof.
    intros H. rewrite <- (take_drop_middle l i x H) at 2.
    rewrite insert_take_drop by (eapply lookup_lt_Some; eauto). rewrite !cnt_app. simpl. lia.
  Qed.
  Lemma sum_delete f l i x : l !! i = Some x → sum_list_with f (delete i l) + f x = sum_list_with f l.
  Proof.
    intros H. rewrite <- (take_drop_middle l i x H) at 2. rewrite delete_take_drop, !sum_list_with_app. simpl. lia.
  Qed.
  Lemma sum_insert f l i x y :
    l !! i = Some x → sum_list_with f (<[i:=y]> l) + f x = sum_list_with f l + f y.
  Proof.
    intros H. rewrite <- (take_drop_middle l i x H) at 2.
    rewrite insert_take_drop by (eapply lookup_lt_Some; eauto). rewrite !sum_list_with_app. simpl. lia.
  Qed.
  Lemma len_delete l i x : l !! i = Some x → S (length (delete i l)) = length l.
  Proof.
    intros H. rewrite <- (take_drop_middle l i x H) at 2. rewrite delete_take_drop, !app_length. simpl. lia.
  Qed.
  Lemma len_insert l i y : length (<[i:=y]> l) = length l.
  Proof. revert i; induction l; intros [|i]; simpl; auto. Qed.
  Lemma Forall_delete_ (P : A → Prop) l i : Forall P l → Forall P (delete i l).
  Proof. intros H. rewrite delete_take_drop. apply Forall_app; split; [apply Forall_take|apply Forall_drop]; auto. Qed.
  Lemma Forall_insert_ (P : A → Prop) l i y : Forall P l → P y → Forall P (<[i:=y]> l).
  Proof.
    intros H Hy. destruct (decide (i < length l)) as [Hi|Hi].
    - rewrite insert_take_drop by auto. apply Forall_app; split; [apply Forall_take; auto|].
      constructor; [auto|apply Forall_drop; auto].
    - rewrite list_insert_ge by lia. auto.
  Qed.
End Lists.

(* ---- the invariant ---------------------------------------------------------------------- *)
Record core (c : fcfg) (st : fstate) : Prop := Core {
  i_np : panicked st = false;
  i_wg : wg st = Z.of_nat (outstanding c st);
  i_cwg : cwg st = Z.of_nat (held st);
  i_sem : sem st = holding st;
  i_cap : sem st ≤ cap c;
  i_dk : Forall (λ d, d_k d < nb c) (disp st);
  i_gb : Forall (λ g, g_b g < nb c) (gos st);
  i_sb : Forall (λ p : N * nat, p.2 < nb c) (sent st);
  i_rel : Forall (λ r, 0 < length (r_todo r) + r_n r) (rels st);
  i_once : ∀ e b, b < nb c →
      nsent st e b + inflight st e b + todo st e b + skip st e b = nentered st e
}.
(* every arrival is parked, with a releaser, or has entered the backend handler *)
Definition arr_ok (st : fstate) : Prop :=
  ∀ e, narrived st e =
       waiting st e + nentered st e.
Definition inv (c : fcfg) (st : fstate) : Prop := core c st ∧ arr_ok st.

Lemma inv_init c : inv c finit.
Proof. split; [split; cbn; auto; try lia|intros e; reflexivity]. Qed.

Ltac unf := unfold waiting, nsent, inflight, todo, skip, nentered, narrived, outstanding, held, holding, calling in *.

(* bring the effect of a list update at position i (lookup fact E) into the context, hiding the
   updated list behind a variable *)
Ltac upd_facts E :=
  repeat match goal with
  | |- context [cnt ?p (<[?i:=?y]> ?l)] =>
      let H := fresh "Hc" in pose proof (cnt_insert p l i _ y E) as H;
      let v := fresh "v" in set (v := cnt p (<[i:=y]> l)) in *; clearbody v
  | |- context [cnt ?p (delete ?i ?l)] =>
      let H := fresh "Hc" in pose proof (cnt_delete p l i _ E) as H;
      let v := fresh "v" in set (v := cnt p (delete i l)) in *; clearbody v
  | |- context [sum_list_with ?f (<[?i:=?y]> ?l)] =>
      let H := fresh "Hc" in pose proof (sum_insert f l i _ y E) as H;
      let v := fresh "v" in set (v := sum_list_with f (<[i:=y]> l)) in *; clearbody v
  | |- context [sum_list_with ?f (delete ?i ?l)] =>
      let H := fresh "Hc" in pose proof (sum_delete f l i _ E) as H;
      let v := fresh "v" in set (v := sum_list_with f (delete i l)) in *; clearbody v
  | |- context [length (delete ?i ?l)] =>
      let H := fresh "Hc" in pose proof (len_delete l i _ E) as H;
      let v := fresh "v" in set (v := length (delete i l)) in *; clearbody v
  end; rewrite ?len_insert; cbn in *.

(* lia must not look inside the predicates: hide every count behind a variable first *)
Ltac hide_cnt :=
  repeat match goal with
  | |- context [cnt ?p ?l] => let v := fresh "v" in set (v := cnt p l) in *; clearbody v
  | H : context [cnt ?p ?l] |- _ => let v := fresh "v" in set (v := cnt p l) in *; clearbody v
  | |- context [sum_list_with ?p ?l] => let v := fresh "v" in set (v := sum_list_with p l) in *; clearbody v
  | H : context [sum_list_with ?p ?l] |- _ => let v := fresh "v" in set (v := sum_list_with p l) in *; clearbody v
  end.
Ltac fin := cbn in *; hide_cnt; unfold is_ev in *; lia.

Lemma take_out_cnt e l l' : take_out e l = Some l' →
  length l = S (length l') ∧ ∀ x, cnt (is_ev x) l = Nat.b2n (is_ev x e) + cnt (is_ev x) l'.
Proof.
  revert l'; induction l as [|y l IH]; intros l' H; cbn in H; [discriminate|].
  destruct (N.eqb_spec y e) as [->|Hne].
  - injection H as <-. split; [reflexivity|]. intros x. reflexivity.
  - destruct (take_out e l) as [l2|]; [|discriminate]. injection H as <-.
    destruct (IH _ eq_refl) as [HL HC]. split; [cbn; lia|]. intros x. cbn. rewrite HC. lia.
Qed.
Lemma take_all_cnt es l l' : take_all es l = Some l' →
  length l = length es + length l' ∧ ∀ x, cnt (is_ev x) l = cnt (is_ev x) es + cnt (is_ev x) l'.
Proof.
  revert l l'; induction es as [|e es IH]; intros l l' H; cbn in H.
  - injection H as <-. auto.
  - destruct (take_out e l) as [l1|] eqn:E; [|discriminate].
    destruct (take_out_cnt _ _ _ E) as [HL HC]. destruct (IH _ _ H) as [HL' HC'].
    split; [cbn; lia|]. intros x. cbn. rewrite HC, HC'. lia.
Qed.

Lemma check_wg_ok st : (0 ≤ wg st)%Z → (0 ≤ cwg st)%Z → check_wg st = st.
Proof. intros H1 H2. unfold check_wg. destruct (Z.ltb_spec (wg st) 0), (Z.ltb_spec (cwg st) 0); cbn; auto; lia. Qed.

Lemma inv_check c st : inv c st → inv c (check_wg st).
Proof. intros H. rewrite check_wg_ok; auto; destruct H as [[_ Hw Hc _ _ _ _ _ _ _] _]; lia. Qed.

Lemma core_enter c st e : core c st → core c (enter c e st).
Proof.
  intros [Hnp Hwg Hcwg Hsem Hcap Hdk Hgb Hsb Hrel Honce].
  unf. split; cbn; auto.
  - destruct (Nat.eqb_spec (nb c) 0); rewrite ?sum_list_with_app; fin.
  - destruct (Nat.eqb_spec (nb c) 0); auto. apply Forall_app; split; auto.
    constructor; cbn; [lia|constructor].
  - intros e0 b Hb. specialize (Honce e0 b Hb). destruct (Nat.eqb_spec (nb c) 0); [lia|].
    rewrite !cnt_app. fin.
Qed.

Lemma inv_step c st l st' : inv c st → fstep c st l = Some st' → inv c st'.
Proof.
  intros Hinv H. pose proof Hinv as [[Hnp Hwg Hcwg Hsem Hcap Hdk Hgb Hsb Hrel Honce] Harr].
  unfold inv, arr_ok in *.
  unfold fstep in H. rewrite Hnp in H.
  destruct l as [e hit|es|r|r|d|d|g|g|g|g| |].
  - (* Arrive *)
    destruct hit; injection H as <-.
    + split; [apply core_enter; split; auto|].
      intros e0. specialize (Harr e0). unf. cbn. rewrite !cnt_app. fin.
    + unf. split; [split; cbn; auto|].
      * rewrite app_length. fin.
      * intros e0. specialize (Harr e0). cbn. rewrite !cnt_app. fin.
  - (* Release *)
    destruct es as [|e es]; [discriminate|].
    destruct (take_all (e :: es) (parked st)) as [rest|] eqn:E; [|discriminate].
    injection H as <-. pose proof (take_all_cnt _ _ _ E) as [HL HC]. unf. split; [split; cbn; auto|].
    + rewrite sum_list_with_app. cbn in *. fin.
    + apply Forall_app; split; auto. constructor; [cbn; lia|constructor].
    + intros e0. specialize (Harr e0). specialize (HC e0). cbn. rewrite sum_list_with_app. cbn in *. fin.
  - (* RelNext *)
    destruct (rels st !! r) as [[[|e rest] n]|] eqn:E; try discriminate. injection H as <-.
    split; [apply core_enter; unf; split; cbn; auto; [upd_facts E; fin|apply Forall_insert_; auto; cbn; lia]|].
    intros e0. specialize (Harr e0). unf. cbn. rewrite cnt_app. upd_facts E. fin.
  - (* RelDone *)
    destruct (rels st !! r) as [[[|e rest] n]|] eqn:E; try discriminate. injection H as <-.
    apply inv_check. unf. split; [split; cbn; auto; [upd_facts E; fin|apply Forall_delete_; auto]|].
    intros e0. specialize (Harr e0). cbn. upd_facts E. fin.
  - (* Spawn *)
    destruct (disp st !! d) as [[e k]|] eqn:E; [|discriminate].
    destruct (Nat.ltb_spec (sem st) (cap c)) as [Hlt|]; [|discriminate]. injection H as <-.
    assert (Hk : k < nb c) by (eapply (Forall_lookup_1 _ _ _ _ Hdk E)).
    unf. split; [split; cbn; auto|exact Harr].
    + destruct (Nat.eqb_spec (S k) (nb c)); rewrite app_length; upd_facts E; fin.
    + rewrite cnt_app. fin.
    + destruct (Nat.eqb_spec (S k) (nb c)); [apply Forall_delete_; auto|apply Forall_insert_; auto; cbn; lia].
    + apply Forall_app; split; auto.
    + intros e0 b Hb. specialize (Honce e0 b Hb). rewrite cnt_app. cbn.
      destruct (Nat.eqb_spec (S k) (nb c)); upd_facts E; fin.
  - (* Cancel *)
    destruct (disp st !! d) as [[e k]|] eqn:E; [|discriminate]. injection H as <-.
    assert (Hk : k < nb c) by (eapply (Forall_lookup_1 _ _ _ _ Hdk E)).
    apply inv_check. unf. split; [split; cbn; auto|exact Harr].
    + upd_facts E. fin.
    + apply Forall_delete_; auto.
    + intros e0 b Hb. specialize (Honce e0 b Hb). rewrite cnt_app. upd_facts E. fin.
  - (* SendCall *)
    destruct (gos st !! g) as [[e b []]|] eqn:E; try discriminate. injection H as <-.
    assert (Hb' : b < nb c) by (eapply (Forall_lookup_1 _ _ _ _ Hgb E)).
    unf. split; [split; cbn; auto|exact Harr].
    + rewrite len_insert. auto.
    + upd_facts E. fin.
    + apply Forall_insert_; auto.
    + intros e0 b0 Hb. specialize (Honce e0 b0 Hb). upd_facts E. fin.
  - (* SendRet *)
    destruct (gos st !! g) as [[e b []]|] eqn:E; try discriminate. injection H as <-.
    assert (Hb' : b < nb c) by (eapply (Forall_lookup_1 _ _ _ _ Hgb E)).
    unf. split; [split; cbn; auto|exact Harr].
    + rewrite len_insert. auto.
    + upd_facts E. fin.
    + apply Forall_insert_; auto.
    + apply Forall_app; split; auto.
    + intros e0 b0 Hb. specialize (Honce e0 b0 Hb). rewrite cnt_app. upd_facts E. fin.
  - (* SemRelease *)
    destruct (gos st !! g) as [[e b []]|] eqn:E; try discriminate.
    destruct (sem st) as [|n] eqn:Es; [discriminate|]. injection H as <-.
    assert (Hb' : b < nb c) by (eapply (Forall_lookup_1 _ _ _ _ Hgb E)).
    unf. split; [split; cbn; auto|exact Harr].
    + rewrite len_insert. auto.
    + upd_facts E. fin.
    + lia.
    + apply Forall_insert_; auto.
    + intros e0 b0 Hb. specialize (Honce e0 b0 Hb). upd_facts E. fin.
  - (* WgDone *)
    destruct (gos st !! g) as [[e b []]|] eqn:E; try discriminate. injection H as <-.
    apply inv_check. unf. split; [split; cbn; auto|exact Harr].
    + upd_facts E. fin.
    + upd_facts E. fin.
    + apply Forall_delete_; auto.
    + intros e0 b0 Hb. specialize (Honce e0 b0 Hb). upd_facts E. fin.
  - destruct (cwg st =? 0)%Z; [|discriminate]. injection H as <-. exact Hinv.
  - destruct (wg st =? 0)%Z; [|discriminate]. injection H as <-. exact Hinv.
Qed.

(* ---- runs ------------------------------------------------------------------------------- *)
Lemma inv_run_from c ls s st : inv c s → run (fstep c) s ls = Some st → inv c st.
Proof. intros Hi H. eapply (invariant_run (fstep c) (inv c)); eauto using inv_step. Qed.
Lemma inv_run c ls st : run (fstep c) finit ls = Some st → inv c st.
Proof. apply inv_run_from, inv_init. Qed.

Definition label_arrival (l : flabel) : list N := match l with Arrive e _ => [e] | _ => [] end.

(* the ghost logs only grow, and only the matching labels make them grow *)
Lemma step_logs c s l s' : fstep c s l = Some s' →
  arrived s' = arrived s ++ label_arrival l
  ∧ (∃ x, entered s' = entered s ++ x) ∧ (∃ x, sent s' = sent s ++ x)
  ∧ (∃ x, skipped s' = skipped s ++ x ∧ (is_cancel l = false → x = [])).
Proof.
  unfold fstep, check_wg, set_phase, enter. intros H.
  repeat case_match; simplify_eq; cbn; rewrite ?app_nil_r;
    repeat split;
    try (by eexists; reflexivity); try (by exists []; rewrite app_nil_r);
    try (by exists []; rewrite app_nil_r; auto);
    try (by eexists; split; [reflexivity|discriminate]).
Qed.

Lemma arrivals_cons l ls : arrivals_of (l :: ls) = label_arrival l ++ arrivals_of ls.
Proof. destruct l; reflexivity. Qed.

Lemma run_logs c ls : ∀ s st, run (fstep c) s ls = Some st →
  arrived st = arrived s ++ arrivals_of ls
  ∧ (∀ e, nentered s e ≤ nentered st e)
  ∧ (forallb (λ l, negb (is_cancel l)) ls = true → skipped st = skipped s).
Proof.
  induction ls as [|l ls IH]; intros s st H; cbn in H.
  - injection H as <-. rewrite app_nil_r. auto.
  - destruct (fstep c s l) as [s1|] eqn:E; [|discriminate].
    destruct (step_logs _ _ _ _ E) as (Ha & [x Hx] & _ & [z [Hz Hz']]).
    destruct (IH _ _ H) as (Ha' & He' & Hs').
    rewrite arrivals_cons, Ha', Ha, <- app_assoc. split; [reflexivity|]. split.
    + intros e. specialize (He' e). unfold nentered in *. rewrite Hx, cnt_app in He'. lia.
    + cbn. intros Hc. apply andb_prop in Hc as [Hc1 Hc2].
      assert (is_cancel l = false) as Hf by (destruct (is_cancel l); [discriminate|reflexivity]).
      rewrite (Hs' Hc2), Hz, (Hz' Hf). apply app_nil_r.
Qed.

Lemma cnt_none {A} (p : A → bool) l : Forall (λ x, p x = false) l → cnt p l = 0.
Proof. induction 1 as [|x l Hx _ IH]; cbn; [|rewrite Hx, IH]; reflexivity. Qed.
Lemma cnt_le {A} (p q : A → bool) l : (∀ x, p x = true → q x = true) → cnt p l ≤ cnt q l.
Proof.
  intros H. induction l as [|x l IH]; cbn; [lia|]. specialize (H x).
  destruct (p x), (q x); cbn; lia.
Qed.
Lemma sum_zero_nil {A} (f : A → nat) l : Forall (λ x, 0 < f x) l → sum_list_with f l = 0 → l = [].
Proof. destruct 1 as [|x l Hx _]; cbn; [auto|lia]. Qed.

(* what the two counters being zero means *)
Lemma cloud_zero c st : inv c st → cwg st = 0%Z → parked st = [] ∧ rels st = [].
Proof.
  intros [[_ _ Hc _ _ _ _ _ Hrel _] _] H0. unfold held in Hc.
  assert (length (parked st) = 0 ∧ sum_list_with (λ r, length (r_todo r) + r_n r) (rels st) = 0) as [H1 H2] by lia.
  split; [destruct (parked st); [auto|discriminate]|].
  apply (sum_zero_nil (λ r, length (r_todo r) + r_n r)); auto.
Qed.
Lemma backend_zero c st : inv c st → wg st = 0%Z → disp st = [] ∧ gos st = [].
Proof.
  intros [[_ Hw _ _ _ Hdk _ _ _ _] _] H0. unfold outstanding in Hw.
  assert (sum_list_with (λ d, nb c - d_k d) (disp st) = 0 ∧ length (gos st) = 0) as [H1 H2] by lia.
  split; [|destruct (gos st); [auto|discriminate]].
  apply (sum_zero_nil (λ d, nb c - d_k d)); auto.
  clear -Hdk. induction Hdk; constructor; auto; lia.
Qed.

(* ---- theorems --------------------------------------------------------------------------- *)

(* the accounting identity: per backend, every arrival is exactly one of: delivered, in flight,
   not yet reached by its DispatchEvent loop, skipped by a cancelled loop, still with the cloud stage *)
Theorem once_per_backend c ls st :
  run (fstep c) finit ls = Some st →
  ∀ e b,
    (b < nb c →
       nsent st e b + inflight st e b + todo st e b + skip st e b + waiting st e
         = cnt (is_ev e) (arrivals_of ls)
       ∧ (quiescent st → nsent st e b + skip st e b = cnt (is_ev e) (arrivals_of ls)))
    ∧ (nb c ≤ b → nsent st e b = 0)
    ∧ (forallb (λ l, negb (is_cancel l)) ls = true → skip st e b = 0).
Proof.
  intros H e b. pose proof (inv_run _ _ _ H) as [[_ _ _ _ _ _ _ Hsb _ Honce] Harr].
  destruct (run_logs _ _ _ _ H) as (Ha & _ & Hs). cbn in Ha.
  specialize (Harr e). unfold narrived in Harr. rewrite Ha in Harr.
  split; [|split].
  - intros Hb. specialize (Honce e b Hb). split; [lia|].
    intros (Hp & Hr & Hd & Hg). unfold inflight, todo, waiting in *. rewrite Hp, Hr, Hd, Hg in *. cbn in *. lia.
  - intros Hb. unfold nsent. apply cnt_none. clear -Hsb Hb. induction Hsb as [|[e' b'] l Hlt _ IH]; constructor; auto.
    cbn in *. destruct (Nat.eqb_spec b' b); [lia|]. apply andb_false_r.
  - intros Hc. unfold skip. rewrite (Hs Hc). reflexivity.
Qed.

(* never more than once per arrival *)
Corollary at_most_once c ls st e b :
  run (fstep c) finit ls = Some st → nsent st e b ≤ cnt (is_ev e) (arrivals_of ls).
Proof.
  intros H. destruct (once_per_backend _ _ _ H e b) as (H1 & H2 & _).
  destruct (Nat.lt_ge_cases b (nb c)) as [Hb|Hb]; [destruct (H1 Hb)|rewrite (H2 Hb)]; lia.
Qed.

(* WaitForEvents = ch.wg.Wait(); bh.eventWg.Wait(): whatever happens in between and whatever else
   runs concurrently, every event that arrived before the first Wait returned has, when the second
   returns, completed SendEvent on every backend (or its loop was cancelled before that backend) *)
Theorem wait_sound c ls1 ls2 st :
  run (fstep c) finit (ls1 ++ WaitCloud :: ls2 ++ [WaitBackend]) = Some st →
  ∀ e b, b < nb c → cnt (is_ev e) (arrivals_of ls1) ≤ nsent st e b + skip st e b.
Proof.
  intros H e b Hb. rewrite run_app in H.
  destruct (run (fstep c) finit ls1) as [s1|] eqn:R1; [|discriminate]. cbn in H.
  destruct (fstep c s1 WaitCloud) as [s1'|] eqn:W1; [|discriminate].
  rewrite run_app in H. destruct (run (fstep c) s1' ls2) as [s2|] eqn:R2; [|discriminate]. cbn in H.
  destruct (fstep c s2 WaitBackend) as [s2'|] eqn:W2; [|discriminate]. injection H as <-.
  pose proof (inv_run _ _ _ R1) as I1.
  unfold fstep in W1, W2. destruct (panicked s1); [discriminate|]. destruct (panicked s2); [discriminate|].
  destruct (Z.eqb_spec (cwg s1) 0) as [Z1|]; [|discriminate]. injection W1 as <-.
  destruct (Z.eqb_spec (wg s2) 0) as [Z2|]; [|discriminate]. injection W2 as <-.
  pose proof (inv_run_from _ _ _ _ I1 R2) as I2.
  destruct (cloud_zero _ _ I1 Z1) as [Hp Hr]. destruct (backend_zero _ _ I2 Z2) as [Hd Hg].
  destruct I1 as [_ A1]. specialize (A1 e). unfold waiting in A1. rewrite Hp, Hr in A1. cbn in A1.
  destruct (run_logs _ _ _ _ R1) as (Ha & _). cbn in Ha. unfold narrived in A1. rewrite Ha in A1.
  destruct (run_logs _ _ _ _ R2) as (_ & Hmono & _). specialize (Hmono e).
  destruct I2 as [[_ _ _ _ _ _ _ _ _ O2] _]. specialize (O2 e b Hb).
  unfold inflight, todo in O2. rewrite Hd, Hg in O2. cbn in O2. lia.
Qed.

(* the second Wait alone: enabled exactly when the backend handler owes nothing *)
Theorem wait_backend_enabled c ls st :
  run (fstep c) finit ls = Some st →
  (fstep c st WaitBackend = Some st ↔ outstanding c st = 0)
  ∧ (outstanding c st = 0 →
       disp st = [] ∧ gos st = [] ∧ ∀ e b, b < nb c → nsent st e b + skip st e b = nentered st e).
Proof.
  intros H. pose proof (inv_run _ _ _ H) as I. pose proof I as [[Hnp Hw _ _ _ _ _ _ _ Honce] _].
  split.
  - unfold fstep. rewrite Hnp. destruct (Z.eqb_spec (wg st) 0); split; intros; try discriminate; auto; lia.
  - intros H0. destruct (backend_zero _ _ I) as [Hd Hg]; [lia|]. repeat split; auto.
    intros e b Hb. specialize (Honce e b Hb). unfold inflight, todo in Honce. rewrite Hd, Hg in Honce. cbn in Honce. lia.
Qed.

(* the counters are what they are meant to count, hence never negative: no WaitGroup panic *)
Theorem counters c ls st :
  run (fstep c) finit ls = Some st →
  panicked st = false ∧ wg st = Z.of_nat (outstanding c st) ∧ cwg st = Z.of_nat (held st).
Proof. intros H. pose proof (inv_run _ _ _ H) as [[? ? ? _ _ _ _ _ _ _] _]. auto. Qed.

(* at most max-concurrent-events SendEvent calls are in progress *)
Theorem semaphore_bound c ls st :
  run (fstep c) finit ls = Some st → calling st ≤ holding st ∧ holding st = sem st ∧ sem st ≤ cap c.
Proof.
  intros H. pose proof (inv_run _ _ _ H) as [[_ _ _ Hs Hc _ _ _ _ _] _]. repeat split; auto.
  apply cnt_le. intros [e b []]; cbn; auto.
Qed.

(* with at least one token the bookkeeping never gets stuck: while anything is in progress, some
   internal step (not an arrival, not a cancellation, not a Wait) is enabled *)
Theorem no_deadlock c ls st :
  1 ≤ cap c → run (fstep c) finit ls = Some st → ¬ quiescent st →
  ∃ l st', internal l = true ∧ fstep c st l = Some st'.
Proof.
  intros Hcap H Hnq. pose proof (inv_run _ _ _ H) as [[Hnp _ _ Hsem _ _ _ _ _ _] _].
  unfold fstep. rewrite Hnp. unfold holding in Hsem.
  destruct (gos st) as [|[e b ph] gs] eqn:Eg.
  - destruct (disp st) as [|[e k] ds] eqn:Ed.
    + destruct (rels st) as [|[[|e todo] n] rs] eqn:Er.
      * destruct (parked st) as [|e ps] eqn:Ep; [destruct Hnq; repeat split; auto|].
        exists (Release [e]). cbn. cbn. rewrite N.eqb_refl. eauto.
      * exists (RelDone 0). cbn. cbn. eauto.
      * exists (RelNext 0). cbn. cbn. eauto.
    + exists (Spawn 0). cbn. cbn. cbn in Hsem. rewrite Hsem.
      destruct (Nat.ltb_spec 0 (cap c)); [eauto|lia].
  - destruct ph.
    + exists (SendCall 0). cbn. cbn. eauto.
    + exists (SendRet 0). cbn. cbn. eauto.
    + exists (SemRelease 0). cbn. cbn. cbn in Hsem. rewrite Hsem. cbn. eauto.
    + exists (WgDone 0). cbn. cbn. eauto.
Qed.
