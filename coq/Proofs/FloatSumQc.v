(* Bridge from the real-number error bounds of Proofs/FloatSum.v to the comparison the C08
   correspondence actually evaluates (Corr/C08Single.v: [near], [close], [scale1], [scale2],
   [scale_max], [tol], all in exact rationals Qc over [Qc_of_bits] of float64 bit patterns).
   [QR q] injects a canonical rational into R.  Key facts: QR (Qc_of_bits b) = FR (float_of_bits b)
   for EVERY bit pattern (both are 0 for non-finite ones), QR commutes with + - * / abs and
   fold_right, and [Qcleb a b = true <-> QR a <= QR b]. *)
From Coq Require Import List ZArith QArith Qcanon Qreals Reals Floats Lia Lra Permutation.
From Flocq Require Import Core.Core IEEE754.BinarySingleNaN IEEE754.PrimFloat.
From GS Require Import Base.GoFloat.
From GS Require Import Model.Stats.
From GS Require Import Model.FloatSum.
From GS Require Import Corr.C08Single.
From GS Require Import Proofs.FloatSumReal.
From GS Require Import Proofs.FloatSumOps.
From GS Require Import Proofs.FloatSum.
Import ListNotations.
Local Open Scope R_scope.

Definition QR (q : Qc) : R := Q2R (this q).

Lemma QR_Q2Qc q : QR (Q2Qc q) = Q2R q.
Proof. unfold QR. cbn. apply Qeq_eqR. apply Qred_correct. Qed.

Lemma QR_plus a b : QR (a + b)%Qc = QR a + QR b.
Proof. unfold Qcplus. rewrite QR_Q2Qc, Q2R_plus. reflexivity. Qed.
Lemma QR_mult a b : QR (a * b)%Qc = QR a * QR b.
Proof. unfold Qcmult. rewrite QR_Q2Qc, Q2R_mult. reflexivity. Qed.
Lemma QR_opp a : QR (- a)%Qc = - QR a.
Proof. unfold Qcopp. rewrite QR_Q2Qc, Q2R_opp. reflexivity. Qed.
Lemma QR_minus a b : QR (a - b)%Qc = QR a - QR b.
Proof. unfold Qcminus. rewrite QR_plus, QR_opp. ring. Qed.
Lemma QR_0 : QR 0%Qc = 0.
Proof. unfold QR. cbn. unfold Q2R. cbn. lra. Qed.

Lemma Qcleb_QR a b : Qcleb a b = true <-> QR a <= QR b.
Proof.
  unfold Qcleb. rewrite Qle_bool_iff. unfold QR. split; [apply Qle_Rle|apply Rle_Qle].
Qed.

Lemma QR_qabs a : QR (qabs a) = Rabs (QR a).
Proof.
  unfold qabs. destruct (Qcleb 0 a) eqn:E.
  - apply Qcleb_QR in E. rewrite QR_0 in E. rewrite Rabs_pos_eq by exact E. reflexivity.
  - assert (H : ~ QR 0%Qc <= QR a) by (intros H; apply Qcleb_QR in H; congruence).
    rewrite QR_0 in H. rewrite QR_opp, Rabs_left by lra. reflexivity.
Qed.

Lemma QR_qsum l : QR (qsum l) = rsum (map QR l).
Proof. unfold qsum, rsum. induction l as [|a l IH]; cbn [fold_right map]; [apply QR_0|]. rewrite QR_plus, IH. reflexivity. Qed.

Lemma QR_tol : QR C08Single.tol = / 1000000000.
Proof. unfold C08Single.tol. rewrite QR_Q2Qc. unfold Q2R. cbn. lra. Qed.

(* the comparison of the correspondence, read in R *)
Lemma close_QR scale a b :
  close scale a b = true <-> Rabs (QR a - QR b) <= / 1000000000 * QR scale.
Proof. unfold close. rewrite Qcleb_QR, QR_qabs, QR_minus, QR_mult, QR_tol. tauto. Qed.

(* ---- a float64 bit pattern as a rational = the real value of the float *)
Lemma Q_of_float_FR f : Q2R (Q_of_float f) = FR f.
Proof.
  unfold Q_of_float, FR, Prim2B. rewrite B2R_SF2B.
  destruct (Prim2SF f) as [s|s| |s m e]; try (unfold Q2R; cbn; lra).
  unfold SF2R, F2R. cbn [Fnum Fexp].
  assert (Hn : (if s then Z.neg m else Z.pos m) = cond_Zopp s (Z.pos m)) by (destruct s; reflexivity).
  rewrite Hn. destruct (0 <=? e)%Z eqn:E.
  - assert (He : (0 <= e)%Z) by lia. unfold Q2R. cbn [Qnum Qden inject_Z].
    rewrite mult_IZR. change 2%Z with (radix_val radix2). rewrite (IZR_Zpower radix2 e He). lra.
  - assert (He : (0 <= - e)%Z) by lia.
    assert (Hp : (0 < 2 ^ (- e))%Z) by (apply Z.pow_pos_nonneg; lia).
    destruct (2 ^ (- e))%Z as [|d|d] eqn:Ed; try lia.
    unfold Q2R. cbn [Qnum Qden]. rewrite <- Ed. change 2%Z with (radix_val radix2).
    rewrite (IZR_Zpower radix2 (- e) He), <- bpow_opp. replace (- - e)%Z with e by lia. reflexivity.
Qed.

Lemma QR_of_bits b : QR (Qc_of_bits b) = FR (float_of_bits b).
Proof. unfold Qc_of_bits. rewrite QR_Q2Qc. apply Q_of_float_FR. Qed.

Lemma map_QR_bits bs : map QR (map Qc_of_bits bs) = map FR (map float_of_bits bs).
Proof. rewrite !map_map. apply map_ext. intros b. apply QR_of_bits. Qed.

Lemma QR_sum_bits bs : QR (qsum (map Qc_of_bits bs)) = Rsum (map float_of_bits bs).
Proof. rewrite QR_qsum, map_QR_bits. reflexivity. Qed.
Lemma QR_scale1_bits bs : QR (scale1 (map Qc_of_bits bs)) = Rsumabs (map float_of_bits bs).
Proof.
  unfold scale1, Rsumabs. rewrite QR_qsum, !map_map. f_equal. apply map_ext. intros b.
  rewrite QR_qabs, QR_of_bits. reflexivity.
Qed.
Lemma QR_sumsq_bits bs : QR (qsumsq (map Qc_of_bits bs)) = Rsumsq (map float_of_bits bs).
Proof.
  unfold qsumsq, Rsumsq. rewrite QR_qsum, !map_map. f_equal. apply map_ext. intros b.
  rewrite QR_mult, QR_of_bits. reflexivity.
Qed.

(* the exact statistics and scales do not depend on the order (Go sums the SORTED values) *)
Lemma rsum_perm l l' : Permutation l l' -> rsum l = rsum l'.
Proof. unfold rsum. induction 1; cbn; lra. Qed.
Lemma qc_eq_QR a b : QR a = QR b -> a = b.
Proof.
  intros H. apply Qc_is_canon. unfold QR in H. apply eqR_Qeq. exact H.
Qed.
Lemma qsum_perm l l' : Permutation l l' -> qsum l = qsum l'.
Proof. intros H. apply qc_eq_QR. rewrite !QR_qsum. apply rsum_perm, Permutation_map, H. Qed.

Section Tolerance.
  (* [bs]: the bit patterns of the timer's values in arrival order (Corr: xs_of); [bs']: the same
     values in the order the Go loop adds them (sorted); [o]: the bit pattern Go reported *)
  Variables bs bs' : list Z.
  Hypothesis Hperm : Permutation bs bs'.
  Let xs := map float_of_bits bs'.
  Hypothesis Hn : (Z.of_nat (length bs) <= 1000000)%Z.

  Lemma len_xs : (Z.of_nat (length xs) <= 1000000)%Z.
  Proof. unfold xs. rewrite map_length, <- (Permutation_length Hperm). exact Hn. Qed.

  Theorem tolerance_sound_sum_qc o :
    Forall FloatSumOps.fin xs -> Forall FloatSumOps.fin (go_cumulative xs) ->
    float_of_bits o = go_sum xs -> C08Single.fin o = true ->
    near (scale1 (map Qc_of_bits bs)) (qsum (map Qc_of_bits bs)) o = true.
  Proof.
    intros Hf Hc Ho Hfin. unfold near. rewrite Hfin. cbn [andb]. apply close_QR.
    rewrite (qsum_perm _ _ (Permutation_map Qc_of_bits Hperm)).
    unfold scale1. rewrite (qsum_perm _ _ (Permutation_map qabs (Permutation_map Qc_of_bits Hperm))).
    fold (scale1 (map Qc_of_bits bs')). rewrite QR_sum_bits, QR_scale1_bits, QR_of_bits, Ho. fold xs.
    rewrite Rabs_minus_sym. apply tolerance_sound_sum; [exact len_xs|exact Hf|exact Hc].
  Qed.

  Theorem tolerance_sound_sumsq_qc o :
    Forall (fun y => FloatSumOps.fin y /\ FloatSumOps.fin (square y) /\ sq_normal y) xs ->
    Forall FloatSumOps.fin (go_cumul_squares xs) ->
    float_of_bits o = go_sumsq xs -> C08Single.fin o = true ->
    near (scale2 (map Qc_of_bits bs)) (qsumsq (map Qc_of_bits bs)) o = true.
  Proof.
    intros Hf Hc Ho Hfin. unfold near. rewrite Hfin. cbn [andb]. apply close_QR.
    unfold scale2, qsumsq.
    rewrite (qsum_perm _ _ (Permutation_map (fun x => (x * x)%Qc) (Permutation_map Qc_of_bits Hperm))).
    fold (qsumsq (map Qc_of_bits bs')). rewrite QR_sumsq_bits, QR_of_bits, Ho. fold xs.
    rewrite Rabs_minus_sym. apply tolerance_sound_sumsq; [exact len_xs|exact Hf|exact Hc].
  Qed.

  (* percentile sums: the model value is the exact sum of the j lowest / k highest SORTED values;
     the scale is SUM |x| of the whole timer *)
  Theorem tolerance_sound_sum_pct_lower_qc o j :
    (0 < j <= length bs')%nat ->
    Forall FloatSumOps.fin xs -> Forall FloatSumOps.fin (go_cumulative xs) ->
    float_of_bits o = go_sum (firstn j xs) -> C08Single.fin o = true ->
    near (scale1 (map Qc_of_bits bs)) (qsum (map Qc_of_bits (firstn j bs'))) o = true.
  Proof.
    intros Hj Hf Hc Ho Hfin. unfold near. rewrite Hfin. cbn [andb]. apply close_QR.
    unfold scale1. rewrite (qsum_perm _ _ (Permutation_map qabs (Permutation_map Qc_of_bits Hperm))).
    fold (scale1 (map Qc_of_bits bs')). rewrite QR_sum_bits, QR_scale1_bits, QR_of_bits, Ho. fold xs.
    rewrite <- firstn_map. fold xs. rewrite Rabs_minus_sym.
    apply tolerance_sound_sum_prefix; [exact len_xs|unfold xs; rewrite map_length; exact Hj|exact Hf|exact Hc].
  Qed.

  Theorem tolerance_sound_sum_pct_upper_qc o k :
    (0 < k < length bs')%nat ->
    Forall FloatSumOps.fin xs -> Forall FloatSumOps.fin (go_cumulative xs) -> FloatSumOps.fin (go_sum_top xs k) ->
    float_of_bits o = go_sum_top xs k -> C08Single.fin o = true ->
    near (scale1 (map Qc_of_bits bs)) (qsum (map Qc_of_bits (skipn (length bs' - k) bs'))) o = true.
  Proof.
    intros Hk Hf Hc Ft Ho Hfin. unfold near. rewrite Hfin. cbn [andb]. apply close_QR.
    unfold scale1. rewrite (qsum_perm _ _ (Permutation_map qabs (Permutation_map Qc_of_bits Hperm))).
    fold (scale1 (map Qc_of_bits bs')). rewrite QR_sum_bits, QR_scale1_bits, QR_of_bits, Ho. fold xs.
    rewrite <- skipn_map. fold xs. rewrite Rabs_minus_sym.
    replace (length bs') with (length xs) by (unfold xs; apply map_length).
    apply tolerance_sound_sum_top; [exact len_xs|unfold xs; rewrite map_length; exact Hk|exact Hf|exact Hc|exact Ft].
  Qed.
End Tolerance.
