(* C04: witnesses.  (1) The code before the repairs e5869c1 / 8d5afaa / 06b6d16 panics on reachable
   states (D3, D4, D5 of DESIGN.md section 5): the same histories are fine with legacy = false.
   (2) Non-vacuity: the hypotheses of the theorems hold on non-trivial configurations, and the
   invariant [Reported] is met by states that carry percentiles, histograms and idle timers.
   Everything here is closed evaluation (vm_compute) over the one-point value carrier. *)
From Coq Require Import String.
From Coq Require Import List ZArith Lia.
From GS Require Import Base.Bytes.
From GS Require Import Model.GoPartial.
From GS Require Import Model.Histogram.
From GS Require Import Model.Stats.
From GS Require Import Model.Rank.
From GS Require Import Model.FlushPartial.
From GS Require Import Model.PayloadPartial.
From GS Require Import Proofs.FlushSafety.
Import ListNotations.
Local Open Scope Z_scope.

Definition u_ops : vops unit :=
  {| v0 := tt; vadd := fun _ _ => tt; vsub := fun _ _ => tt; vmul := fun _ _ => tt;
     vdiv := fun _ _ => tt; vofZ := fun _ => tt; vround := fun _ => 0; vsort := fun l => l;
     vle_bound := fun _ _ => true |}.
Lemma u_sort_length : forall l, length (vsort u_ops l) = length l.
Proof. reflexivity. Qed.

(* strconv.ParseFloat on the two items used below *)
Definition pf_ex (s : str) : option bound :=
  if str_eqb s (bs "1") then Some (BFin 4607182418800017408) else if str_eqb s (bs "inf") then Some BPInf else None.

Definition all_on : pmask := Build_pmask false false false false false false.
Definition b_on : bmask := Build_bmask false false false false false false false false false.
Definition cfg (pcts : list Z) (limit : Z) : config unit :=
  {| c_pcts := pcts; c_mask := all_on; c_limit := limit; c_interval := tt |}.
Definition inc (name : String.string) (tags : list str) (n : nat) : incoming unit :=
  {| i_key := (bs name, join c_comma tags); i_src := []; i_tags := tags; i_values := repeat tt n; i_sampled := tt |}.
Definition keep : skey -> bool := fun _ => false.

(* D3: threshold -90, three values: rank = 3 = n, cumulativeValues[n-k-1] = cumulativeValues[-1] *)
Definition h_D3 : list (label unit) := [LMerge [inc "t" [] 3] []; LFlush].
Lemma legacy_refuted_D3 :
  config_ok (cfg [-90] 0) /\ run u_ops pf_ex rank true (cfg [-90] 0) h_D3 = Panic
  /\ is_ok (run u_ops pf_ex rank false (cfg [-90] 0) h_D3).
Proof.
  split; [split; [repeat constructor; lia|cbn; lia]|]. split; [vm_compute; reflexivity|].
  vm_compute. eexists; reflexivity.
Qed.

(* D4: histogram limit 0: Flush reports an empty non-nil histogram, InfluxDB cuts buf[:len(buf)-1]
   of an empty buf *)
Definition h_D4 : list (label unit) := [LMerge [inc "t" [bs "gsd_histogram:1"] 2] []; LFlush].
Lemma legacy_refuted_D4 :
  exists a, run u_ops pf_ex rank false (cfg [90] 0) h_D4 = Ok a
    /\ influx_payload true b_on (report_of a) = Panic
    /\ is_ok (influx_payload false b_on (report_of a)).
Proof.
  destruct (run u_ops pf_ex rank false (cfg [90] 0) h_D4) as [a|] eqn:E; [|vm_compute in E; discriminate E].
  exists a. split; [reflexivity|]. vm_compute in E. injection E as <-.
  split; [vm_compute; reflexivity|vm_compute; eexists; reflexivity].
Qed.

(* D5: a persisted timer that received nothing since the last Reset has no values; OTLP's
   AsHistogram conversion takes &values[0] *)
Definition h_D5 : list (label unit) := [LMerge [inc "t" [] 2] []; LFlush; LReset keep; LFlush].
Lemma legacy_refuted_D5 :
  exists a, run u_ops pf_ex rank false (cfg [90] 5) h_D5 = Ok a
    /\ otlp_payload true true b_on [] 1000 (report_of a) = Panic
    /\ is_ok (otlp_payload false true b_on [] 1000 (report_of a)).
Proof.
  destruct (run u_ops pf_ex rank false (cfg [90] 5) h_D5) as [a|] eqn:E; [|vm_compute in E; discriminate E].
  exists a. split; [reflexivity|]. vm_compute in E. injection E as <-.
  split; [vm_compute; reflexivity|vm_compute; eexists; reflexivity].
Qed.

(* non-vacuity: a configuration with thresholds of both signs and a history that reaches a state
   with a timer carrying percentiles, a histogram timer with the +Inf bucket and an idle timer *)
Definition h_ex : list (label unit) :=
  [LMerge [inc "t" [] 7; inc "h" [bs "gsd_histogram:1_inf_x"] 3; inc "idle" [bs "a:b"] 1]
          [{| o_key := (bs "c", []); o_tags := [bs "novalue"]; o_src := bs "h1"; o_counter := true |}];
   LFlush; LReset keep; LMerge [inc "t" [] 2; inc "h" [bs "gsd_histogram:1_inf_x"] 1] []; LFlush].
Example hypotheses_satisfiable :
  config_ok (cfg [90; -100; 0; -1] 2) /\ history_values h_ex < 2^52
  /\ exists a, run u_ops pf_ex rank false (cfg [90; -100; 0; -1] 2) h_ex = Ok a
       /\ map (fun t => (rt_nvalues t, length (rt_pcts t), hist_len (rt_hist t))) (r_timers (report_of a))
          = [(2, 10%nat, 0); (1, 0%nat, 2); (0, 0%nat, 0)].
Proof.
  split; [split; [repeat constructor; lia|cbn; lia]|]. split; [vm_compute; reflexivity|].
  destruct (run u_ops pf_ex rank false (cfg [90; -100; 0; -1] 2) h_ex) as [a|] eqn:E; [|vm_compute in E; discriminate E].
  exists a. split; [reflexivity|]. vm_compute in E. injection E as <-. vm_compute. reflexivity.
Qed.
