(* C16: the collector with the post loops in: every run of the composed system is a run of the
   collector LTS, so the exactly-once theorem carries over; and a worker's post does return. *)
From Coq Require Import List ZArith Bool Arith Lia Permutation.
From GS Require Import Base.LTS Model.Collector Model.PostLoop Proofs.Collector Proofs.PostLoop.
Import ListNotations.

Lemma lowered_run env : forall ls s0 s,
  run (cstepL env) s0 ls = Some s -> exists ls', run cstep s0 ls' = Some s /\ length ls' = length ls.
Proof.
  induction ls as [|l r IH]; intros s0 s H; cbn in H.
  - exists []. split; [exact H|reflexivity].
  - unfold cstepL in H at 1. destruct (lower env l) as [l'|] eqn:L; [|discriminate].
    destruct (cstep s0 l') as [s1|] eqn:E; [|discriminate].
    destruct (IH _ _ H) as (ls' & R & Len). exists (l' :: ls'). cbn. rewrite E. split; [exact R|lia].
Qed.

Theorem collector_exactly_once_with_loops env ls s :
  run (cstepL env) cinit ls = Some s ->
  length (cout s) <= 1 /\
  (cph s = Called <-> length (cout s) = 1) /\
  forall es, cout s = [es] ->
    (existsb failed_batch (workers s) = true -> has_err es = true) /\
    (all_sent (workers s) = false -> In ECtx es /\ cancelled s = true) /\
    (cancelled s = false ->
       all_sent (workers s) = true /\ Permutation es (sent_results (workers s)) /\ length es = length (workers s)).
Proof.
  intros H. destruct (lowered_run _ _ _ _ H) as (ls' & R & _). exact (collector_exactly_once _ _ R).
Qed.

(* each created batch yields a result: if the worker's loop is one of the loops as written and its
   oracle says Stop at call n (the retry window ends), the label "post returned" is defined with
   fuel n + 1, whatever the server answers; and it moves the worker from WRun to WPosted, once *)
Theorem worker_post_returns env i n :
  as_written (w_b (env i)) -> w_bo (env i) n = None ->
  exists e, lower env (LPost i (S n)) = Some (WPost i e).
Proof.
  intros W H. destruct (post_terminates _ (w_srv (env i)) _ (w_cx (env i)) n (S n) W H) as (r & a & sl & P & _); [lia|].
  exists (cerr_of r). unfold lower. rewrite P. reflexivity.
Qed.

Lemma upd_nth {A} (l : list A) i x y : nth_error l i = Some y -> nth_error (upd i x l) i = Some x.
Proof. revert i; induction l; intros [|i]; cbn; try discriminate; auto. Qed.

Theorem worker_post_once env s i fuel s' :
  cstepL env s (LPost i fuel) = Some s' ->
  nth_error (workers s) i = Some WRun /\
  (exists e, nth_error (workers s') i = Some (WPosted e)) /\
  forall fuel', cstepL env s' (LPost i fuel') = None.
Proof.
  unfold cstepL. cbn [lower].
  destruct (post _ _ _ _ fuel) as [r a sl|]; [|discriminate]. cbn [cstep].
  destruct (nth_error (workers s) i) as [[| | |]|] eqn:N; try discriminate.
  intros H.
  assert (E : workers s' = upd i (WPosted (cerr_of r)) (workers s)).
  { destruct (cerr_of r); [| |destruct (cancelled s); [|discriminate]]; injection H as <-; reflexivity. }
  split; [reflexivity|]. split.
  - exists (cerr_of r). rewrite E. eapply upd_nth; eauto.
  - intros fuel'. destruct (post _ _ _ _ fuel'); [|reflexivity]. cbn [cstep].
    rewrite E, (upd_nth _ _ _ _ N). reflexivity.
Qed.

(* the composed system on a script: two batches, one succeeds at the third attempt, the other's
   window ends under sustained 429 + Retry-After; one callback with one nil and one error *)
Definition sample_env (i : nat) : wenv :=
  match i with
  | 0%nat => WEnv (Newrelic true 3000) (fun j => nth j [ABad; A429 (Some 1000%Z)] A2xx) (fun _ => Some 500%Z) (fun _ => false)
  | _ => WEnv (Newrelic true 3000) (fun _ => A429 (Some 1000%Z)) (fun j => nth j [Some 500%Z; Some 800%Z] None) (fun _ => false)
  end.
Example composed_sample :
  match run (cstepL sample_env) cinit
          [LBase CCreate; LBase CCreate; LBase CStart; LPost 1 3; LPost 0 5; LBase (WSend 0); LBase (WSend 1); LBase CCall]
  with Some s => cout s = [[ENil; EPost]] | None => False end.
Proof. vm_compute. reflexivity. Qed.
