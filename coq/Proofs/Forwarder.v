(* Proofs about Model/Forwarder.v: SplitByTags is a partition keyed by each series' own tags; the
   retry discipline of one request; semaphore balance, item conservation and serialiser isolation
   of the handler. *)
From Coq Require Import Lia.
From GS Require Import Base.Bytes Base.LTS Model.Lexer Model.Series Model.MetricMap Model.Forwarder.
From stdpp Require Import gmap.   (* last: NoDup, filter, ∈ are std++'s *)

(* ------------------------------------------------------------------------------------------ *)
(* SplitByTags *)

Lemma tags_match_nil key : tags_match [] key = [].
Proof.
  unfold tags_match. assert (H : List.filter (first_match []) (split_on c_comma key) = []).
  { induction (split_on c_comma key) as [|x l IH]; cbn; [reflexivity|exact IH]. }
  rewrite H. reflexivity.
Qed.

Lemma fmap_pair_fst {A B} (f : A -> B) (l : list A) : ((λ x, (x, f x)) <$> l).*1 = l.
Proof. induction l as [|x l IH]; cbn; [reflexivity|]. f_equal. exact IH. Qed.

Lemma part_of_lookup names pk m ty k :
  series_at (part_of names pk m) ty k =
  if decide (part_key names k = pk) then series_at m ty k else None.
Proof.
  destruct ty; cbn; rewrite map_filter_lookup; cbn;
    (destruct (_ !! k) as [v|]; cbn; [|destruct (decide _); reflexivity]);
    destruct (decide (part_key names k = pk)) as [E|E]; cbn;
    [rewrite option_guard_True by exact E|rewrite option_guard_False by exact E| | | | | | ]; try reflexivity;
    try (rewrite option_guard_True by exact E; reflexivity); try (rewrite option_guard_False by exact E; reflexivity).
Qed.

Lemma series_key_listed m ty k : is_Some (series_at m ty k) -> k ∈ series_keys m.
Proof.
  unfold series_keys. rewrite !elem_of_app. intros [v Hv].
  destruct ty; cbn in Hv; apply fmap_Some in Hv as (x & Hx & _);
    apply elem_of_map_to_list in Hx; apply (elem_of_list_fmap_1 fst) in Hx; cbn in Hx; tauto.
Qed.

Theorem split_partition names m :
  NoDup (split_by_tags names m).*1
  /\ (forall pk p ty k, (pk, p) ∈ split_by_tags names m ->
        series_at p ty k = if decide (part_key names k = pk) then series_at m ty k else None)
  /\ (forall ty k, is_Some (series_at m ty k) -> exists p, (part_key names k, p) ∈ split_by_tags names m).
Proof.
  destruct names as [|n names].
  - cbn. split; [repeat constructor; set_solver|]. split.
    + intros pk p ty k Hin. apply elem_of_list_singleton in Hin. injection Hin as -> ->.
      unfold part_key. rewrite tags_match_nil. rewrite decide_True by reflexivity. reflexivity.
    + intros ty k _. exists m. unfold part_key. rewrite tags_match_nil. apply elem_of_list_singleton. reflexivity.
  - unfold split_by_tags. set (nm := n :: names). split; [|split].
    + rewrite fmap_pair_fst. unfold part_keys. apply NoDup_remove_dups.
    + intros pk p ty k Hin. apply elem_of_list_fmap in Hin as (pk' & [= -> ->] & _). apply part_of_lookup.
    + intros ty k Hs. exists (part_of nm (part_key nm k) m).
      apply elem_of_list_fmap. exists (part_key nm k). split; [reflexivity|].
      unfold part_keys. apply elem_of_remove_dups, elem_of_list_fmap. exists k. split; [reflexivity|].
      eapply series_key_listed; exact Hs.
Qed.

(* ------------------------------------------------------------------------------------------ *)
(* one request *)

Definition fails (h : list outcome) : Prop := Forall (eq Failed) h.

Definition pwf (c : bool) (s : pstate) : Prop :=
  let n := length (p_hist s) in
  match p_phase s, p_status s with
  | PNew, SNone => p_hist s = [] /\ p_ctr s = ctr0
  | PTry, SNone => fails (p_hist s) /\ p_ctr s = Ctr 1 0 n 0 0
  | PFailed, SNone => fails (p_hist s) /\ n > 0 /\ p_ctr s = Ctr 1 0 (n - 1) 0 0
  | PEnd, SInvalid => p_hist s = [] /\ p_ctr s = Ctr 0 0 0 0 1
  | PEnd, SSent => (exists h, p_hist s = Ok2xx :: h /\ fails h) /\ p_ctr s = Ctr 1 1 (n - 1) 0 0
  | PEnd, SDropped => fails (p_hist s) /\ n > 0 /\ p_ctr s = Ctr 1 0 (n - 1) 1 0
  | PEnd, SAbandoned => c = true /\ fails (p_hist s) /\ n > 0 /\ p_ctr s = Ctr 1 0 n 0 0
  | _, _ => False
  end.

Lemma pwf_step c s l s' : pwf c s -> post_step c s l = Some s' -> pwf c s'.
Proof.
  destruct s as [ph st h k]. unfold pwf, post_step; cbn.
  destruct ph, st; try (now intros []); destruct l as [[|]|[|]| | |]; cbn; try discriminate.
  - intros [-> ->] [= <-]; cbn. split; [constructor|reflexivity].
  - intros [-> ->] [= <-]; cbn. auto.
  - intros [Hf ->] [= <-]; cbn. split; [eauto|]. f_equal; lia.
  - intros [Hf ->] [= <-]; cbn. split; [constructor; auto|]. split; [lia|]. f_equal; lia.
  - intros [Hf ->]. destruct c; [|discriminate]. destruct h as [|o h]; [discriminate|]. intros [= <-]; cbn.
    split; [reflexivity|]. split; [exact Hf|]. split; [lia|reflexivity].
  - intros (Hf & Hn & ->) [= <-]; cbn. split; [exact Hf|]. f_equal; lia.
  - intros (Hf & Hn & ->) [= <-]; cbn. split; [exact Hf|]. split; [exact Hn|reflexivity].
Qed.

Lemma pwf_run c ls s : run (post_step c) pinit ls = Some s -> pwf c s.
Proof.
  intros H. refine (invariant_run (post_step c) (pwf c) _ ls pinit s _ H).
  - intros s0 l s1. apply pwf_step.
  - cbn. auto.
Qed.

Lemma failures_fails h : fails h -> failures h = length h.
Proof. induction 1 as [|o h <- _ IH]; cbn; [reflexivity|]. unfold failures in IH. rewrite IH. reflexivity. Qed.

Lemma post_label_counts c ls : forall s0 s, run (post_step c) s0 ls = Some s ->
  n_dropped (p_ctr s) = n_dropped (p_ctr s0) + count_label is_stop ls
  /\ n_retried (p_ctr s) = n_retried (p_ctr s0) + count_label is_backoff ls.
Proof.
  induction ls as [|l r IH]; intros s0 s; cbn.
  - intros [= <-]. unfold count_label; cbn. lia.
  - destruct (post_step c s0 l) as [s1|] eqn:E; [|discriminate]. intros Hr.
    destruct (IH _ _ Hr) as [Hd Hb]. rewrite Hd, Hb. unfold count_label. clear IH Hr Hd Hb.
    unfold post_step in E. destruct (p_phase s0), l as [[|]|[|]| | |]; cbn in *; try discriminate;
      try (injection E as <-; cbn; lia).
    destruct c; [|discriminate]. destruct (p_hist s0); [discriminate|]. injection E as <-; cbn; lia.
Qed.

Ltac fin := cbn in *; repeat split; intros; try discriminate; try congruence; try lia; auto.

Theorem retry_discipline c ls s : run (post_step c) pinit ls = Some s ->
  let k := p_ctr s in
  Forall (eq Failed) (tl (p_hist s))
  /\ (p_status s = SSent <-> head (p_hist s) = Some Ok2xx)
  /\ (p_status s <> SNone <-> p_phase s = PEnd)
  /\ n_sent k = (match p_status s with SSent => 1 | _ => 0 end)
  /\ n_dropped k = (match p_status s with SDropped => 1 | _ => 0 end)
  /\ n_invalid k = (match p_status s with SInvalid => 1 | _ => 0 end)
  /\ n_created k = n_sent k + n_dropped k + (match p_status s with SAbandoned => 1 | _ => 0 end) + in_flight s
  /\ n_retried k + n_dropped k + (match p_phase s with PFailed => 1 | _ => 0 end) = failures (p_hist s)
  /\ n_dropped k = count_label is_stop ls
  /\ n_retried k = count_label is_backoff ls
  /\ (p_status s = SAbandoned -> c = true).
Proof.
  intros Hrun k. pose proof (pwf_run _ _ _ Hrun) as W. destruct (post_label_counts _ _ _ _ Hrun) as [Hd Hb].
  cbn in Hd, Hb. subst k. clear Hrun.
  destruct s as [ph st h k]. unfold pwf, in_flight in *.
  cbn [p_phase p_status p_hist p_ctr] in *.
  assert (Hfl : forall h, fails h -> failures h = length h) by apply failures_fails.
  destruct ph, st; try (exfalso; exact W).
  - destruct W as [-> ->]. fin.
  - destruct W as [Hf ->]. rewrite (Hfl _ Hf). fin; destruct Hf; cbn in *; auto; try discriminate; congruence.
  - destruct W as (Hf & Hn & ->). rewrite (Hfl _ Hf). fin; destruct Hf; cbn in *; auto; try discriminate; try congruence; lia.
  - destruct W as [-> ->]. fin.
  - destruct W as [(h' & -> & Hf) ->]. unfold failures; cbn. fold (failures h'). rewrite (Hfl _ Hf). fin.
  - destruct W as (Hf & Hn & ->). rewrite (Hfl _ Hf). fin; destruct Hf; cbn in *; auto; try discriminate; try congruence; lia.
  - destruct W as (-> & Hf & Hn & ->). rewrite (Hfl _ Hf). fin; destruct Hf; cbn in *; auto; try discriminate; try congruence; lia.
Qed.

(* ------------------------------------------------------------------------------------------ *)
(* list helpers for the handler *)

Lemma Forall_upd {A} (Q : A -> Prop) n x l : Forall Q l -> Q x -> Forall Q (upd n x l).
Proof.
  intros H Hx. revert n. induction H as [|y l Hy Hl IH]; intros [|n]; cbn; try constructor; auto.
Qed.

Lemma nth_error_Forall {A} (Q : A -> Prop) l n x : Forall Q l -> nth_error l n = Some x -> Q x.
Proof. intros H Hn. apply nth_error_In in Hn. rewrite List.Forall_forall in H. auto. Qed.

Definition b2n (b : bool) : nat := if b then 1 else 0.

Lemma filter_upd_len {A} (f : A -> bool) n x y l : nth_error l n = Some y ->
  length (List.filter f (upd n x l)) + b2n (f y) = length (List.filter f l) + b2n (f x).
Proof.
  revert n. induction l as [|z l IH]; intros [|n]; cbn; try discriminate.
  - intros [= ->]. destruct (f x), (f y); cbn; lia.
  - intros H. specialize (IH n H). destruct (f z); cbn; lia.
Qed.

Lemma filter_snoc_len {A} (f : A -> bool) x l :
  length (List.filter f (l ++ [x])) = length (List.filter f l) + b2n (f x).
Proof. rewrite List.filter_app, app_length. cbn. destruct (f x); reflexivity. Qed.

Lemma concat_upd_perm {A B} (f : A -> list B) n x y l : nth_error l n = Some y ->
  Permutation (concat (map f (upd n x l)) ++ f y) (concat (map f l) ++ f x).
Proof.
  revert n. induction l as [|z l IH]; intros [|n]; cbn; try discriminate.
  - intros [= ->]. rewrite (Permutation_app_comm _ (f y)), <- (app_assoc (f y)).
    apply Permutation_app_head, Permutation_app_comm.
  - intros H. rewrite <- !app_assoc. apply Permutation_app_head. exact (IH n H).
Qed.

Lemma concat_del_perm {A B} (f : A -> list B) j y l : nth_error l j = Some y ->
  Permutation (concat (map f l)) (f y ++ concat (map f (del j l))).
Proof.
  revert j. induction l as [|z l IH]; intros [|j]; cbn; try discriminate.
  - intros [= ->]. reflexivity.
  - intros H. rewrite (IH j H). apply Permutation_app_swap_app.
Qed.

Lemma map_upd_same {A B} (f : A -> B) n x y l : nth_error l n = Some y -> f x = f y -> map f (upd n x l) = map f l.
Proof.
  revert n. induction l as [|z l IH]; intros [|n]; cbn; try discriminate.
  - intros [= ->] ->. reflexivity.
  - intros H E. f_equal. exact (IH n H E).
Qed.

Lemma Forall_del {A} (Q : A -> Prop) j l : Forall Q l -> Forall Q (del j l).
Proof. intros H. revert j. induction H as [|y l Hy Hl IH]; intros [|j]; cbn; try constructor; auto. Qed.

(* ------------------------------------------------------------------------------------------ *)
(* splitting a bag *)

Lemma filter_partition_perm {A} (f : A -> bool) l :
  Permutation l (List.filter f l ++ List.filter (λ x, negb (f x)) l).
Proof.
  induction l as [|x l IH]; cbn; [reflexivity|]. destruct (f x); cbn.
  - apply perm_skip, IH.
  - apply Permutation_cons_app, IH.
Qed.

Section BagSplit.
  Variable dyn : list str.
  Notation pkey := (item_pkey dyn).

  Lemma bag_part_keys pk b : Forall (λ it, pkey it = pk) (bag_part dyn pk b).
  Proof.
    apply List.Forall_forall. intros it Hin. apply List.filter_In in Hin as [_ H]. apply str_eqb_eq in H. exact H.
  Qed.

  Lemma bag_part_restrict pk pk' b : pk <> pk' ->
    bag_part dyn pk' (List.filter (λ it, negb (str_eqb (pkey it) pk)) b) = bag_part dyn pk' b.
  Proof.
    intros Hne. unfold bag_part. induction b as [|it b IH]; cbn; [reflexivity|].
    destruct (str_eqb (pkey it) pk) eqn:E; cbn.
    - apply str_eqb_eq in E. destruct (str_eqb (pkey it) pk') eqn:E'; [|exact IH].
      apply str_eqb_eq in E'. congruence.
    - rewrite IH. reflexivity.
  Qed.

  Lemma parts_perm ks : forall b, NoDup ks -> (forall it, In it b -> In (pkey it) ks) ->
    Permutation (concat (map (λ pk, bag_part dyn pk b) ks)) b.
  Proof.
    induction ks as [|pk ks IH]; intros b Hnd Hall; cbn.
    - destruct b as [|it b]; [reflexivity|]. destruct (Hall it (or_introl eq_refl)).
    - apply NoDup_cons in Hnd as [Hnot Hnd].
      set (rest := List.filter (λ it, negb (str_eqb (pkey it) pk)) b).
      etransitivity; [|symmetry; apply (filter_partition_perm (λ it, str_eqb (pkey it) pk) b)].
      fold rest. unfold bag_part at 1. apply Permutation_app_head.
      assert (Hmap : map (λ pk0, bag_part dyn pk0 b) ks = map (λ pk0, bag_part dyn pk0 rest) ks).
      { apply map_ext_in. intros pk' Hin. symmetry. apply bag_part_restrict. intros ->.
        apply Hnot. apply elem_of_list_In. exact Hin. }
      rewrite Hmap. apply IH; [exact Hnd|].
      intros it Hin. apply List.filter_In in Hin as [Hin Hk]. destruct (Hall it Hin) as [E|H]; [|exact H].
      subst pk. rewrite str_eqb_refl in Hk. discriminate.
  Qed.

  Lemma bag_split_perm b : Permutation (concat (map snd (bag_split dyn b))) b.
  Proof.
    unfold bag_split. destruct dyn as [|n0 r0] eqn:Ed; [cbn; rewrite app_nil_r; reflexivity|]. rewrite <- Ed.
    rewrite map_map. cbn. apply parts_perm; [apply NoDup_remove_dups|].
    intros it Hin. apply elem_of_list_In, elem_of_remove_dups, elem_of_list_fmap. exists it.
    split; [reflexivity|apply elem_of_list_In, Hin].
  Qed.

  Lemma bag_split_keys b : Forall (λ kp, Forall (λ it, pkey it = fst kp) (snd kp)) (bag_split dyn b).
  Proof.
    unfold bag_split. destruct dyn as [|n0 r0] eqn:Ed.
    - constructor; [|constructor]. cbn. apply List.Forall_forall. intros it _. unfold item_pkey. apply tags_match_nil.
    - rewrite <- Ed. apply List.Forall_forall. intros kp Hin. apply in_map_iff in Hin as (pk & <- & _). cbn.
      apply bag_part_keys.
  Qed.
End BagSplit.

(* ------------------------------------------------------------------------------------------ *)
(* the handler *)

#[local] Instance item_eq_dec : EqDecision item.
Proof. solve_decision. Defined.

Ltac nofmap :=
  repeat match goal with
         | |- context [@fmap list _ ?A ?B ?f ?l] => change (@fmap list _ A B f l) with (map f l)
         | H : context [@fmap list _ ?A ?B ?f ?l] |- _ => change (@fmap list _ A B f l) with (map f l) in H
         end.
Ltac cnt :=
  nofmap; unfold bag in *; apply (Permutation_count_occ item_eq_dec); intros ?x;
  repeat match goal with
         | H : Permutation _ _ |- _ =>
             let H' := fresh in pose proof (proj1 (Permutation_count_occ item_eq_dec _ _) H x) as H'; clear H
         end;
  repeat progress (repeat rewrite count_occ_app in *; cbn [count_occ] in * );
  repeat match goal with
         | |- context [item_eq_dec ?a ?b] => destruct (item_eq_dec a b)
         | H : context [item_eq_dec ?a ?b] |- _ => destruct (item_eq_dec a b)
         end;
  lia.

Section HandlerProofs.
  Variable cm mr : nat.
  Variable dyn : list str.
  Variable utf8ok : str -> bool.
  Notation hstep := (hstep cm mr dyn utf8ok).
  Notation hinit := (hinit cm mr).

  Definition req_ok (r : request) : Prop :=
    (exists pls, run (post_step (negb (r_tok r))) pinit pls = Some (r_post r))
    /\ (r_released r = true -> p_phase (r_post r) = PEnd)
    /\ (p_phase (r_post r) <> PNew -> (p_status (r_post r) = SInvalid <-> serialisable utf8ok (r_part r) = false))
    /\ Forall (λ it, item_pkey dyn it = r_key r) (r_part r)
    /\ (r_tok r = true -> r_part r <> []).
  Definition gor_ok (g : gor) : Prop :=
    match g with
    | GPosting parts => Forall (λ kp, Forall (λ it, item_pkey dyn it = fst kp) (snd kp)) parts
    | GMerging _ => True
    end.

  (* xm, xr: tokens held by Run's shutdown tail (0 while Run is not shutting down) *)
  Record hinv (xm xr : nat) (s : hstate) : Prop := {
    v_merge : merge_free s + merging s + xm = cm;
    v_req : req_free s + holding_req s + xr = mr;
    v_reqs : Forall req_ok (reqs s);
    v_gors : Forall gor_ok (gors s);
    v_items : Permutation (items_received s) (items_held s)
  }.

  Lemma hinv_init : hinv 0 0 hinit.
  Proof.
    split; cbn; try lia.
    - constructor; [|constructor]. unfold req_ok, nop; cbn. split; [exists []; reflexivity|].
      split; [discriminate|]. split; [congruence|]. split; [constructor|discriminate].
    - constructor.
    - reflexivity.
  Qed.

  Lemma post_step_end c p l : p_phase p = PEnd -> post_step c p l = None.
  Proof. unfold post_step. intros ->. destruct l; reflexivity. Qed.

  Lemma req_step_ok r pl p' :
    req_ok r -> post_step (negb (r_tok r)) (r_post r) pl = Some p' ->
    match pl with Construct ok => Bool.eqb ok (serialisable utf8ok (r_part r)) | _ => true end = true ->
    req_ok (Req (r_key r) (r_part r) (r_tok r) (r_released r) p').
  Proof.
    intros (Hreach & Hrel & Hser & Hkey & Hne) Hs Hfit. unfold req_ok; cbn.
    destruct Hreach as [pls Hpls]. pose proof (pwf_run _ _ _ Hpls) as W.
    split; [exists (pls ++ [pl]); rewrite run_app, Hpls; cbn; rewrite Hs; reflexivity|].
    split.
    { intros Hr. specialize (Hrel Hr). rewrite (post_step_end _ _ _ Hrel) in Hs. discriminate. }
    split; [|split; assumption].
    intros _. unfold post_step in Hs. unfold pwf in W.
    destruct (r_post r) as [ph st h k]; unfold serialisable in *; cbn in *.
    destruct ph, pl as [[|]|[|]| | |]; cbn in Hs; try discriminate.
    - injection Hs as <-; cbn. apply Bool.eqb_prop in Hfit. rewrite <- Hfit. split; discriminate.
    - injection Hs as <-; cbn. apply Bool.eqb_prop in Hfit. rewrite <- Hfit. split; reflexivity.
    - injection Hs as <-; cbn. destruct st; try (exfalso; exact W).
      assert (Hn : PTry <> PNew) by discriminate. destruct (Hser Hn) as [_ H2]. split; [discriminate|]. intros E. specialize (H2 E). discriminate.
    - injection Hs as <-; cbn. destruct st; try (exfalso; exact W).
      assert (Hn : PTry <> PNew) by discriminate. destruct (Hser Hn) as [_ H2]. split; [discriminate|]. intros E. specialize (H2 E). discriminate.
    - destruct (negb (r_tok r)); [|discriminate]. destruct h; [discriminate|]. injection Hs as <-; cbn.
      destruct st; try (exfalso; exact W).
      assert (Hn : PTry <> PNew) by discriminate. destruct (Hser Hn) as [_ H2]. split; [discriminate|]. intros E. specialize (H2 E). discriminate.
    - injection Hs as <-; cbn. destruct st; try (exfalso; exact W).
      assert (Hn : PFailed <> PNew) by discriminate. destruct (Hser Hn) as [_ H2]. split; [discriminate|]. intros E. specialize (H2 E). discriminate.
    - injection Hs as <-; cbn. destruct st; try (exfalso; exact W).
      assert (Hn : PFailed <> PNew) by discriminate. destruct (Hser Hn) as [_ H2]. split; [discriminate|]. intros E. specialize (H2 E). discriminate.
  Qed.

  Lemma received_snoc (rc : list (list bag)) ms :
    concat (map (@concat item) (rc ++ [ms])) = concat (map (@concat item) rc) ++ concat ms.
  Proof. rewrite map_app, concat_app. cbn. rewrite app_nil_r. reflexivity. Qed.

  Lemma concat_map_snoc {A} (f : A -> bag) l x : concat (map f (l ++ [x])) = concat (map f l) ++ f x.
  Proof. rewrite map_app, concat_app. cbn. rewrite app_nil_r. reflexivity. Qed.

  Definition isM (g : gor) : bool := match g with GMerging _ => true | _ => false end.
  Definition isH (r : request) : bool := r_tok r && negb (r_released r).

  Lemma hinv_step xm xr s l s' : hinv xm xr s -> hstep s l = Some s' -> hinv xm xr s'.
  Proof.
    intros [Vm Vr Vrs Vgs Vit] Hs. unfold Forwarder.hstep in Hs.
    unfold merging, holding_req in *. fold isM in *. fold isH in *.
    destruct l as [ms| |g|g j|g j|q pl|q].
    - (* SinkRecv *)
      destruct (loop s) eqn:El; [discriminate|]. destruct (nop_returned s); [|discriminate]. injection Hs as <-.
      split; cbn; auto. unfold items_received, items_held in *; cbn. rewrite received_snoc.
      rewrite El in Vit; cbn [app] in Vit. cnt.
    - (* LoopSpawn *)
      destruct (loop s) as [ms|] eqn:El; [|discriminate]. destruct (merge_free s) as [|n] eqn:Em; [discriminate|].
      injection Hs as <-. split; cbn; auto.
      + fold isM. rewrite filter_snoc_len. cbn. lia.
      + apply Forall_app. split; [exact Vgs|]. constructor; [exact I|constructor].
      + unfold items_received, items_held in *; cbn [loop gors reqs received app]. rewrite El in Vit.
        rewrite concat_map_snoc. cbn [gor_items app]. cnt.
    - (* MergeSplit *)
      destruct (nth_error (gors s) g) as [[ms|parts]|] eqn:Eg; try discriminate.
      destruct (merge_free s <? cm)%nat; [|discriminate]. injection Hs as <-. split; cbn; auto.
      + fold isM. pose proof (filter_upd_len isM g (GPosting (bag_split dyn (concat ms))) _ _ Eg). cbn in H. lia.
      + apply Forall_upd; [exact Vgs|]. cbn. apply bag_split_keys.
      + unfold items_received, items_held in *; cbn.
        pose proof (concat_upd_perm gor_items g (GPosting (bag_split dyn (concat ms))) _ _ Eg) as Hp. cbn in Hp.
        pose proof (bag_split_perm dyn (concat ms)) as Hb. destruct (loop s); cnt.
    - (* PartSkip *)
      destruct (nth_error (gors s) g) as [[ms|parts]|] eqn:Eg; try discriminate.
      destruct (nth_error parts j) as [[pk [|it p]]|] eqn:Ej; try discriminate. injection Hs as <-. split; cbn; auto.
      + fold isM. pose proof (filter_upd_len isM g (GPosting (del j parts)) _ _ Eg). cbn in H. lia.
      + apply Forall_upd; [exact Vgs|]. cbn. apply Forall_del. exact (nth_error_Forall gor_ok _ _ _ Vgs Eg).
      + unfold items_received, items_held in *; cbn.
        pose proof (concat_upd_perm gor_items g (GPosting (del j parts)) _ _ Eg) as Hp. cbn in Hp.
        pose proof (concat_del_perm snd j _ _ Ej) as Hd. cbn in Hd. destruct (loop s); cnt.
    - (* PartPost *)
      destruct (nth_error (gors s) g) as [[ms|parts]|] eqn:Eg; try discriminate.
      destruct (nth_error parts j) as [[pk [|it p]]|] eqn:Ej; try discriminate.
      destruct (req_free s) as [|n] eqn:Er; [discriminate|]. injection Hs as <-. split; cbn; auto.
      + fold isM. pose proof (filter_upd_len isM g (GPosting (del j parts)) _ _ Eg). cbn in H. lia.
      + fold isH. rewrite filter_snoc_len. cbn. lia.
      + apply Forall_app. split; [exact Vrs|]. constructor; [|constructor].
        unfold req_ok; cbn. split; [exists []; reflexivity|]. split; [discriminate|]. split; [congruence|].
        split; [|discriminate].
        pose proof (nth_error_Forall gor_ok _ _ _ Vgs Eg) as Hg. cbn in Hg.
        exact (nth_error_Forall _ _ _ _ Hg Ej).
      + apply Forall_upd; [exact Vgs|]. cbn. apply Forall_del. exact (nth_error_Forall gor_ok _ _ _ Vgs Eg).
      + unfold items_received, items_held in *; cbn.
        pose proof (concat_upd_perm gor_items g (GPosting (del j parts)) _ _ Eg) as Hp. cbn in Hp.
        pose proof (concat_del_perm snd j _ _ Ej) as Hd. cbn in Hd. rewrite concat_map_snoc. cbn. destruct (loop s); cnt.
    - (* ReqStep *)
      destruct (nth_error (reqs s) q) as [r|] eqn:Eq; [|discriminate].
      destruct (post_step (negb (r_tok r)) (r_post r) pl) as [p'|] eqn:Ep; [|discriminate].
      destruct (match pl with Construct ok => _ | _ => true end) eqn:Ef; [|discriminate]. injection Hs as <-.
      split; cbn; auto.
      + fold isH. pose proof (filter_upd_len isH q (Req (r_key r) (r_part r) (r_tok r) (r_released r) p') _ _ Eq) as H.
        assert (E : isH (Req (r_key r) (r_part r) (r_tok r) (r_released r) p') = isH r) by reflexivity.
        rewrite E in H. lia.
      + apply Forall_upd; [exact Vrs|]. eapply req_step_ok; eauto. exact (nth_error_Forall _ _ _ _ Vrs Eq).
      + unfold items_received, items_held in *; cbn. nofmap.
        erewrite (map_upd_same r_part q); [exact Vit|exact Eq|reflexivity].
    - (* Release *)
      destruct (nth_error (reqs s) q) as [r|] eqn:Eq; [|discriminate].
      destruct (p_phase (r_post r)) eqn:Eph; try discriminate. destruct (r_released r) eqn:Erel; [discriminate|].
      pose proof (nth_error_Forall _ _ _ _ Vrs Eq) as (Hreach & Hrel & Hser & Hkey & Hne).
      assert (Hok : req_ok (Req (r_key r) (r_part r) (r_tok r) true (r_post r))).
      { unfold req_ok; cbn. split; [exact Hreach|]. split; [auto|]. split; [exact Hser|]. split; assumption. }
      pose proof (filter_upd_len isH q (Req (r_key r) (r_part r) (r_tok r) true (r_post r)) _ _ Eq) as Hlen.
      assert (E1 : isH (Req (r_key r) (r_part r) (r_tok r) true (r_post r)) = false)
        by (unfold isH; cbn; apply andb_false_r).
      assert (E2 : isH r = r_tok r) by (unfold isH; rewrite Erel; apply andb_true_r).
      rewrite E1, E2 in Hlen.
      destruct (r_tok r) eqn:Etok.
      + destruct (req_free s <? mr)%nat; [|discriminate]. injection Hs as <-. split; cbn; auto.
        * fold isH. cbn in Hlen. lia.
        * apply Forall_upd; assumption.
        * unfold items_received, items_held in *; cbn. nofmap.
          erewrite (map_upd_same r_part q); [exact Vit|exact Eq|reflexivity].
      + injection Hs as <-. split; cbn; auto.
        * fold isH. cbn in Hlen. lia.
        * apply Forall_upd; assumption.
        * unfold items_received, items_held in *; cbn. nofmap.
          erewrite (map_upd_same r_part q); [exact Vit|exact Eq|reflexivity].
  Qed.

  Lemma hinv_run ls s : run hstep hinit ls = Some s -> hinv 0 0 s.
  Proof.
    intros H. refine (invariant_run hstep (hinv 0 0) _ ls hinit s hinv_init H).
    intros s0 l s1. apply hinv_step.
  Qed.
End HandlerProofs.

(* ------------------------------------------------------------------------------------------ *)
(* the statements of Props/C15.v about the handler *)
Section HandlerStatements.
  Variable cm mr : nat.
  Variable dyn : list str.
  Variable utf8ok : str -> bool.
  Notation hstep := (hstep cm mr dyn utf8ok).
  Notation hinit := (hinit cm mr).

  Lemma rest_no_merging gs :
    forallb (λ g, match g with GPosting [] => true | _ => false end) gs = true ->
    List.filter isM gs = [] /\ concat (map gor_items gs) = [].
  Proof.
    induction gs as [|g gs IH]; cbn; [auto|]. intros H. apply andb_prop in H as [Hg Hr].
    destruct g as [ms|[|kp parts]]; try discriminate. cbn. exact (IH Hr).
  Qed.

  Lemma rest_no_holding rs : forallb r_released rs = true -> List.filter isH rs = [].
  Proof.
    induction rs as [|r rs IH]; cbn; [auto|]. intros H. apply andb_prop in H as [Hg Hr].
    unfold isH at 1. rewrite Hg, andb_false_r. exact (IH Hr).
  Qed.

  Theorem sem_balance ls s : run hstep hinit ls = Some s ->
    merge_free s + merging s = cm /\ req_free s + holding_req s = mr
    /\ (at_rest s = true -> merge_free s = cm /\ req_free s = mr).
  Proof.
    intros H. destruct (hinv_run _ _ _ _ _ _ H) as [Vm Vr _ _ _]. rewrite Nat.add_0_r in Vm, Vr.
    split; [exact Vm|]. split; [exact Vr|]. unfold at_rest. intros R.
    apply andb_prop in R as [R Hr]. apply andb_prop in R as [_ Hg].
    unfold merging, holding_req in *. fold isM in *. fold isH in *.
    rewrite (proj1 (rest_no_merging _ Hg)) in Vm. rewrite (rest_no_holding _ Hr) in Vr. cbn in *. lia.
  Qed.

  Theorem handler_delivery ls s : run hstep hinit ls = Some s ->
    Permutation (items_received s) (items_held s)
    /\ Forall (λ r, Forall (λ it, item_pkey dyn it = r_key r) (r_part r)
                    /\ (r_tok r = true -> r_part r <> [])
                    /\ exists pls, run (post_step (negb (r_tok r))) pinit pls = Some (r_post r)) (reqs s)
    /\ (at_rest s = true ->
          Permutation (items_received s) (concat (map r_part (reqs s)))
          /\ Forall (λ r, p_phase (r_post r) = PEnd) (reqs s)).
  Proof.
    intros H. destruct (hinv_run _ _ _ _ _ _ H) as [_ _ Vrs _ Vit].
    split; [exact Vit|]. split.
    - eapply List.Forall_impl; [|exact Vrs]. intros r (Hreach & _ & _ & Hk & Hn). auto.
    - unfold at_rest. intros R. apply andb_prop in R as [R Hr]. apply andb_prop in R as [Hl Hg]. split.
      + rewrite Vit. unfold items_held. destruct (loop s); [discriminate|]. nofmap.
        rewrite (proj2 (rest_no_merging _ Hg)). reflexivity.
      + apply List.Forall_forall. intros r Hin. rewrite List.Forall_forall in Vrs.
        destruct (Vrs r Hin) as (_ & Hrel & _). apply Hrel.
        rewrite forallb_forall in Hr. exact (Hr r Hin).
  Qed.

  Theorem isolation_valid ls s r : run hstep hinit ls = Some s -> In r (reqs s) ->
    p_phase (r_post r) <> PNew ->
    (p_status (r_post r) = SInvalid <-> serialisable utf8ok (r_part r) = false)
    /\ (serialisable utf8ok (r_part r) = true -> n_created (p_ctr (r_post r)) = 1 /\ n_invalid (p_ctr (r_post r)) = 0).
  Proof.
    intros H Hin Hph. destruct (hinv_run _ _ _ _ _ _ H) as [_ _ Vrs _ _].
    rewrite List.Forall_forall in Vrs. destruct (Vrs r Hin) as ([pls Hp] & _ & Hser & _).
    specialize (Hser Hph). split; [exact Hser|]. intros Hs.
    assert (Hst : p_status (r_post r) <> SInvalid) by (intros E; apply Hser in E; congruence).
    pose proof (pwf_run _ _ _ Hp) as W. unfold pwf in W.
    destruct (r_post r) as [ph st h k]; cbn in *.
    destruct ph, st; try (exfalso; exact W); try congruence.
    - destruct W as [_ ->]. auto.
    - destruct W as (_ & _ & ->). auto.
    - destruct W as [_ ->]. auto.
    - destruct W as (_ & _ & ->). auto.
    - destruct W as (_ & _ & _ & ->). auto.
  Qed.
End HandlerStatements.

(* D8 on the model: x is a valid datapoint of one client, y a datapoint of another client whose tag
   is the single byte 0xFF; both have no dynamic-header tag, so one flush puts them into the same
   request, whose construction fails: x is lost and counted under "invalid". *)
Definition d8_x : item := Item 0 [97%N] [] [].
Definition d8_y : item := Item 1 [98%N] [255%N] [[255%N]].
Definition d8_utf8 (s : str) : bool := negb (existsb (N.eqb 255%N) s).
Definition d8_run : list hlabel :=
  [ReqStep 0 (Construct true); ReqStep 0 (Attempt Ok2xx); Release 0;
   SinkRecv [[d8_x]; [d8_y]]; LoopSpawn; MergeSplit 0; PartPost 0 0; ReqStep 1 (Construct false); Release 1].

Theorem isolation_refuted_D8 :
  exists s r, run (hstep 1 1 [] d8_utf8) (hinit 1 1) d8_run = Some s
    /\ In r (reqs s) /\ In d8_x (r_part r) /\ item_ok d8_utf8 d8_x = true
    /\ p_status (r_post r) = SInvalid /\ n_created (p_ctr (r_post r)) = 0
    /\ at_rest s = true /\ hcounters s = Ctr 1 1 0 0 1.
Proof.
  eexists. exists (Req [] [d8_x; d8_y] true true (P PEnd SInvalid [] (Ctr 0 0 0 0 1))).
  split; [vm_compute; reflexivity|]. cbn. repeat split; auto.
Qed.

(* non-vacuity: a request that fails twice, is retried once and then dropped; one that succeeds on
   the second attempt *)
Example post_run_dropped :
  exists s, run (post_step false) pinit [Construct true; Attempt Failed; Backoff; Attempt Failed; Stop] = Some s
    /\ p_status s = SDropped /\ p_ctr s = Ctr 1 0 1 1 0.
Proof. eexists. split; [reflexivity|]. split; reflexivity. Qed.
Example post_run_sent :
  exists s, run (post_step false) pinit (Construct true :: attempts_labels [Failed; Ok2xx]) = Some s
    /\ p_status s = SSent /\ p_ctr s = Ctr 1 1 1 0 0.
Proof. eexists. split; [reflexivity|]. split; reflexivity. Qed.
Example post_no_attempt_after_success :
  run (post_step false) pinit [Construct true; Attempt Ok2xx; Attempt Ok2xx] = None.
Proof. reflexivity. Qed.

(* ------------------------------------------------------------------------------------------ *)
(* the retry window *)
Local Open Scope Z_scope.

Definition tinv (window : Z) (s : tstate) : Prop :=
  (p_phase (t_p s) = PNew -> t_created s = None)
  /\ (p_phase (t_p s) <> PNew -> t_created s = Some (t_start s))
  /\ (p_status (t_p s) = SDropped ->
        exists now, t_decided s = Some now /\ stop_allowed window (now - t_start s) = true)
  /\ (p_status (t_p s) <> SDropped -> t_decided s = None).

Lemma post_step_shape c p l p' : post_step c p l = Some p' ->
  match l with
  | Construct _ => p_phase p = PNew /\ p_phase p' <> PNew /\ p_status p' <> SDropped
  | Stop => p_phase p <> PNew /\ p_phase p' <> PNew /\ p_status p' = SDropped
  | _ => p_phase p <> PNew /\ p_phase p' <> PNew /\ p_status p' <> SDropped
  end.
Proof.
  unfold post_step. destruct (p_phase p) eqn:E, l as [[|]|[|]| | |]; try discriminate;
    try (intros [= <-]; cbn; repeat split; congruence).
  destruct c; [|discriminate]. destruct (p_hist p); [discriminate|]. intros [= <-]; cbn. repeat split; congruence.
Qed.

(* a pending or failed request carries no final status yet *)
Lemma post_step_nonfinal c p l p' : post_step c p l = Some p' -> p_phase p <> PEnd.
Proof. intros H E. rewrite (post_step_end _ _ _ E) in H. discriminate. Qed.

Ltac tfin := repeat split; intros; try congruence; try contradiction; eauto.

Lemma tinv_step c w h s l s' :
  (exists pls, run (post_step c) pinit pls = Some (t_p s)) ->
  tinv w s -> tstep false c w h s l = Some s' ->
  (exists pls, run (post_step c) pinit pls = Some (t_p s')) /\ tinv w s'.
Proof.
  intros [pls Hp] (I1 & I2 & I3 & I4) Hs.
  assert (Hext : forall pl p', post_step c (t_p s) pl = Some p' ->
            exists pls', run (post_step c) pinit pls' = Some p').
  { intros pl p' E. exists (pls ++ [pl]). rewrite run_app, Hp. cbn. rewrite E. reflexivity. }
  assert (Hnd : forall pl p', post_step c (t_p s) pl = Some p' -> p_status (t_p s) <> SDropped).
  { intros pl p' E Hd. pose proof (pwf_run _ _ _ Hp) as W. unfold pwf in W.
    pose proof (post_step_nonfinal _ _ _ _ E) as Hne.
    destruct (t_p s) as [ph st hh k]; cbn in *. subst st. destruct ph; try contradiction; congruence. }
  unfold tstep in Hs. destruct l as [ok now|o|now|].
  - destruct (post_step c (t_p s) (Construct ok)) as [p'|] eqn:E; [|discriminate]. injection Hs as <-.
    split; [eauto|]. apply post_step_shape in E as (E1 & E2 & E3). unfold tinv; cbn. tfin.
  - destruct (post_step c (t_p s) (Attempt o)) as [p'|] eqn:E; [|discriminate]. injection Hs as <-.
    split; [eauto|]. pose proof (Hnd _ _ E) as Hn. apply post_step_shape in E as (E1 & E2 & E4).
    unfold tinv; cbn. tfin.
  - destruct (stop_allowed w (now - t_start s)) eqn:Esa.
    + destruct (post_step c (t_p s) Stop) as [p'|] eqn:E; [|discriminate]. injection Hs as <-.
      split; [eauto|]. apply post_step_shape in E as (E1 & E2 & E4). unfold tinv; cbn. tfin.
    + destruct (post_step c (t_p s) Backoff) as [p'|] eqn:E; [|discriminate]. injection Hs as <-.
      split; [eauto|]. pose proof (Hnd _ _ E) as Hn. apply post_step_shape in E as (E1 & E2 & E4).
      unfold tinv; cbn. tfin.
  - destruct (post_step c (t_p s) CtxDone) as [p'|] eqn:E; [|discriminate]. injection Hs as <-.
    split; [eauto|]. pose proof (Hnd _ _ E) as Hn. apply post_step_shape in E as (E1 & E2 & E4).
    unfold tinv; cbn. tfin.
Qed.

(* The post loop with the window explicit (current code: the policy is created per request).
   Erasing the clock readings gives a run of the untimed post LTS, so retry_discipline applies to
   t_p s; and a request is given up only by a NextBackOff call whose elapsed time, measured from the
   start of this very request, exceeds the window by the library's rule. *)
Theorem retry_window c w h ls s : run (tstep false c w h) tinit ls = Some s ->
  (exists pls, run (post_step c) pinit pls = Some (t_p s))
  /\ (p_status (t_p s) = SDropped ->
        exists created now, t_created s = Some created /\ t_decided s = Some now
                            /\ stop_allowed w (now - created) = true)
  /\ (p_status (t_p s) <> SDropped -> t_decided s = None).
Proof.
  intros H.
  assert (Hinv : (exists pls, run (post_step c) pinit pls = Some (t_p s)) /\ tinv w s).
  { refine (invariant_run (tstep false c w h)
              (fun s => (exists pls, run (post_step c) pinit pls = Some (t_p s)) /\ tinv w s) _ ls tinit s _ H).
    - intros s0 l s1 [Hp Hi] Hs. eapply tinv_step; eauto.
    - split; [exists []; reflexivity|]. unfold tinv; cbn. tfin. }
  destruct Hinv as [Hp (I1 & I2 & I3 & I4)]. split; [exact Hp|]. split; [|exact I4].
  intros Hd. destruct (I3 Hd) as (now & Hdec & Hsa). exists (t_start s), now.
  split; [|auto]. apply I2. intros E. destruct Hp as [pls Hp]. pose proof (pwf_run _ _ _ Hp) as W.
  unfold pwf in W. rewrite E, Hd in W. exact W.
Qed.

(* retries disabled (max-request-elapsed-time = -1): any elapsed time stops, i.e. the first failure
   is final; a window of 0 (which the constructor rejects) would never stop *)
Lemma stop_disabled el : 0 <= el -> stop_allowed (-1) el = true.
Proof. intros H. unfold stop_allowed. cbn. apply Z.ltb_lt. lia. Qed.
Lemma stop_never el : stop_allowed 0 el = false.
Proof. reflexivity. Qed.

(* The seeded variant (one policy built at handler creation, copied without Reset): the handler was
   created at time 0 with a 2 s window; a request starts at 2.3 s, its first attempt fails and
   NextBackOff is called 1 ms later.  The variant gives the body up at once although only 1 ms of its
   window has passed; the current code, on the same script, retries. *)
Definition legacy_script : list tlabel := [TConstruct true 2300000000; TAttempt Failed; TNext 2301000000].
Theorem retry_window_legacy_refuted :
  exists s created now,
    run (tstep true false 2000000000 0) tinit legacy_script = Some s
    /\ p_status (t_p s) = SDropped /\ p_hist (t_p s) = [Failed]
    /\ t_created s = Some created /\ t_decided s = Some now
    /\ stop_allowed 2000000000 (now - created) = false
    /\ exists s', run (tstep false false 2000000000 0) tinit legacy_script = Some s'
                  /\ p_phase (t_p s') = PTry /\ n_retried (p_ctr (t_p s')) = 1%nat /\ n_dropped (p_ctr (t_p s')) = 0%nat.
Proof.
  eexists. exists 2300000000, 2301000000. split; [vm_compute; reflexivity|]. cbn.
  repeat split. eexists. split; [vm_compute; reflexivity|]. repeat split.
Qed.
Local Close Scope Z_scope.

(* ------------------------------------------------------------------------------------------ *)
(* flush notifications *)

Lemma sum_upd {A} (f : A -> nat) n x y l : nth_error l n = Some y ->
  list_sum (map f (upd n x l)) + f y = list_sum (map f l) + f x.
Proof.
  unfold list_sum. revert n. induction l as [|z l IH]; intros [|n]; cbn; try discriminate.
  - intros [= ->]. lia.
  - intros H. specialize (IH n H). lia.
Qed.
Lemma sum_snoc {A} (f : A -> nat) l x : list_sum (map f (l ++ [x])) = list_sum (map f l) + f x.
Proof. rewrite map_app, list_sum_app. cbn. lia. Qed.
Lemma del_length {A} j (l : list A) y : nth_error l j = Some y -> S (length (del j l)) = length l.
Proof.
  revert j. induction l as [|z l IH]; intros [|j]; cbn; try discriminate; [reflexivity|].
  intros H. rewrite (IH j H). reflexivity.
Qed.

Section Notifications.
  Variable cm mr : nat.
  Variable dyn : list str.
  Variable utf8ok : str -> bool.
  Notation hstep := (hstep cm mr dyn utf8ok).
  Notation hinit := (hinit cm mr).

  Definition ninv (s : hstate) : Prop := notified s + notif_pending dyn s = notif_total dyn s.

  Ltac prj := cbn [loop gors reqs notified received merge_free req_free gor_owes] in *.

  Lemma ninv_step s l s' : ninv s -> hstep s l = Some s' -> ninv s'.
  Proof.
    unfold ninv, notif_pending, notif_total, holding_req. fold isH. intros N Hs.
    unfold Forwarder.hstep in Hs. destruct l as [ms| |g|g j|g j|q pl|q].
    - destruct (loop s) eqn:El; [discriminate|]. destruct (nop_returned s); [|discriminate]. injection Hs as <-.
      prj. rewrite sum_snoc. lia.
    - destruct (loop s) as [ms|] eqn:El; [|discriminate]. destruct (merge_free s); [discriminate|].
      injection Hs as <-. prj. rewrite sum_snoc. prj. lia.
    - destruct (nth_error (gors s) g) as [[ms|parts]|] eqn:Eg; try discriminate.
      destruct (merge_free s <? cm)%nat; [|discriminate]. injection Hs as <-. prj.
      pose proof (sum_upd (gor_owes dyn) g (GPosting (bag_split dyn (concat ms))) _ _ Eg) as H. prj.
      unfold parts_of in *. lia.
    - destruct (nth_error (gors s) g) as [[ms|parts]|] eqn:Eg; try discriminate.
      destruct (nth_error parts j) as [[pk [|it p]]|] eqn:Ej; try discriminate. injection Hs as <-. prj.
      pose proof (sum_upd (gor_owes dyn) g (GPosting (del j parts)) _ _ Eg) as H. prj.
      pose proof (del_length _ _ _ Ej). lia.
    - destruct (nth_error (gors s) g) as [[ms|parts]|] eqn:Eg; try discriminate.
      destruct (nth_error parts j) as [[pk [|it p]]|] eqn:Ej; try discriminate.
      destruct (req_free s); [discriminate|]. injection Hs as <-. prj.
      pose proof (sum_upd (gor_owes dyn) g (GPosting (del j parts)) _ _ Eg) as H. prj.
      pose proof (del_length _ _ _ Ej). rewrite filter_snoc_len.
      change (b2n (isH (Req pk (it :: p) true false pinit))) with 1. lia.
    - destruct (nth_error (reqs s) q) as [r|] eqn:Eq; [|discriminate].
      destruct (post_step (negb (r_tok r)) (r_post r) pl) as [p'|]; [|discriminate].
      destruct (match pl with Construct ok => _ | _ => true end); [|discriminate]. injection Hs as <-. prj.
      pose proof (filter_upd_len isH q (Req (r_key r) (r_part r) (r_tok r) (r_released r) p') _ _ Eq) as H.
      assert (E : isH (Req (r_key r) (r_part r) (r_tok r) (r_released r) p') = isH r) by reflexivity.
      rewrite E in H. lia.
    - destruct (nth_error (reqs s) q) as [r|] eqn:Eq; [|discriminate].
      destruct (p_phase (r_post r)); try discriminate. destruct (r_released r) eqn:Erel; [discriminate|].
      pose proof (filter_upd_len isH q (Req (r_key r) (r_part r) (r_tok r) true (r_post r)) _ _ Eq) as Hlen.
      assert (E1 : isH (Req (r_key r) (r_part r) (r_tok r) true (r_post r)) = false)
        by (unfold isH; cbn; apply andb_false_r).
      assert (E2 : isH r = r_tok r) by (unfold isH; rewrite Erel; apply andb_true_r).
      rewrite E1, E2 in Hlen. destruct (r_tok r).
      + destruct (req_free s <? mr)%nat; [|discriminate]. injection Hs as <-. prj. cbn [b2n] in Hlen. lia.
      + injection Hs as <-. prj. cbn [b2n] in Hlen. lia.
  Qed.

  Lemma rest_nothing_owed gs :
    forallb (λ g, match g with GPosting [] => true | _ => false end) gs = true ->
    list_sum (map (gor_owes dyn) gs) = 0.
  Proof.
    induction gs as [|g gs IH]; cbn; [auto|]. intros H. apply andb_prop in H as [Hg Hr].
    destruct g as [ms|[|kp parts]]; try discriminate. cbn. exact (IH Hr).
  Qed.

  (* every NotifyFlush is accounted for: calls made + calls still to come = the number of parts of
     all flushes read so far; at rest exactly that many calls have been made *)
  Theorem notifications_count ls s : run hstep hinit ls = Some s ->
    notified s + notif_pending dyn s = notif_total dyn s
    /\ (at_rest s = true -> notified s = notif_total dyn s).
  Proof.
    intros H. assert (N : ninv s).
    { refine (invariant_run hstep ninv _ ls hinit s _ H); [intros s0 l s1; apply ninv_step|reflexivity]. }
    split; [exact N|]. unfold at_rest. intros R.
    apply andb_prop in R as [R Hr]. apply andb_prop in R as [Hl Hg].
    unfold ninv, notif_pending, holding_req in N. fold isH in N.
    rewrite (rest_nothing_owed _ Hg), (rest_no_holding _ Hr) in N. destruct (loop s); [discriminate|]. cbn in N. lia.
  Qed.
End Notifications.

(* how many parts a flush has *)
Lemma parts_of_nodyn ms : parts_of [] ms = 1.
Proof. reflexivity. Qed.
Lemma parts_of_dyn n dyn ms :
  parts_of (n :: dyn) ms = length (remove_dups (item_pkey (n :: dyn) <$> concat ms)).
Proof. unfold parts_of, bag_split. rewrite map_length. reflexivity. Qed.

(* without dynamic headers: exactly one NotifyFlush per flush, empty or not *)
Theorem one_notification_per_flush cm mr utf8ok ls s :
  run (hstep cm mr [] utf8ok) (hinit cm mr) ls = Some s ->
  at_rest s = true -> notified s = length (received s).
Proof.
  intros H R. rewrite (proj2 (notifications_count _ _ _ _ _ _ H) R). unfold notif_total, list_sum.
  induction (received s) as [|ms l IH]; cbn; [reflexivity|]. f_equal. exact IH.
Qed.

(* with dynamic headers: one per distinct header key among the flush's series -- none at all for an
   empty flush, several when the series carry different values *)
Theorem notifications_dynamic cm mr n dyn utf8ok ls s :
  run (hstep cm mr (n :: dyn) utf8ok) (hinit cm mr) ls = Some s ->
  at_rest s = true ->
  notified s = list_sum (map (λ ms, length (remove_dups (item_pkey (n :: dyn) <$> concat ms))) (received s))
  /\ parts_of (n :: dyn) [] = 0.
Proof.
  intros H R. split; [|reflexivity]. rewrite (proj2 (notifications_count _ _ _ _ _ _ H) R). unfold notif_total.
  f_equal. apply map_ext. intros ms. apply parts_of_dyn.
Qed.

(* ------------------------------------------------------------------------------------------ *)
(* shutdown *)

Lemma nth_error_upd {A} n (x : A) l m r : nth_error (upd n x l) m = Some r ->
  (n = m /\ r = x /\ exists y, nth_error l n = Some y) \/ nth_error l m = Some r.
Proof.
  revert n m. induction l as [|z l IH]; intros [|n] [|m]; cbn; try discriminate; auto.
  - intros [= <-]. left. eauto.
  - intros H. destruct (IH n m H) as [(-> & -> & Hy)|H']; auto.
Qed.
Lemma nth_error_snoc {A} (l : list A) x m r : nth_error (l ++ [x]) m = Some r ->
  nth_error l m = Some r \/ r = x.
Proof.
  revert m. induction l as [|z l IH]; intros [|m]; cbn; auto.
  - intros [= <-]; auto.
  - destruct m; discriminate.
Qed.

Section Shutdown.
  Variable cm mr : nat.
  Variable dyn : list str.
  Variable utf8ok : str -> bool.
  Notation hstep := (hstep cm mr dyn utf8ok).
  Notation rstep := (rstep cm mr dyn utf8ok).
  Notation rinit := (rinit cm mr).

  (* only the start-up nop (request 0) runs without a token *)
  Definition tok_inv (h : hstate) : Prop := forall q r, nth_error (reqs h) (S q) = Some r -> r_tok r = true.

  Lemma tok_step h l h' : tok_inv h -> reqs h <> [] -> hstep h l = Some h' -> tok_inv h' /\ reqs h' <> [].
  Proof.
    unfold tok_inv. intros T Hne Hs. unfold Forwarder.hstep in Hs.
    destruct l as [ms| |g|g j|g j|q pl|q].
    - destruct (loop h); [discriminate|]. destruct (nop_returned h); [|discriminate]. injection Hs as <-. auto.
    - destruct (loop h); [|discriminate]. destruct (merge_free h); [discriminate|]. injection Hs as <-. auto.
    - destruct (nth_error (gors h) g) as [[ms|parts]|]; try discriminate.
      destruct (merge_free h <? cm)%nat; [|discriminate]. injection Hs as <-. auto.
    - destruct (nth_error (gors h) g) as [[ms|parts]|]; try discriminate.
      destruct (nth_error parts j) as [[pk [|it p]]|]; try discriminate. injection Hs as <-. auto.
    - destruct (nth_error (gors h) g) as [[ms|parts]|]; try discriminate.
      destruct (nth_error parts j) as [[pk [|it p]]|]; try discriminate.
      destruct (req_free h); [discriminate|]. injection Hs as <-. cbn [reqs]. split.
      + intros q r Hr. apply nth_error_snoc in Hr as [Hr| ->]; [eauto|reflexivity].
      + destruct (reqs h); [contradiction|discriminate].
    - destruct (nth_error (reqs h) q) as [r0|] eqn:Eq; [|discriminate].
      destruct (post_step _ _ pl) as [p'|]; [|discriminate].
      destruct (match pl with Construct ok => _ | _ => true end); [|discriminate]. injection Hs as <-. cbn [reqs]. split.
      + intros m r Hr. apply nth_error_upd in Hr as [(Eqm & -> & _)|Hr]; [cbn; subst q; exact (T m r0 Eq)|eauto].
      + destruct (reqs h), q; cbn; try contradiction; discriminate.
    - destruct (nth_error (reqs h) q) as [r0|] eqn:Eq; [|discriminate].
      destruct (p_phase (r_post r0)); try discriminate. destruct (r_released r0); [discriminate|].
      assert (Hu : tok_inv (H (merge_free h) (req_free h) (loop h) (gors h)
                              (upd q (Req (r_key r0) (r_part r0) (r_tok r0) true (r_post r0)) (reqs h)) 0 [])
                   /\ upd q (Req (r_key r0) (r_part r0) (r_tok r0) true (r_post r0)) (reqs h) <> []).
      { split.
        - intros m r Hr. cbn [reqs] in Hr. apply nth_error_upd in Hr as [(Eqm & -> & _)|Hr]; [cbn; subst q; exact (T m r0 Eq)|eauto].
        - destruct (reqs h), q; cbn; try contradiction; discriminate. }
      destruct (r_tok r0).
      + destruct (req_free h <? mr)%nat; [|discriminate]. injection Hs as <-. exact Hu.
      + injection Hs as <-. exact Hu.
  Qed.

  Lemma nop_returned_step h l h' : nop_returned h = true -> hstep h l = Some h' -> nop_returned h' = true.
  Proof.
    unfold nop_returned. intros N Hs. unfold Forwarder.hstep in Hs.
    destruct l as [ms| |g|g j|g j|q pl|q].
    - destruct (loop h); [discriminate|]. destruct (nop_returned h); [|discriminate].
      injection Hs as <-. exact N.
    - destruct (loop h); [|discriminate]. destruct (merge_free h); [discriminate|]. injection Hs as <-. exact N.
    - destruct (nth_error (gors h) g) as [[ms|parts]|]; try discriminate.
      destruct (merge_free h <? cm)%nat; [|discriminate]. injection Hs as <-. exact N.
    - destruct (nth_error (gors h) g) as [[ms|parts]|]; try discriminate.
      destruct (nth_error parts j) as [[pk [|it p]]|]; try discriminate. injection Hs as <-. exact N.
    - destruct (nth_error (gors h) g) as [[ms|parts]|]; try discriminate.
      destruct (nth_error parts j) as [[pk [|it p]]|]; try discriminate.
      destruct (req_free h); [discriminate|]. injection Hs as <-. cbn. destruct (reqs h); [discriminate|exact N].
    - destruct (nth_error (reqs h) q) as [r0|] eqn:Eq; [|discriminate].
      destruct (post_step _ _ pl) as [p'|]; [|discriminate].
      destruct (match pl with Construct ok => _ | _ => true end); [|discriminate]. injection Hs as <-. cbn.
      destruct (reqs h) as [|r1 rs]; [discriminate|]. destruct q; cbn in *; [injection Eq as ->; exact N|exact N].
    - destruct (nth_error (reqs h) q) as [r0|] eqn:Eq; [|discriminate].
      destruct (p_phase (r_post r0)); try discriminate. destruct (r_released r0); [discriminate|].
      assert (Hu : match upd q (Req (r_key r0) (r_part r0) (r_tok r0) true (r_post r0)) (reqs h) with
                   | [] => false | r :: _ => r_released r end = true).
      { destruct (reqs h) as [|r1 rs]; [discriminate|]. destruct q; cbn; [reflexivity|exact N]. }
      destruct (r_tok r0).
      + destruct (req_free h <? mr)%nat; [|discriminate]. injection Hs as <-. exact Hu.
      + injection Hs as <-. exact Hu.
  Qed.

  Lemma done_nth gs g x :
    forallb (λ g, match g with GPosting [] => true | _ => false end) gs = true ->
    nth_error gs g = Some x -> x = GPosting [].
  Proof.
    intros H Hn. apply nth_error_In in Hn. rewrite forallb_forall in H. specialize (H x Hn).
    destruct x as [ms|[|kp parts]]; try discriminate. reflexivity.
  Qed.

  (* once every flush goroutine has finished and the sink is closed, nothing starts again *)
  Lemma flushes_done_step h l h' : flushes_done h = true -> hstep h l = Some h' ->
    (forall ms, l <> SinkRecv ms) -> flushes_done h' = true.
  Proof.
    unfold flushes_done. intros D Hs Hl. apply andb_prop in D as [Dl Dg].
    destruct (loop h) eqn:El; [discriminate|]. unfold Forwarder.hstep in Hs.
    destruct l as [ms| |g|g j|g j|q pl|q].
    - destruct (Hl ms eq_refl).
    - rewrite El in Hs. discriminate.
    - destruct (nth_error (gors h) g) as [x|] eqn:Eg; [|discriminate]. rewrite (done_nth _ _ _ Dg Eg) in Hs. discriminate.
    - destruct (nth_error (gors h) g) as [x|] eqn:Eg; [|discriminate]. rewrite (done_nth _ _ _ Dg Eg) in Hs.
      destruct j; discriminate.
    - destruct (nth_error (gors h) g) as [x|] eqn:Eg; [|discriminate]. rewrite (done_nth _ _ _ Dg Eg) in Hs.
      destruct j; discriminate.
    - destruct (nth_error (reqs h) q) as [r0|]; [|discriminate].
      destruct (post_step _ _ pl) as [p'|]; [|discriminate].
      destruct (match pl with Construct ok => _ | _ => true end); [|discriminate]. injection Hs as <-. cbn.
      rewrite El, Dg. reflexivity.
    - destruct (nth_error (reqs h) q) as [r0|]; [|discriminate].
      destruct (p_phase (r_post r0)); try discriminate. destruct (r_released r0); [discriminate|].
      destruct (r_tok r0).
      + destruct (req_free h <? mr)%nat; [|discriminate]. injection Hs as <-. cbn. rewrite El, Dg. reflexivity.
      + injection Hs as <-. cbn. rewrite El, Dg. reflexivity.
  Qed.

  Record rinv (patched : bool) (s : rstate) : Prop := {
    w_h : hinv cm mr dyn utf8ok (r_tmerge s) (r_treq s) (r_h s);
    w_tok : tok_inv (r_h s) /\ reqs (r_h s) <> [];
    w_open : r_closed s = false -> r_treq s = 0 /\ r_tmerge s = 0 /\ r_returned s = false;
    w_nop : r_closed s = true -> nop_returned (r_h s) = true;
    w_tail : patched = true -> 0 < r_treq s -> flushes_done (r_h s) = true;
    w_ret : r_returned s = true -> r_treq s = mr /\ r_tmerge s = cm
  }.

  Lemma rinv_init patched : rinv patched rinit.
  Proof.
    split; cbn; auto; try lia; try discriminate.
    - apply hinv_init.
    - split; [|discriminate]. intros q r Hr. destruct q; discriminate.
  Qed.

  Lemma rinv_step patched s l s' : rinv patched s -> rstep patched s l = Some s' -> rinv patched s'.
  Proof.
    intros [Wh Wt Wo Wn Wtl Wr] Hs. unfold Forwarder.rstep in Hs. destruct l as [hl| | | |].
    - assert (Hd : hstep (r_h s) hl = None \/ exists h', hstep (r_h s) hl = Some h'
                     /\ s' = R h' (r_closed s) (r_treq s) (r_tmerge s) (r_returned s)
                     /\ (r_closed s = true -> forall ms, hl <> SinkRecv ms)).
      { destruct (hstep (r_h s) hl) as [h'|] eqn:E; [|auto]. right. exists h'. split; [reflexivity|].
        destruct hl, (r_closed s); try discriminate; injection Hs as <-; split; auto; intros _ ms; discriminate. }
      destruct Hd as [E|(h' & E & -> & Hns)].
      { destruct hl, (r_closed s); rewrite ?E in Hs; discriminate. }
      split; cbn.
      + eapply hinv_step; eauto.
      + destruct Wt as [T Hne]. eapply tok_step; eauto.
      + exact Wo.
      + intros C. eapply nop_returned_step; eauto.
      + intros P Hq. eapply flushes_done_step; eauto. apply Hns.
        destruct (r_closed s) eqn:C; [reflexivity|]. destruct (Wo eq_refl) as (Z & _). lia.
      + exact Wr.
    - destruct (negb (r_closed s) && nop_returned (r_h s)) eqn:E; [|discriminate]. injection Hs as <-.
      apply andb_prop in E as [Ec En]. apply negb_true_iff in Ec. destruct (Wo Ec) as (Z1 & Z2 & Z3).
      split; cbn; auto; try discriminate.
    - destruct (req_free (r_h s)) as [|n] eqn:Ef; [discriminate|].
      destruct (r_closed s && match loop (r_h s) with None => true | _ => false end
                && (negb patched || flushes_done (r_h s)) && (r_treq s <? mr)%nat) eqn:E; [|discriminate].
      injection Hs as <-. apply andb_prop in E as [E E4]. apply andb_prop in E as [E E3]. apply andb_prop in E as [E1 E2].
      destruct Wh as [Vm Vr Vrs Vgs Vit]. split; cbn.
      + split; cbn; auto. unfold holding_req in *; cbn. lia.
      + exact Wt.
      + discriminate.
      + intros _. apply Wn, E1.
      + intros -> _. cbn in E3. unfold flushes_done in *. cbn. exact E3.
      + intros Hr. destruct (Wr Hr) as [Hq _]. apply Nat.ltb_lt in E4. lia.
    - destruct (merge_free (r_h s)) as [|n] eqn:Ef; [discriminate|].
      destruct (r_closed s && (r_treq s =? mr)%nat && (r_tmerge s <? cm)%nat) eqn:E; [|discriminate].
      injection Hs as <-. apply andb_prop in E as [E E3]. apply andb_prop in E as [E1 E2].
      destruct Wh as [Vm Vr Vrs Vgs Vit]. split; cbn.
      + split; cbn; auto. unfold merging in *; cbn. lia.
      + exact Wt.
      + discriminate.
      + intros _. apply Wn, E1.
      + intros P Hq. specialize (Wtl P Hq). unfold flushes_done in *. cbn. exact Wtl.
      + intros Hr. destruct (Wr Hr) as [_ Hq]. apply Nat.ltb_lt in E3. lia.
    - destruct (r_closed s && (r_treq s =? mr)%nat && (r_tmerge s =? cm)%nat) eqn:E; [|discriminate].
      injection Hs as <-. apply andb_prop in E as [E E3]. apply andb_prop in E as [E1 E2].
      apply Nat.eqb_eq in E2, E3. split; cbn; auto; try discriminate.
  Qed.

  (* With the WaitGroup patch: when Run has returned, nothing is left behind -- every item ever read
     from the sink is in a request that has ended (sent, dropped or invalid and counted as such). *)
  Theorem shutdown_patched_complete ls s : 0 < mr ->
    run (rstep true) rinit ls = Some s -> r_returned s = true ->
    at_rest (r_h s) = true
    /\ Permutation (items_received (r_h s)) (concat (map r_part (reqs (r_h s))))
    /\ Forall (λ r, p_phase (r_post r) = PEnd) (reqs (r_h s)).
  Proof.
    intros Hmr H Hret.
    assert (W : rinv true s).
    { refine (invariant_run (rstep true) (rinv true) _ ls rinit s (rinv_init true) H).
      intros s0 l s1. apply rinv_step. }
    destruct W as [Wh [T Hne] Wo Wn Wtl Wr]. destruct (Wr Hret) as [Hq Hm].
    assert (Hc : r_closed s = true).
    { destruct (r_closed s) eqn:C; [reflexivity|]. destruct (Wo eq_refl) as (_ & _ & Z). congruence. }
    assert (D : flushes_done (r_h s) = true) by (apply Wtl; [reflexivity|lia]).
    destruct Wh as [Vm Vr Vrs Vgs Vit].
    assert (Hhold : List.filter isH (reqs (r_h s)) = []).
    { unfold holding_req in Vr. fold isH in Vr. destruct (List.filter isH (reqs (r_h s))); [reflexivity|cbn in Vr; lia]. }
    assert (Hrel : forallb r_released (reqs (r_h s)) = true).
    { apply forallb_forall. intros r Hin. apply In_nth_error in Hin as [m Hm'].
      destruct m as [|q].
      - specialize (Wn Hc). unfold nop_returned in Wn. destruct (reqs (r_h s)); [discriminate|].
        cbn in Hm'. injection Hm' as <-. exact Wn.
      - pose proof (T q r Hm') as Ht. apply nth_error_In in Hm'.
        assert (Hf : isH r = false).
        { destruct (isH r) eqn:E; [|reflexivity]. exfalso.
          assert (In r (List.filter isH (reqs (r_h s)))) by (apply List.filter_In; auto).
          rewrite Hhold in H0. destruct H0. }
        unfold isH in Hf. rewrite Ht in Hf. cbn in Hf. apply negb_false_iff in Hf. exact Hf. }
    assert (R : at_rest (r_h s) = true).
    { unfold at_rest, flushes_done in *. rewrite D, Hrel. reflexivity. }
    split; [exact R|]. unfold flushes_done in D. apply andb_prop in D as [Dl Dg]. split.
    - rewrite Vit. unfold items_held. destruct (loop (r_h s)); [discriminate|]. nofmap.
      rewrite (proj2 (rest_no_merging _ Dg)). reflexivity.
    - apply List.Forall_forall. intros r Hin. rewrite List.Forall_forall in Vrs.
      destruct (Vrs r Hin) as (_ & Hrl & _). apply Hrl. rewrite forallb_forall in Hrel. exact (Hrel r Hin).
  Qed.
End Shutdown.

(* The boundary of C15: cancellation right after a flush.  One flush carrying item sd_x has been
   read from the sink and its goroutine started; the context is cancelled; Run's tail takes the only
   request token before the goroutine asks for it, then the merging token, and Run returns.  sd_x is
   in no request, no counter mentions it, the goroutine can never post (no token is free and nobody
   holds one).  With the WaitGroup patch the same schedule is not a run: the tail cannot start. *)
Definition sd_x : item := Item 0 [97%N] [] [].
Definition sd_run : list rlabel :=
  [RH (ReqStep 0 (Construct true)); RH (ReqStep 0 (Attempt Ok2xx)); RH (Release 0);
   RH (SinkRecv [[sd_x]]); RH LoopSpawn; RClose; RTailReq; RH (MergeSplit 0); RTailMerge; RReturn].

Theorem shutdown_refuted :
  exists s, run (rstep 1 1 [] (λ _, true) false) (rinit 1 1) sd_run = Some s
    /\ r_returned s = true
    /\ In sd_x (items_received (r_h s))
    /\ ~ In sd_x (concat (map r_part (reqs (r_h s))))
    /\ gors (r_h s) = [GPosting [([], [sd_x])]]
    /\ req_free (r_h s) = 0 /\ holding_req (r_h s) = 0
    /\ rstep 1 1 [] (λ _, true) false s (RH (PartPost 0 0)) = None
    /\ hcounters (r_h s) = Ctr 1 1 0 0 0
    /\ run (rstep 1 1 [] (λ _, true) true) (rinit 1 1) sd_run = None.
Proof.
  eexists. split; [vm_compute; reflexivity|]. vm_compute. repeat split; auto; try (intros [E|[]]; discriminate).
Qed.
