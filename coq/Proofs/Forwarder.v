(* Proofs about Model/Forwarder.v: SplitByTags is a partition keyed by each series' own tags; the
   retry discipline of one request; semaphore balance, item conservation and serialiser isolation
   of the handler. *)
From Coq Require Import Lia.
From GS Require Import Base.Bytes Base.LTS Model.Lexer Model.Series Model.MetricMap Model.Forwarder.
From stdpp Require Import gmap.   (* last: NoDup, filter, ∈ are std++'s *)

(* ------------------------------------------------------------------------------------------ *)
(* SplitByTags *)

Lemma tags_match_nil key : tags_match [] key = [].
Proof.
  unfold tags_match. assert (H : List.filter (first_match []) (split_on c_comma key) = []).
  { induction (split_on c_comma key) as [|x l IH]; cbn; [reflexivity|exact IH]. }
  rewrite H. reflexivity.
Qed.

Lemma fmap_pair_fst {A B} (f : A -> B) (l : list A) : ((λ x, (x, f x)) <$> l).*1 = l.
Proof. induction l as [|x l IH]; cbn; [reflexivity|]. f_equal. exact IH. Qed.

Lemma part_of_lookup names pk m ty k :
  series_at (part_of names pk m) ty k =
  if decide (part_key names k = pk) then series_at m ty k else None.
Proof.
  destruct ty; cbn; rewrite map_filter_lookup; cbn;
    (destruct (_ !! k) as [v|]; cbn; [|destruct (decide _); reflexivity]);
    destruct (decide (part_key names k = pk)) as [E|E]; cbn;
    [rewrite option_guard_True by exact E|rewrite option_guard_False by exact E| | | | | | ]; try reflexivity;
    try (rewrite option_guard_True by exact E; reflexivity); try (rewrite option_guard_False by exact E; reflexivity).
Qed.

Lemma series_key_listed m ty k : is_Some (series_at m ty k) -> k ∈ series_keys m.
Proof.
  unfold series_keys. rewrite !elem_of_app. intros [v Hv].
  destruct ty; cbn in Hv; apply fmap_Some in Hv as (x & Hx & _);
    apply elem_of_map_to_list in Hx; apply (elem_of_list_fmap_1 fst) in Hx; cbn in Hx; tauto.
Qed.

Theorem split_partition names m :
  NoDup (split_by_tags names m).*1
  /\ (forall pk p ty k, (pk, p) ∈ split_by_tags names m ->
        series_at p ty k = if decide (part_key names k = pk) then series_at m ty k else None)
  /\ (forall ty k, is_Some (series_at m ty k) -> exists p, (part_key names k, p) ∈ split_by_tags names m).
Proof.
  destruct names as [|n names].
  - cbn. split; [repeat constructor; set_solver|]. split.
    + intros pk p ty k Hin. apply elem_of_list_singleton in Hin. injection Hin as -> ->.
      unfold part_key. rewrite tags_match_nil. rewrite decide_True by reflexivity. reflexivity.
    + intros ty k _. exists m. unfold part_key. rewrite tags_match_nil. apply elem_of_list_singleton. reflexivity.
  - unfold split_by_tags. set (nm := n :: names). split; [|split].
    + rewrite fmap_pair_fst. unfold part_keys. apply NoDup_remove_dups.
    + intros pk p ty k Hin. apply elem_of_list_fmap in Hin as (pk' & [= -> ->] & _). apply part_of_lookup.
    + intros ty k Hs. exists (part_of nm (part_key nm k) m).
      apply elem_of_list_fmap. exists (part_key nm k). split; [reflexivity|].
      unfold part_keys. apply elem_of_remove_dups, elem_of_list_fmap. exists k. split; [reflexivity|].
      eapply series_key_listed; exact Hs.
Qed.

(* ------------------------------------------------------------------------------------------ *)
(* one request *)

Definition fails (h : list outcome) : Prop := Forall (eq Failed) h.

Definition pwf (c : bool) (s : pstate) : Prop :=
  let n := length (p_hist s) in
  match p_phase s, p_status s with
  | PNew, SNone => p_hist s = [] /\ p_ctr s = ctr0
  | PTry, SNone => fails (p_hist s) /\ p_ctr s = Ctr 1 0 n 0 0
  | PFailed, SNone => fails (p_hist s) /\ n > 0 /\ p_ctr s = Ctr 1 0 (n - 1) 0 0
  | PEnd, SInvalid => p_hist s = [] /\ p_ctr s = Ctr 0 0 0 0 1
  | PEnd, SSent => (exists h, p_hist s = Ok2xx :: h /\ fails h) /\ p_ctr s = Ctr 1 1 (n - 1) 0 0
  | PEnd, SDropped => fails (p_hist s) /\ n > 0 /\ p_ctr s = Ctr 1 0 (n - 1) 1 0
  | PEnd, SAbandoned => c = true /\ fails (p_hist s) /\ n > 0 /\ p_ctr s = Ctr 1 0 n 0 0
  | _, _ => False
  end.

Lemma pwf_step c s l s' : pwf c s -> post_step c s l = Some s' -> pwf c s'.
Proof.
  destruct s as [ph st h k]. unfold pwf, post_step; cbn.
  destruct ph, st; try (now intros []); destruct l as [[|]|[|]| | |]; cbn; try discriminate.
  - intros [-> ->] [= <-]; cbn. split; [constructor|reflexivity].
  - intros [-> ->] [= <-]; cbn. auto.
  - intros [Hf ->] [= <-]; cbn. split; [eauto|]. f_equal; lia.
  - intros [Hf ->] [= <-]; cbn. split; [constructor; auto|]. split; [lia|]. f_equal; lia.
  - intros [Hf ->]. destruct c; [|discriminate]. destruct h as [|o h]; [discriminate|]. intros [= <-]; cbn.
    split; [reflexivity|]. split; [exact Hf|]. split; [lia|reflexivity].
  - intros (Hf & Hn & ->) [= <-]; cbn. split; [exact Hf|]. f_equal; lia.
  - intros (Hf & Hn & ->) [= <-]; cbn. split; [exact Hf|]. split; [exact Hn|reflexivity].
Qed.

Lemma pwf_run c ls s : run (post_step c) pinit ls = Some s -> pwf c s.
Proof.
  intros H. refine (invariant_run (post_step c) (pwf c) _ ls pinit s _ H).
  - intros s0 l s1. apply pwf_step.
  - cbn. auto.
Qed.

Lemma failures_fails h : fails h -> failures h = length h.
Proof. induction 1 as [|o h <- _ IH]; cbn; [reflexivity|]. unfold failures in IH. rewrite IH. reflexivity. Qed.

Lemma post_label_counts c ls : forall s0 s, run (post_step c) s0 ls = Some s ->
  n_dropped (p_ctr s) = n_dropped (p_ctr s0) + count_label is_stop ls
  /\ n_retried (p_ctr s) = n_retried (p_ctr s0) + count_label is_backoff ls.
Proof.
  induction ls as [|l r IH]; intros s0 s; cbn.
  - intros [= <-]. unfold count_label; cbn. lia.
  - destruct (post_step c s0 l) as [s1|] eqn:E; [|discriminate]. intros Hr.
    destruct (IH _ _ Hr) as [Hd Hb]. rewrite Hd, Hb. unfold count_label. clear IH Hr Hd Hb.
    unfold post_step in E. destruct (p_phase s0), l as [[|]|[|]| | |]; cbn in *; try discriminate;
      try (injection E as <-; cbn; lia).
    destruct c; [|discriminate]. destruct (p_hist s0); [discriminate|]. injection E as <-; cbn; lia.
Qed.

Ltac fin := cbn in *; repeat split; intros; try discriminate; try congruence; try lia; auto.

Theorem retry_discipline c ls s : run (post_step c) pinit ls = Some s ->
  let k := p_ctr s in
  Forall (eq Failed) (tl (p_hist s))
  /\ (p_status s = SSent <-> head (p_hist s) = Some Ok2xx)
  /\ (p_status s <> SNone <-> p_phase s = PEnd)
  /\ n_sent k = (match p_status s with SSent => 1 | _ => 0 end)
  /\ n_dropped k = (match p_status s with SDropped => 1 | _ => 0 end)
  /\ n_invalid k = (match p_status s with SInvalid => 1 | _ => 0 end)
  /\ n_created k = n_sent k + n_dropped k + (match p_status s with SAbandoned => 1 | _ => 0 end) + in_flight s
  /\ n_retried k + n_dropped k + (match p_phase s with PFailed => 1 | _ => 0 end) = failures (p_hist s)
  /\ n_dropped k = count_label is_stop ls
  /\ n_retried k = count_label is_backoff ls
  /\ (p_status s = SAbandoned -> c = true).
Proof.
  intros Hrun k. pose proof (pwf_run _ _ _ Hrun) as W. destruct (post_label_counts _ _ _ _ Hrun) as [Hd Hb].
  cbn in Hd, Hb. subst k. clear Hrun.
  destruct s as [ph st h k]. unfold pwf, in_flight in *.
  cbn [p_phase p_status p_hist p_ctr] in *.
  assert (Hfl : forall h, fails h -> failures h = length h) by apply failures_fails.
  destruct ph, st; try (exfalso; exact W).
  - destruct W as [-> ->]. fin.
  - destruct W as [Hf ->]. rewrite (Hfl _ Hf). fin; destruct Hf; cbn in *; auto; try discriminate; congruence.
  - destruct W as (Hf & Hn & ->). rewrite (Hfl _ Hf). fin; destruct Hf; cbn in *; auto; try discriminate; try congruence; lia.
  - destruct W as [-> ->]. fin.
  - destruct W as [(h' & -> & Hf) ->]. unfold failures; cbn. fold (failures h'). rewrite (Hfl _ Hf). fin.
  - destruct W as (Hf & Hn & ->). rewrite (Hfl _ Hf). fin; destruct Hf; cbn in *; auto; try discriminate; try congruence; lia.
  - destruct W as (-> & Hf & Hn & ->). rewrite (Hfl _ Hf). fin; destruct Hf; cbn in *; auto; try discriminate; try congruence; lia.
Qed.

(* ------------------------------------------------------------------------------------------ *)
(* list helpers for the handler *)

Lemma Forall_upd {A} (Q : A -> Prop) n x l : Forall Q l -> Q x -> Forall Q (upd n x l).
Proof.
  intros H Hx. revert n. induction H as [|y l Hy Hl IH]; intros [|n]; cbn; try constructor; auto.
Qed.

Lemma nth_error_Forall {A} (Q : A -> Prop) l n x : Forall Q l -> nth_error l n = Some x -> Q x.
Proof. intros H Hn. apply nth_error_In in Hn. rewrite List.Forall_forall in H. auto. Qed.

Definition b2n (b : bool) : nat := if b then 1 else 0.

Lemma filter_upd_len {A} (f : A -> bool) n x y l : nth_error l n = Some y ->
  length (List.filter f (upd n x l)) + b2n (f y) = length (List.filter f l) + b2n (f x).
Proof.
  revert n. induction l as [|z l IH]; intros [|n]; cbn; try discriminate.
  - intros [= ->]. destruct (f x), (f y); cbn; lia.
  - intros H. specialize (IH n H). destruct (f z); cbn; lia.
Qed.

Lemma filter_snoc_len {A} (f : A -> bool) x l :
  length (List.filter f (l ++ [x])) = length (List.filter f l) + b2n (f x).
Proof. rewrite List.filter_app, app_length. cbn. destruct (f x); reflexivity. Qed.

Lemma concat_upd_perm {A B} (f : A -> list B) n x y l : nth_error l n = Some y ->
  Permutation (concat (map f (upd n x l)) ++ f y) (concat (map f l) ++ f x).
Proof.
  revert n. induction l as [|z l IH]; intros [|n]; cbn; try discriminate.
  - intros [= ->]. rewrite (Permutation_app_comm _ (f y)), <- (app_assoc (f y)).
    apply Permutation_app_head, Permutation_app_comm.
  - intros H. rewrite <- !app_assoc. apply Permutation_app_head. exact (IH n H).
Qed.

Lemma concat_del_perm {A B} (f : A -> list B) j y l : nth_error l j = Some y ->
  Permutation (concat (map f l)) (f y ++ concat (map f (del j l))).
Proof.
  revert j. induction l as [|z l IH]; intros [|j]; cbn; try discriminate.
  - intros [= ->]. reflexivity.
  - intros H. rewrite (IH j H). apply Permutation_app_swap_app.
Qed.

Lemma map_upd_same {A B} (f : A -> B) n x y l : nth_error l n = Some y -> f x = f y -> map f (upd n x l) = map f l.
Proof.
  revert n. induction l as [|z l IH]; intros [|n]; cbn; try discriminate.
  - intros [= ->] ->. reflexivity.
  - intros H E. f_equal. exact (IH n H E).
Qed.

Lemma Forall_del {A} (Q : A -> Prop) j l : Forall Q l -> Forall Q (del j l).
Proof. intros H. revert j. induction H as [|y l Hy Hl IH]; intros [|j]; cbn; try constructor; auto. Qed.

(* ------------------------------------------------------------------------------------------ *)
(* splitting a bag *)

Lemma filter_partition_perm {A} (f : A -> bool) l :
  Permutation l (List.filter f l ++ List.filter (λ x, negb (f x)) l).
Proof.
  induction l as [|x l IH]; cbn; [reflexivity|]. destruct (f x); cbn.
  - apply perm_skip, IH.
  - apply Permutation_cons_app, IH.
Qed.

Section BagSplit.
  Variable dyn : list str.
  Notation pkey := (item_pkey dyn).

  Lemma bag_part_keys pk b : Forall (λ it, pkey it = pk) (bag_part dyn pk b).
  Proof.
    apply List.Forall_forall. intros it Hin. apply List.filter_In in Hin as [_ H]. apply str_eqb_eq in H. exact H.
  Qed.

  Lemma bag_part_restrict pk pk' b : pk <> pk' ->
    bag_part dyn pk' (List.filter (λ it, negb (str_eqb (pkey it) pk)) b) = bag_part dyn pk' b.
  Proof.
    intros Hne. unfold bag_part. induction b as [|it b IH]; cbn; [reflexivity|].
    destruct (str_eqb (pkey it) pk) eqn:E; cbn.
    - apply str_eqb_eq in E. destruct (str_eqb (pkey it) pk') eqn:E'; [|exact IH].
      apply str_eqb_eq in E'. congruence.
    - rewrite IH. reflexivity.
  Qed.

  Lemma parts_perm ks : forall b, NoDup ks -> (forall it, In it b -> In (pkey it) ks) ->
    Permutation (concat (map (λ pk, bag_part dyn pk b) ks)) b.
  Proof.
    induction ks as [|pk ks IH]; intros b Hnd Hall; cbn.
    - destruct b as [|it b]; [reflexivity|]. destruct (Hall it (or_introl eq_refl)).
    - apply NoDup_cons in Hnd as [Hnot Hnd].
      set (rest := List.filter (λ it, negb (str_eqb (pkey it) pk)) b).
      etransitivity; [|symmetry; apply (filter_partition_perm (λ it, str_eqb (pkey it) pk) b)].
      fold rest. unfold bag_part at 1. apply Permutation_app_head.
      assert (Hmap : map (λ pk0, bag_part dyn pk0 b) ks = map (λ pk0, bag_part dyn pk0 rest) ks).
      { apply map_ext_in. intros pk' Hin. symmetry. apply bag_part_restrict. intros ->.
        apply Hnot. apply elem_of_list_In. exact Hin. }
      rewrite Hmap. apply IH; [exact Hnd|].
      intros it Hin. apply List.filter_In in Hin as [Hin Hk]. destruct (Hall it Hin) as [E|H]; [|exact H].
      subst pk. rewrite str_eqb_refl in Hk. discriminate.
  Qed.

  Lemma bag_split_perm b : Permutation (concat (map snd (bag_split dyn b))) b.
  Proof.
    unfold bag_split. destruct dyn as [|n0 r0] eqn:Ed; [cbn; rewrite app_nil_r; reflexivity|]. rewrite <- Ed.
    rewrite map_map. cbn. apply parts_perm; [apply NoDup_remove_dups|].
    intros it Hin. apply elem_of_list_In, elem_of_remove_dups, elem_of_list_fmap. exists it.
    split; [reflexivity|apply elem_of_list_In, Hin].
  Qed.

  Lemma bag_split_keys b : Forall (λ kp, Forall (λ it, pkey it = fst kp) (snd kp)) (bag_split dyn b).
  Proof.
    unfold bag_split. destruct dyn as [|n0 r0] eqn:Ed.
    - constructor; [|constructor]. cbn. apply List.Forall_forall. intros it _. unfold item_pkey. apply tags_match_nil.
    - rewrite <- Ed. apply List.Forall_forall. intros kp Hin. apply in_map_iff in Hin as (pk & <- & _). cbn.
      apply bag_part_keys.
  Qed.
End BagSplit.

(* ------------------------------------------------------------------------------------------ *)
(* the handler *)

#[local] Instance item_eq_dec : EqDecision item.
Proof. solve_decision. Defined.

Ltac nofmap :=
  repeat match goal with
         | |- context [@fmap list _ ?A ?B ?f ?l] => change (@fmap list _ A B f l) with (map f l)
         | H : context [@fmap list _ ?A ?B ?f ?l] |- _ => change (@fmap list _ A B f l) with (map f l) in H
         end.
Ltac cnt :=
  nofmap; unfold bag in *; apply (Permutation_count_occ item_eq_dec); intros ?x;
  repeat match goal with
         | H : Permutation _ _ |- _ =>
             let H' := fresh in pose proof (proj1 (Permutation_count_occ item_eq_dec _ _) H x) as H'; clear H
         end;
  repeat progress (repeat rewrite count_occ_app in *; cbn [count_occ] in * );
  repeat match goal with
         | |- context [item_eq_dec ?a ?b] => destruct (item_eq_dec a b)
         | H : context [item_eq_dec ?a ?b] |- _ => destruct (item_eq_dec a b)
         end;
  lia.

Section HandlerProofs.
  Variable cm mr : nat.
  Variable dyn : list str.
  Variable utf8ok : str -> bool.
  Notation hstep := (hstep cm mr dyn utf8ok).
  Notation hinit := (hinit cm mr).

  Definition req_ok (r : request) : Prop :=
    (exists pls, run (post_step (negb (r_tok r))) pinit pls = Some (r_post r))
    /\ (r_released r = true -> p_phase (r_post r) = PEnd)
    /\ (p_phase (r_post r) <> PNew -> (p_status (r_post r) = SInvalid <-> serialisable utf8ok (r_part r) = false))
    /\ Forall (λ it, item_pkey dyn it = r_key r) (r_part r)
    /\ (r_tok r = true -> r_part r <> []).
  Definition gor_ok (g : gor) : Prop :=
    match g with
    | GPosting parts => Forall (λ kp, Forall (λ it, item_pkey dyn it = fst kp) (snd kp)) parts
    | GMerging _ => True
    end.

  Record hinv (s : hstate) : Prop := {
    v_merge : merge_free s + merging s = cm;
    v_req : req_free s + holding_req s = mr;
    v_reqs : Forall req_ok (reqs s);
    v_gors : Forall gor_ok (gors s);
    v_items : Permutation (items_received s) (items_held s)
  }.

  Lemma hinv_init : hinv hinit.
  Proof.
    split; cbn; try lia.
    - constructor; [|constructor]. unfold req_ok, nop; cbn. split; [exists []; reflexivity|].
      split; [discriminate|]. split; [congruence|]. split; [constructor|discriminate].
    - constructor.
    - reflexivity.
  Qed.

  Lemma post_step_end c p l : p_phase p = PEnd -> post_step c p l = None.
  Proof. unfold post_step. intros ->. destruct l; reflexivity. Qed.

  Lemma req_step_ok r pl p' :
    req_ok r -> post_step (negb (r_tok r)) (r_post r) pl = Some p' ->
    match pl with Construct ok => Bool.eqb ok (serialisable utf8ok (r_part r)) | _ => true end = true ->
    req_ok (Req (r_key r) (r_part r) (r_tok r) (r_released r) p').
  Proof.
    intros (Hreach & Hrel & Hser & Hkey & Hne) Hs Hfit. unfold req_ok; cbn.
    destruct Hreach as [pls Hpls]. pose proof (pwf_run _ _ _ Hpls) as W.
    split; [exists (pls ++ [pl]); rewrite run_app, Hpls; cbn; rewrite Hs; reflexivity|].
    split.
    { intros Hr. specialize (Hrel Hr). rewrite (post_step_end _ _ _ Hrel) in Hs. discriminate. }
    split; [|split; assumption].
    intros _. unfold post_step in Hs. unfold pwf in W.
    destruct (r_post r) as [ph st h k]; unfold serialisable in *; cbn in *.
    destruct ph, pl as [[|]|[|]| | |]; cbn in Hs; try discriminate.
    - injection Hs as <-; cbn. apply Bool.eqb_prop in Hfit. rewrite <- Hfit. split; discriminate.
    - injection Hs as <-; cbn. apply Bool.eqb_prop in Hfit. rewrite <- Hfit. split; reflexivity.
    - injection Hs as <-; cbn. destruct st; try (exfalso; exact W).
      assert (Hn : PTry <> PNew) by discriminate. destruct (Hser Hn) as [_ H2]. split; [discriminate|]. intros E. specialize (H2 E). discriminate.
    - injection Hs as <-; cbn. destruct st; try (exfalso; exact W).
      assert (Hn : PTry <> PNew) by discriminate. destruct (Hser Hn) as [_ H2]. split; [discriminate|]. intros E. specialize (H2 E). discriminate.
    - destruct (negb (r_tok r)); [|discriminate]. destruct h; [discriminate|]. injection Hs as <-; cbn.
      destruct st; try (exfalso; exact W).
      assert (Hn : PTry <> PNew) by discriminate. destruct (Hser Hn) as [_ H2]. split; [discriminate|]. intros E. specialize (H2 E). discriminate.
    - injection Hs as <-; cbn. destruct st; try (exfalso; exact W).
      assert (Hn : PFailed <> PNew) by discriminate. destruct (Hser Hn) as [_ H2]. split; [discriminate|]. intros E. specialize (H2 E). discriminate.
    - injection Hs as <-; cbn. destruct st; try (exfalso; exact W).
      assert (Hn : PFailed <> PNew) by discriminate. destruct (Hser Hn) as [_ H2]. split; [discriminate|]. intros E. specialize (H2 E). discriminate.
  Qed.

  Lemma received_snoc (rc : list (list bag)) ms :
    concat (map (@concat item) (rc ++ [ms])) = concat (map (@concat item) rc) ++ concat ms.
  Proof. rewrite map_app, concat_app. cbn. rewrite app_nil_r. reflexivity. Qed.

  Lemma concat_map_snoc {A} (f : A -> bag) l x : concat (map f (l ++ [x])) = concat (map f l) ++ f x.
  Proof. rewrite map_app, concat_app. cbn. rewrite app_nil_r. reflexivity. Qed.

  Definition isM (g : gor) : bool := match g with GMerging _ => true | _ => false end.
  Definition isH (r : request) : bool := r_tok r && negb (r_released r).

  Lemma hinv_step s l s' : hinv s -> hstep s l = Some s' -> hinv s'.
  Proof.
    intros [Vm Vr Vrs Vgs Vit] Hs. unfold Forwarder.hstep in Hs.
    unfold merging, holding_req in *. fold isM in *. fold isH in *.
    destruct l as [ms| |g|g j|g j|q pl|q].
    - (* SinkRecv *)
      destruct (loop s) eqn:El; [discriminate|]. destruct (nop_returned s); [|discriminate]. injection Hs as <-.
      split; cbn; auto. unfold items_received, items_held in *; cbn. rewrite received_snoc.
      rewrite El in Vit; cbn [app] in Vit. cnt.
    - (* LoopSpawn *)
      destruct (loop s) as [ms|] eqn:El; [|discriminate]. destruct (merge_free s) as [|n] eqn:Em; [discriminate|].
      injection Hs as <-. split; cbn; auto.
      + fold isM. rewrite filter_snoc_len. cbn. lia.
      + apply Forall_app. split; [exact Vgs|]. constructor; [exact I|constructor].
      + unfold items_received, items_held in *; cbn [loop gors reqs received app]. rewrite El in Vit.
        rewrite concat_map_snoc. cbn [gor_items app]. cnt.
    - (* MergeSplit *)
      destruct (nth_error (gors s) g) as [[ms|parts]|] eqn:Eg; try discriminate.
      destruct (merge_free s <? cm)%nat; [|discriminate]. injection Hs as <-. split; cbn; auto.
      + fold isM. pose proof (filter_upd_len isM g (GPosting (bag_split dyn (concat ms))) _ _ Eg). cbn in H. lia.
      + apply Forall_upd; [exact Vgs|]. cbn. apply bag_split_keys.
      + unfold items_received, items_held in *; cbn.
        pose proof (concat_upd_perm gor_items g (GPosting (bag_split dyn (concat ms))) _ _ Eg) as Hp. cbn in Hp.
        pose proof (bag_split_perm dyn (concat ms)) as Hb. destruct (loop s); cnt.
    - (* PartSkip *)
      destruct (nth_error (gors s) g) as [[ms|parts]|] eqn:Eg; try discriminate.
      destruct (nth_error parts j) as [[pk [|it p]]|] eqn:Ej; try discriminate. injection Hs as <-. split; cbn; auto.
      + fold isM. pose proof (filter_upd_len isM g (GPosting (del j parts)) _ _ Eg). cbn in H. lia.
      + apply Forall_upd; [exact Vgs|]. cbn. apply Forall_del. exact (nth_error_Forall gor_ok _ _ _ Vgs Eg).
      + unfold items_received, items_held in *; cbn.
        pose proof (concat_upd_perm gor_items g (GPosting (del j parts)) _ _ Eg) as Hp. cbn in Hp.
        pose proof (concat_del_perm snd j _ _ Ej) as Hd. cbn in Hd. destruct (loop s); cnt.
    - (* PartPost *)
      destruct (nth_error (gors s) g) as [[ms|parts]|] eqn:Eg; try discriminate.
      destruct (nth_error parts j) as [[pk [|it p]]|] eqn:Ej; try discriminate.
      destruct (req_free s) as [|n] eqn:Er; [discriminate|]. injection Hs as <-. split; cbn; auto.
      + fold isM. pose proof (filter_upd_len isM g (GPosting (del j parts)) _ _ Eg). cbn in H. lia.
      + fold isH. rewrite filter_snoc_len. cbn. lia.
      + apply Forall_app. split; [exact Vrs|]. constructor; [|constructor].
        unfold req_ok; cbn. split; [exists []; reflexivity|]. split; [discriminate|]. split; [congruence|].
        split; [|discriminate].
        pose proof (nth_error_Forall gor_ok _ _ _ Vgs Eg) as Hg. cbn in Hg.
        exact (nth_error_Forall _ _ _ _ Hg Ej).
      + apply Forall_upd; [exact Vgs|]. cbn. apply Forall_del. exact (nth_error_Forall gor_ok _ _ _ Vgs Eg).
      + unfold items_received, items_held in *; cbn.
        pose proof (concat_upd_perm gor_items g (GPosting (del j parts)) _ _ Eg) as Hp. cbn in Hp.
        pose proof (concat_del_perm snd j _ _ Ej) as Hd. cbn in Hd. rewrite concat_map_snoc. cbn. destruct (loop s); cnt.
    - (* ReqStep *)
      destruct (nth_error (reqs s) q) as [r|] eqn:Eq; [|discriminate].
      destruct (post_step (negb (r_tok r)) (r_post r) pl) as [p'|] eqn:Ep; [|discriminate].
      destruct (match pl with Construct ok => _ | _ => true end) eqn:Ef; [|discriminate]. injection Hs as <-.
      split; cbn; auto.
      + fold isH. pose proof (filter_upd_len isH q (Req (r_key r) (r_part r) (r_tok r) (r_released r) p') _ _ Eq) as H.
        assert (E : isH (Req (r_key r) (r_part r) (r_tok r) (r_released r) p') = isH r) by reflexivity.
        rewrite E in H. lia.
      + apply Forall_upd; [exact Vrs|]. eapply req_step_ok; eauto. exact (nth_error_Forall _ _ _ _ Vrs Eq).
      + unfold items_received, items_held in *; cbn. nofmap.
        erewrite (map_upd_same r_part q); [exact Vit|exact Eq|reflexivity].
    - (* Release *)
      destruct (nth_error (reqs s) q) as [r|] eqn:Eq; [|discriminate].
      destruct (p_phase (r_post r)) eqn:Eph; try discriminate. destruct (r_released r) eqn:Erel; [discriminate|].
      pose proof (nth_error_Forall _ _ _ _ Vrs Eq) as (Hreach & Hrel & Hser & Hkey & Hne).
      assert (Hok : req_ok (Req (r_key r) (r_part r) (r_tok r) true (r_post r))).
      { unfold req_ok; cbn. split; [exact Hreach|]. split; [auto|]. split; [exact Hser|]. split; assumption. }
      pose proof (filter_upd_len isH q (Req (r_key r) (r_part r) (r_tok r) true (r_post r)) _ _ Eq) as Hlen.
      assert (E1 : isH (Req (r_key r) (r_part r) (r_tok r) true (r_post r)) = false)
        by (unfold isH; cbn; apply andb_false_r).
      assert (E2 : isH r = r_tok r) by (unfold isH; rewrite Erel; apply andb_true_r).
      rewrite E1, E2 in Hlen.
      destruct (r_tok r) eqn:Etok.
      + destruct (req_free s <? mr)%nat; [|discriminate]. injection Hs as <-. split; cbn; auto.
        * fold isH. cbn in Hlen. lia.
        * apply Forall_upd; assumption.
        * unfold items_received, items_held in *; cbn. nofmap.
          erewrite (map_upd_same r_part q); [exact Vit|exact Eq|reflexivity].
      + injection Hs as <-. split; cbn; auto.
        * fold isH. cbn in Hlen. lia.
        * apply Forall_upd; assumption.
        * unfold items_received, items_held in *; cbn. nofmap.
          erewrite (map_upd_same r_part q); [exact Vit|exact Eq|reflexivity].
  Qed.

  Lemma hinv_run ls s : run hstep hinit ls = Some s -> hinv s.
  Proof.
    intros H. refine (invariant_run hstep hinv _ ls hinit s hinv_init H).
    intros s0 l s1. apply hinv_step.
  Qed.
End HandlerProofs.

(* ------------------------------------------------------------------------------------------ *)
(* the statements of Props/C15.v about the handler *)
Section HandlerStatements.
  Variable cm mr : nat.
  Variable dyn : list str.
  Variable utf8ok : str -> bool.
  Notation hstep := (hstep cm mr dyn utf8ok).
  Notation hinit := (hinit cm mr).

  Lemma rest_no_merging gs :
    forallb (λ g, match g with GPosting [] => true | _ => false end) gs = true ->
    List.filter isM gs = [] /\ concat (map gor_items gs) = [].
  Proof.
    induction gs as [|g gs IH]; cbn; [auto|]. intros H. apply andb_prop in H as [Hg Hr].
    destruct g as [ms|[|kp parts]]; try discriminate. cbn. exact (IH Hr).
  Qed.

  Lemma rest_no_holding rs : forallb r_released rs = true -> List.filter isH rs = [].
  Proof.
    induction rs as [|r rs IH]; cbn; [auto|]. intros H. apply andb_prop in H as [Hg Hr].
    unfold isH at 1. rewrite Hg, andb_false_r. exact (IH Hr).
  Qed.

  Theorem sem_balance ls s : run hstep hinit ls = Some s ->
    merge_free s + merging s = cm /\ req_free s + holding_req s = mr
    /\ (at_rest s = true -> merge_free s = cm /\ req_free s = mr).
  Proof.
    intros H. destruct (hinv_run _ _ _ _ _ _ H) as [Vm Vr _ _ _].
    split; [exact Vm|]. split; [exact Vr|]. unfold at_rest. intros R.
    apply andb_prop in R as [R Hr]. apply andb_prop in R as [_ Hg].
    unfold merging, holding_req in *. fold isM in *. fold isH in *.
    rewrite (proj1 (rest_no_merging _ Hg)) in Vm. rewrite (rest_no_holding _ Hr) in Vr. cbn in *. lia.
  Qed.

  Theorem handler_delivery ls s : run hstep hinit ls = Some s ->
    Permutation (items_received s) (items_held s)
    /\ Forall (λ r, Forall (λ it, item_pkey dyn it = r_key r) (r_part r)
                    /\ (r_tok r = true -> r_part r <> [])
                    /\ exists pls, run (post_step (negb (r_tok r))) pinit pls = Some (r_post r)) (reqs s)
    /\ (at_rest s = true ->
          Permutation (items_received s) (concat (map r_part (reqs s)))
          /\ Forall (λ r, p_phase (r_post r) = PEnd) (reqs s)).
  Proof.
    intros H. destruct (hinv_run _ _ _ _ _ _ H) as [_ _ Vrs _ Vit].
    split; [exact Vit|]. split.
    - eapply List.Forall_impl; [|exact Vrs]. intros r (Hreach & _ & _ & Hk & Hn). auto.
    - unfold at_rest. intros R. apply andb_prop in R as [R Hr]. apply andb_prop in R as [Hl Hg]. split.
      + rewrite Vit. unfold items_held. destruct (loop s); [discriminate|]. nofmap.
        rewrite (proj2 (rest_no_merging _ Hg)). reflexivity.
      + apply List.Forall_forall. intros r Hin. rewrite List.Forall_forall in Vrs.
        destruct (Vrs r Hin) as (_ & Hrel & _). apply Hrel.
        rewrite forallb_forall in Hr. exact (Hr r Hin).
  Qed.

  Theorem isolation_valid ls s r : run hstep hinit ls = Some s -> In r (reqs s) ->
    p_phase (r_post r) <> PNew ->
    (p_status (r_post r) = SInvalid <-> serialisable utf8ok (r_part r) = false)
    /\ (serialisable utf8ok (r_part r) = true -> n_created (p_ctr (r_post r)) = 1 /\ n_invalid (p_ctr (r_post r)) = 0).
  Proof.
    intros H Hin Hph. destruct (hinv_run _ _ _ _ _ _ H) as [_ _ Vrs _ _].
    rewrite List.Forall_forall in Vrs. destruct (Vrs r Hin) as ([pls Hp] & _ & Hser & _).
    specialize (Hser Hph). split; [exact Hser|]. intros Hs.
    assert (Hst : p_status (r_post r) <> SInvalid) by (intros E; apply Hser in E; congruence).
    pose proof (pwf_run _ _ _ Hp) as W. unfold pwf in W.
    destruct (r_post r) as [ph st h k]; cbn in *.
    destruct ph, st; try (exfalso; exact W); try congruence.
    - destruct W as [_ ->]. auto.
    - destruct W as (_ & _ & ->). auto.
    - destruct W as [_ ->]. auto.
    - destruct W as (_ & _ & ->). auto.
    - destruct W as (_ & _ & _ & ->). auto.
  Qed.
End HandlerStatements.

(* D8 on the model: x is a valid datapoint of one client, y a datapoint of another client whose tag
   is the single byte 0xFF; both have no dynamic-header tag, so one flush puts them into the same
   request, whose construction fails: x is lost and counted under "invalid". *)
Definition d8_x : item := Item 0 [97%N] [] [].
Definition d8_y : item := Item 1 [98%N] [255%N] [[255%N]].
Definition d8_utf8 (s : str) : bool := negb (existsb (N.eqb 255%N) s).
Definition d8_run : list hlabel :=
  [ReqStep 0 (Construct true); ReqStep 0 (Attempt Ok2xx); Release 0;
   SinkRecv [[d8_x]; [d8_y]]; LoopSpawn; MergeSplit 0; PartPost 0 0; ReqStep 1 (Construct false); Release 1].

Theorem isolation_refuted_D8 :
  exists s r, run (hstep 1 1 [] d8_utf8) (hinit 1 1) d8_run = Some s
    /\ In r (reqs s) /\ In d8_x (r_part r) /\ item_ok d8_utf8 d8_x = true
    /\ p_status (r_post r) = SInvalid /\ n_created (p_ctr (r_post r)) = 0
    /\ at_rest s = true /\ hcounters s = Ctr 1 1 0 0 1.
Proof.
  eexists. exists (Req [] [d8_x; d8_y] true true (P PEnd SInvalid [] (Ctr 0 0 0 0 1))).
  split; [vm_compute; reflexivity|]. cbn. repeat split; auto.
Qed.

(* non-vacuity: a request that fails twice, is retried once and then dropped; one that succeeds on
   the second attempt *)
Example post_run_dropped :
  exists s, run (post_step false) pinit [Construct true; Attempt Failed; Backoff; Attempt Failed; Stop] = Some s
    /\ p_status s = SDropped /\ p_ctr s = Ctr 1 0 1 1 0.
Proof. eexists. split; [reflexivity|]. split; reflexivity. Qed.
Example post_run_sent :
  exists s, run (post_step false) pinit (Construct true :: attempts_labels [Failed; Ok2xx]) = Some s
    /\ p_status s = SSent /\ p_ctr s = Ctr 1 1 1 0 0.
Proof. eexists. split; [reflexivity|]. split; reflexivity. Qed.
Example post_no_attempt_after_success :
  run (post_step false) pinit [Construct true; Attempt Ok2xx; Attempt Ok2xx] = None.
Proof. reflexivity. Qed.
