(* Invariants of the pipeline LTS (Model/Pipeline.v), proved for every label sequence:
     inv      structure: what every map in the system holds is well formed, routed to its shard
              and was sent (routing invariant, no phantom series);
     finv     flush bookkeeping: a flush commands each shard at most once (once per flush);
     conserved  content of the input = content of out + aggregates + queues + in flight;
   and exactness at quiescence. *)
From stdpp Require Import gmap gmultiset.
From Coq Require Import QArith Qcanon Lia.
From GS Require Import Base.Bytes Base.LTS Model.Lexer Model.Series Model.MetricMap Model.Content Model.Pipeline.
From GS Require Import Proofs.MetricMapMerge Proofs.MetricMapSplit Proofs.PipelineAlgebra.

Arguments Z.add : simpl never.
Arguments Z.max : simpl never.
Local Open Scope nat_scope.

Ltac content_ac :=
  apply content_eq;
  rewrite ?ctr_op, ?vals_op, ?samp_op, ?mem_op, ?ctr_unit, ?vals_unit, ?samp_unit, ?mem_unit;
  [lia | multiset_solver | ring | set_solver].

Lemma shard_of_key_index c k : shard_of_key c k = shard_index (cfg_shards c) k.
Proof. reflexivity. Qed.

Lemma elem_of_delete {A} (l : list A) i x : x ∈ delete i l → x ∈ l.
Proof. intros H. eapply elem_of_submseteq; [exact H|]. apply sublist_submseteq, sublist_delete. Qed.

(* ---------------------------------------------------------------------------------------- *)
(* structure *)

(* what a map held for shard i may contain, given everything parsed so far *)
Definition good (c : config) (input : list datapoint) (i : nat) (m : mmap) : Prop :=
  wf m ∧ ∀ ty k, holds m ty k → shard_of_key c k = i ∧ ∃ d, d ∈ input ∧ dp_of_series ty k d.

Record inv (c : config) (s : state) : Prop := {
  inv_qlen : length (st_queue s) = cfg_shards c;
  inv_alen : length (st_aggr s) = cfg_shards c;
  inv_inflight : ∀ i m, (i, m) ∈ st_inflight s → good c (st_input s) i m;
  inv_queue : ∀ i q m, st_queue s !! i = Some q → m ∈ q → good c (st_input s) i m;
  inv_aggr : ∀ i a, st_aggr s !! i = Some a → good c (st_input s) i a;
  inv_out : ∀ f i m, (f, i, m) ∈ st_out s → good c (st_input s) i m
}.

Lemma good_mono c inp ds i m : good c inp i m → good c (inp ++ ds) i m.
Proof.
  intros [Hw Hh]; split; [done|]. intros ty k H. destruct (Hh ty k H) as (? & d & ? & ?).
  split; [done|]. exists d. split; [apply elem_of_app; by left|done].
Qed.

Lemma good_empty c inp i : good c inp i empty_map.
Proof. split; [apply wf_empty|]. intros ty k H. by apply holds_empty in H. Qed.

Lemma good_split c inp ds i s :
  (i, s) ∈ nonempty_splits (cfg_shards c) (receive_all empty_map ds) → good c (inp ++ ds) i s.
Proof.
  intros Hin. apply in_nonempty_splits in Hin. split.
  - eapply wf_split; [|exact Hin]. apply wf_receive_all, wf_empty.
  - intros ty k Hh. destruct (holds_split _ _ _ _ _ _ Hin Hh) as [Hm Hi]. split; [done|].
    destruct (holds_receive_all _ _ _ _ Hm) as [He|(d & Hd & Hs)]; [by apply holds_empty in He|].
    exists d; split; [apply elem_of_app; by right|done].
Qed.

Lemma good_merge c inp i a m : good c inp i a → good c inp i m → good c inp i (merge a m).
Proof.
  intros [Wa Ha] [Wm Hm]; split; [by apply wf_merge|].
  intros ty k H. destruct (holds_merge _ _ _ _ H); eauto.
Qed.

Lemma good_flush c inp i a : good c inp i a → good c inp i (agg_flush a).
Proof. intros [W H]. by rewrite agg_flush_wf. Qed.

Lemma good_reset c inp i a now : good c inp i a → good c inp i (agg_reset c now a).
Proof.
  intros [W H]; split; [apply wf_reset|]. intros ty k Hh. apply H. by eapply holds_reset.
Qed.

Lemma inv_init c : inv c (init c).
Proof.
  split; cbn.
  - apply replicate_length.
  - apply replicate_length.
  - intros i m H. by apply elem_of_nil in H.
  - intros i q m H Hm. apply lookup_replicate in H as [-> _]. by apply elem_of_nil in Hm.
  - intros i a H. apply lookup_replicate in H as [-> _]. apply good_empty.
  - intros f i m H. by apply elem_of_nil in H.
Qed.

Lemma inv_step c s l s' : inv c s → step c s l = Some s' → inv c s'.
Proof.
  intros [Hql Hal Hif Hq Ha Ho] Hstep. destruct s as [inp infl qs ags nf fl out]; cbn in *.
  destruct l as [ds|j|i|f|i now]; cbn in Hstep.
  - (* Parse *)
    injection Hstep as <-. split; cbn; try done.
    + intros i m H. apply elem_of_app in H as [H|H]; [by apply good_mono, Hif|by apply good_split].
    + intros i q m H Hm. apply good_mono. eauto.
    + intros i a H. apply good_mono. eauto.
    + intros f i m H. apply good_mono. eauto.
  - (* Enq *)
    destruct (infl !! j) as [[i m]|] eqn:Ej; [|done].
    destruct (qs !! i) as [q|] eqn:Eq; [|done]. injection Hstep as <-.
    assert (Hm : good c inp i m) by (apply Hif; by eapply elem_of_list_lookup_2).
    split; cbn; try done.
    + by rewrite insert_length.
    + intros i' m' H. apply Hif. by eapply elem_of_delete.
    + intros i' q' m' H Hin. destruct (decide (i' = i)) as [->|Hne].
      * rewrite list_lookup_insert in H by (by eapply lookup_lt_Some). injection H as <-.
        apply elem_of_app in Hin as [Hin|Hin]; [by eapply Hq|]. apply elem_of_list_singleton in Hin as ->. done.
      * rewrite list_lookup_insert_ne in H by done. by eapply Hq.
  - (* Merge *)
    destruct (qs !! i) as [[|m q]|] eqn:Eq; try done.
    destruct (ags !! i) as [a|] eqn:Ea; [|done]. injection Hstep as <-.
    split; cbn; try done.
    + by rewrite insert_length.
    + by rewrite insert_length.
    + intros i' q' m' H Hin. destruct (decide (i' = i)) as [->|Hne].
      * rewrite list_lookup_insert in H by (by eapply lookup_lt_Some). injection H as <-.
        eapply Hq; [exact Eq|by right].
      * rewrite list_lookup_insert_ne in H by done. by eapply Hq.
    + intros i' a' H. destruct (decide (i' = i)) as [->|Hne].
      * rewrite list_lookup_insert in H by (by eapply lookup_lt_Some). injection H as <-.
        apply good_merge; [by apply Ha|]. eapply Hq; [exact Eq|by left].
      * rewrite list_lookup_insert_ne in H by done. by apply Ha.
  - (* Tick *)
    destruct (bool_decide (f = nf) && flush_idle fl); [|done]. injection Hstep as <-. by split.
  - (* FlushShard *)
    destruct fl as [[f pend]|]; [|done]. destruct (ags !! i) as [a|] eqn:Ea; [|done].
    destruct (bool_decide (i ∈ pend)); [|done]. injection Hstep as <-.
    split; cbn; try done.
    + by rewrite insert_length.
    + intros i' a' H. destruct (decide (i' = i)) as [->|Hne].
      * rewrite list_lookup_insert in H by (by eapply lookup_lt_Some). injection H as <-.
        apply good_reset, good_flush. by apply Ha.
      * rewrite list_lookup_insert_ne in H by done. by apply Ha.
    + intros f' i' m' H. apply elem_of_app in H as [H|H]; [by eapply Ho|].
      apply elem_of_list_singleton in H. injection H as -> -> ->. apply good_flush. by apply Ha.
Qed.

Lemma inv_run c ls s : run (step c) (init c) ls = Some s → inv c s.
Proof. apply (invariant_run (step c) (inv c)); [apply inv_step|apply inv_init]. Qed.

(* ---------------------------------------------------------------------------------------- *)
(* flush bookkeeping *)

Record finv (s : state) : Prop := {
  fi_old : ∀ f i m, (f, i, m) ∈ st_out s → f < st_nflush s;
  fi_cur : ∀ f pend, st_flushing s = Some (f, pend) →
             f < st_nflush s ∧ base.NoDup pend ∧ ∀ i m, (f, i, m) ∈ st_out s → i ∉ pend;
  fi_nodup : base.NoDup ((λ x, x.1) <$> st_out s)
}.

Lemma finv_init c : finv (init c).
Proof.
  split; cbn.
  - intros f i m H. by apply elem_of_nil in H.
  - done.
  - apply NoDup_nil_2.
Qed.

Lemma finv_step c s l s' : finv s → step c s l = Some s' → finv s'.
Proof.
  intros [Hold Hcur Hnd] Hstep. destruct s as [inp infl qs ags nf fl out]; cbn in *.
  destruct l as [ds|j|i|f|i now]; cbn in Hstep.
  - injection Hstep as <-. by split.
  - destruct (infl !! j) as [[i m]|]; [|done]. destruct (qs !! i); [|done]. injection Hstep as <-. by split.
  - destruct (qs !! i) as [[|m q]|]; try done. destruct (ags !! i); [|done]. injection Hstep as <-. by split.
  - destruct (bool_decide_reflect (f = nf)) as [->|]; [|done]. destruct (flush_idle fl); [|done].
    cbn in Hstep. injection Hstep as <-. split; cbn.
    + intros f i m H. apply Hold in H. lia.
    + intros f pend [= <- <-]. split; [lia|]. split; [apply list_numbers.NoDup_seq|].
      intros i m H. apply Hold in H. lia.
    + done.
  - destruct fl as [[f pend]|]; [|done]. destruct (ags !! i) as [a|]; [|done].
    destruct (bool_decide_reflect (i ∈ pend)) as [Hi|]; [|done]. injection Hstep as <-.
    destruct (Hcur f pend eq_refl) as (Hf & Hp & Hout). split; cbn.
    + intros f' i' m' H. apply elem_of_app in H as [H|H]; [by eapply Hold|].
      apply elem_of_list_singleton in H. by injection H as -> -> ->.
    + intros f' pend' [= <- <-]. split; [done|]. split; [by apply list.NoDup_filter|].
      intros i' m' H Hin. apply elem_of_list_filter in Hin as [Hne Hin].
      apply elem_of_app in H as [H|H]; [by eapply Hout|].
      apply elem_of_list_singleton in H. by injection H as -> ->.
    + rewrite fmap_app. apply list.NoDup_app. split; [done|]. split; [|apply list.NoDup_singleton].
      intros [f' i'] H Hs. cbn in Hs. apply elem_of_list_singleton in Hs. injection Hs as -> ->.
      apply elem_of_list_fmap in H as ([[f' i'] m'] & Heq & H). cbn in Heq. injection Heq as <- <-.
      by eapply Hout.
Qed.

Lemma finv_run c ls s : run (step c) (init c) ls = Some s → finv s.
Proof. apply (invariant_run (step c) finv); [apply finv_step|apply finv_init]. Qed.

(* ---------------------------------------------------------------------------------------- *)
(* conservation *)

Definition conserved (s : state) : Prop :=
  ∀ k, input_total s k = out_total s k ⊕ aggr_total s k ⊕ queue_total s k ⊕ inflight_total s k.

Lemma total_units {A} (f : A → skey → content) l k : (∀ x, x ∈ l → f x k = content_unit) → total f l k = content_unit.
Proof.
  induction l as [|x l IH]; intros H; [done|]. rewrite total_cons, (H x), IH, content_unit_l; try done.
  - intros y Hy. apply H. by right.
  - by left.
Qed.

Lemma conserved_init c : conserved (init c).
Proof.
  intros k. unfold input_total, out_total, aggr_total, queue_total, inflight_total, init;
    cbn [st_input st_out st_aggr st_queue st_inflight fmap list_fmap].
  rewrite !total_nil, total_concat, !total_units; [content_ac| |].
  - intros q Hq. apply elem_of_replicate in Hq as [-> _]. done.
  - intros a Ha. apply elem_of_replicate in Ha as [-> _]. apply cnt_empty_map.
Qed.

Lemma conserved_step c s l s' :
  cfg_shards c ≠ 0 → inv c s → conserved s → step c s l = Some s' → conserved s'.
Proof.
  intros Hn Hinv Hc Hstep k. specialize (Hc k). revert Hc.
  unfold conserved, input_total, out_total, aggr_total, queue_total, inflight_total.
  destruct Hinv as [_ _ _ _ Ha _].
  destruct s as [inp infl qs ags nf fl out]; cbn [st_input st_inflight st_queue st_aggr st_nflush st_flushing st_out] in *.
  destruct l as [ds|j|i|f|i now]; cbn [step st_input st_inflight st_queue st_aggr st_nflush st_flushing st_out] in Hstep.
  - (* Parse *)
    injection Hstep as <-; cbn [st_input st_inflight st_queue st_aggr st_nflush st_flushing st_out]. intros Hc.
    rewrite total_app, fmap_app, (total_app cnt), cnt_nonempty_splits by done.
    rewrite cnt_receive_all, cnt_empty_map, Hc. content_ac.
  - (* Enq *)
    destruct (infl !! j) as [[i m]|] eqn:Ej; [|done].
    destruct (qs !! i) as [q|] eqn:Eq; [|done]. injection Hstep as <-; cbn [st_input st_inflight st_queue st_aggr st_nflush st_flushing st_out].
    rewrite !total_concat, !(total_fmap (λ x : nat * mmap, x.2)).
    rewrite (total_delete _ infl j _ k Ej), (total_delete _ qs i _ k Eq).
    rewrite (total_insert _ qs i _ (q ++ [m]) k Eq), total_snoc. cbn. intros ->. content_ac.
  - (* Merge *)
    destruct (qs !! i) as [[|m q]|] eqn:Eq; try done.
    destruct (ags !! i) as [a|] eqn:Ea; [|done]. injection Hstep as <-; cbn [st_input st_inflight st_queue st_aggr st_nflush st_flushing st_out].
    rewrite !total_concat.
    rewrite (total_delete _ qs i _ k Eq), (total_delete _ ags i _ k Ea).
    rewrite (total_insert _ qs i _ q k Eq), (total_insert _ ags i _ (merge a m) k Ea).
    rewrite total_cons, cnt_merge. intros ->. content_ac.
  - (* Tick *)
    destruct (bool_decide (f = nf) && flush_idle fl); [|done]. injection Hstep as <-; cbn [st_input st_inflight st_queue st_aggr st_nflush st_flushing st_out]. done.
  - (* FlushShard *)
    destruct fl as [[f pend]|]; [|done]. destruct (ags !! i) as [a|] eqn:Ea; [|done].
    destruct (bool_decide (i ∈ pend)); [|done]. injection Hstep as <-; cbn [st_input st_inflight st_queue st_aggr st_nflush st_flushing st_out].
    rewrite fmap_app, (total_app cnt). cbn [fmap list_fmap]. rewrite total_cons, total_nil. cbn [snd].
    rewrite (total_delete _ ags i _ k Ea), (total_insert _ ags i _ (agg_reset c now (agg_flush a)) k Ea).
    rewrite cnt_reset, cnt_flush by (by destruct (Ha i a Ea)). intros ->. content_ac.
Qed.

Lemma reachable_inv_conserved c ls s :
  cfg_shards c ≠ 0 → run (step c) (init c) ls = Some s → inv c s ∧ conserved s.
Proof.
  intros Hn. apply (invariant_run (step c) (λ s, inv c s ∧ conserved s)).
  - intros s0 l s1 [Hi Hc] Hs. split; [by eapply inv_step|by eapply conserved_step].
  - split; [apply inv_init|apply conserved_init].
Qed.

(* ---------------------------------------------------------------------------------------- *)
(* the theorems *)

Lemma conservation c ls s :
  cfg_shards c ≠ 0 → run (step c) (init c) ls = Some s →
  ∀ k, input_total s k = out_total s k ⊕ aggr_total s k ⊕ queue_total s k ⊕ inflight_total s k.
Proof. intros Hn Hr. by destruct (reachable_inv_conserved c ls s Hn Hr). Qed.

Lemma routing_invariant c ls s :
  run (step c) (init c) ls = Some s →
  (∀ i m ty k, (i, m) ∈ st_inflight s → holds m ty k → shard_of_key c k = i)
  ∧ (∀ i q m ty k, st_queue s !! i = Some q → m ∈ q → holds m ty k → shard_of_key c k = i)
  ∧ (∀ i a ty k, st_aggr s !! i = Some a → holds a ty k → shard_of_key c k = i)
  ∧ (∀ f i m ty k, (f, i, m) ∈ st_out s → holds m ty k → shard_of_key c k = i).
Proof.
  intros Hr. destruct (inv_run c ls s Hr) as [_ _ Hif Hq Ha Ho]. repeat split.
  - intros i m ty k H Hh. by destruct (Hif i m H) as [_ G], (G ty k Hh).
  - intros i q m ty k H Hm Hh. by destruct (Hq i q m H Hm) as [_ G], (G ty k Hh).
  - intros i a ty k H Hh. by destruct (Ha i a H) as [_ G], (G ty k Hh).
  - intros f i m ty k H Hh. by destruct (Ho f i m H) as [_ G], (G ty k Hh).
Qed.

Lemma no_phantom c ls s f i m ty k :
  run (step c) (init c) ls = Some s → (f, i, m) ∈ st_out s → holds m ty k →
  ∃ d, d ∈ st_input s ∧ dp_of_series ty k d.
Proof.
  intros Hr H Hh. destruct (inv_run c ls s Hr) as [_ _ _ _ _ Ho].
  by destruct (Ho f i m H) as [_ G], (G ty k Hh).
Qed.

(* two different entries of the out log with the same flush id come from different shards *)
Lemma out_distinct_shards c ls s j1 j2 f i1 i2 m1 m2 :
  run (step c) (init c) ls = Some s →
  st_out s !! j1 = Some (f, i1, m1) → st_out s !! j2 = Some (f, i2, m2) → j1 ≠ j2 → i1 ≠ i2.
Proof.
  intros Hr H1 H2 Hne ->. destruct (finv_run c ls s Hr) as [_ _ Hnd]. apply Hne.
  eapply list.NoDup_lookup; [exact Hnd| |]; rewrite list_lookup_fmap.
  - by rewrite H1.
  - by rewrite H2.
Qed.

Lemma once_per_flush c ls s j1 j2 f i1 i2 m1 m2 ty1 ty2 k :
  run (step c) (init c) ls = Some s →
  st_out s !! j1 = Some (f, i1, m1) → st_out s !! j2 = Some (f, i2, m2) → j1 ≠ j2 →
  holds m1 ty1 k → ¬ holds m2 ty2 k.
Proof.
  intros Hr H1 H2 Hne Hh1 Hh2.
  destruct (routing_invariant c ls s Hr) as (_ & _ & _ & Ho).
  apply (out_distinct_shards c ls s j1 j2 f i1 i2 m1 m2 Hr H1 H2 Hne).
  rewrite <- (Ho f i1 m1 ty1 k (elem_of_list_lookup_2 _ _ _ H1) Hh1).
  apply (Ho f i2 m2 ty2 k (elem_of_list_lookup_2 _ _ _ H2) Hh2).
Qed.

(* ---- quiescence ---- *)

(* flush f is under way and every shard that has already executed it holds no content *)
Definition drained (f : nat) (s : state) : Prop :=
  ∃ pend, st_flushing s = Some (f, pend) ∧
          ∀ i a, st_aggr s !! i = Some a → i ∉ pend → ∀ k, cnt a k = content_unit.

Lemma flush_labels_frame c s ls s' :
  Forall is_flush_label ls → run (step c) s ls = Some s' →
  st_input s' = st_input s ∧ st_inflight s' = st_inflight s ∧ st_queue s' = st_queue s.
Proof.
  intros Hf. revert s. induction Hf as [|l ls Hl _ IH]; intros s Hr; cbn in Hr; [by injection Hr as <-|].
  destruct (step c s l) as [s1|] eqn:E; [|done]. destruct (IH s1 Hr) as (-> & -> & ->).
  destruct s as [inp infl qs ags nf fl out]. destruct l as [ds|j|i|f|i now]; cbn in Hl, E; try done.
  - destruct (bool_decide (f = nf) && flush_idle fl); [|done]. by injection E as <-.
  - destruct fl as [[f pend]|]; [|done]. destruct (ags !! i); [|done].
    destruct (bool_decide (i ∈ pend)); [|done]. by injection E as <-.
Qed.

Lemma drained_tick c s f s' :
  length (st_aggr s) = cfg_shards c → step c s (Tick f) = Some s' → drained f s'.
Proof.
  intros Hlen E. destruct s as [inp infl qs ags nf fl out]; cbn in *.
  destruct (bool_decide (f = nf) && flush_idle fl); [|done]. injection E as <-.
  exists (seq 0 (cfg_shards c)). split; [done|]. cbn. intros i a Hi Hnot. exfalso. apply Hnot.
  apply elem_of_seq. apply lookup_lt_Some in Hi. lia.
Qed.

Lemma drained_shards c f s ls s' :
  Forall is_shard_label ls → drained f s → run (step c) s ls = Some s' → drained f s'.
Proof.
  intros Hf. revert s. induction Hf as [|l ls Hl _ IH]; intros s Hd Hr; cbn in Hr; [by injection Hr as <-|].
  destruct (step c s l) as [s1|] eqn:E; [|done]. apply (IH s1); [|done]. clear IH Hr.
  destruct Hd as (pend & Hfl & Hz).
  destruct s as [inp infl qs ags nf fl out]. destruct l as [ds|j|i|f'|i now]; cbn in Hl, E, Hfl, Hz; try done.
  subst fl. destruct (ags !! i) as [a|] eqn:Ea; [|done].
  destruct (bool_decide (i ∈ pend)); [|done]. injection E as <-.
  exists (base.filter (λ x, x ≠ i) pend). split; [done|]. cbn. intros i' a' Hi' Hnot k.
  destruct (decide (i' = i)) as [->|Hne].
  - rewrite list_lookup_insert in Hi' by (by eapply lookup_lt_Some). injection Hi' as <-. apply cnt_reset.
  - rewrite list_lookup_insert_ne in Hi' by done. apply (Hz i' a' Hi'). intros Hin. apply Hnot.
    apply elem_of_list_filter. done.
Qed.

Lemma exact_at_quiescence c ls s ls' s' f :
  cfg_shards c ≠ 0 →
  run (step c) (init c) ls = Some s → quiescent s →
  run (step c) s ls' = Some s' → flush_follows f ls' → flush_complete f s' →
  ∀ k, input_total s k = out_total s' k.
Proof.
  intros Hn Hr [Hq1 Hq2] Hr' (pre & post & -> & Hpre & Hpost) Hcomp k.
  assert (Hreach : run (step c) (init c) (ls ++ pre ++ Tick f :: post) = Some s') by (by rewrite run_app, Hr).
  destruct (reachable_inv_conserved c _ s' Hn Hreach) as [Hinv' Hcons'].
  rewrite run_app in Hr'. destruct (run (step c) s pre) as [s1|] eqn:E1; [|done].
  change (run (step c) s1 (Tick f :: post))
    with (match step c s1 (Tick f) with Some s2 => run (step c) s2 post | None => None end) in Hr'.
  destruct (step c s1 (Tick f)) as [s2|] eqn:E2; [|done].
  destruct (flush_labels_frame c s pre s1 Hpre E1) as (Hi1 & Hf1 & Hqs1).
  assert (F2 : Forall is_flush_label [Tick f]) by (repeat constructor).
  assert (R2 : run (step c) s1 [Tick f] = Some s2).
  { change (match step c s1 (Tick f) with Some x => Some x | None => None end = Some s2). by rewrite E2. }
  destruct (flush_labels_frame c s1 [Tick f] s2 F2 R2) as (Hi2 & Hf2 & Hqs2).
  assert (F3 : Forall is_flush_label post).
  { apply Forall_forall. intros l Hl. rewrite Forall_forall in Hpost. specialize (Hpost l Hl). by destruct l. }
  destruct (flush_labels_frame c s2 post s' F3 Hr') as (Hi3 & Hf3 & Hqs3).
  assert (Hlen1 : length (st_aggr s1) = cfg_shards c).
  { assert (R1 : run (step c) (init c) (ls ++ pre) = Some s1) by (by rewrite run_app, Hr).
    by destruct (inv_run c _ s1 R1). }
  pose proof (drained_shards c f s2 post s' Hpost (drained_tick c s1 f s2 Hlen1 E2) Hr') as (pend & Hfl & Hz).
  unfold flush_complete in Hcomp. rewrite Hcomp in Hfl. injection Hfl as <-.
  specialize (Hcons' k). unfold input_total, aggr_total, queue_total, inflight_total in *.
  rewrite Hi3, Hi2, Hi1 in Hcons'. rewrite Hcons'.
  rewrite Hf3, Hf2, Hf1, Hq1, Hqs3, Hqs2, Hqs1. cbn [fmap list_fmap]. rewrite total_nil, total_concat.
  rewrite (total_units _ (st_queue s)), (total_units _ (st_aggr s')); [content_ac| |].
  - intros a Ha. apply elem_of_list_lookup in Ha as [i Hi]. apply (Hz i a Hi). apply not_elem_of_nil.
  - intros q Hq. by rewrite (Hq2 q Hq).
Qed.
