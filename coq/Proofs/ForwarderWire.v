(* Proofs about Model/ForwarderWire.v: contents dispatched = contents decoded upstream.
   Glue between C15 (consolidator, split, post LTS), C07 (abs, additive) and C14 (wire round trip). *)
From Coq Require Import Lia.
From GS Require Import Base.Bytes Base.LTS Model.Lexer Model.Series Model.MetricMap Model.Content.
From GS Require Import Model.Consolidator Model.Forwarder Model.Wire Model.PbWire Model.ForwarderWire.
From GS Require Import Proofs.MetricMapMerge Proofs.Consolidator Proofs.Forwarder Proofs.Wire Proofs.PbWire.
From stdpp Require Import gmap gmultiset.

(* ------------------------------------------------------------------------------------------ *)
(* decidable equality of maps, so that permutations of lists of maps can be decided by counting *)
#[local] Instance counter_eq_dec : EqDecision counter. Proof. solve_decision. Defined.
#[local] Instance gauge_eq_dec : EqDecision gauge. Proof. solve_decision. Defined.
#[local] Instance timer_eq_dec : EqDecision timer. Proof. solve_decision. Defined.
#[local] Instance mset_eq_dec : EqDecision mset. Proof. solve_decision. Defined.
#[local] Instance mmap_eq_dec : EqDecision mmap. Proof. solve_decision. Defined.

Ltac mcnt :=
  apply (Permutation_count_occ mmap_eq_dec); intros ?x;
  repeat match goal with
         | H : Permutation _ _ |- _ =>
             let H' := fresh in pose proof (proj1 (Permutation_count_occ mmap_eq_dec _ _) H x) as H'; clear H
         end;
  repeat progress (repeat rewrite count_occ_app in *; cbn [count_occ] in * );
  repeat match goal with
         | |- context [mmap_eq_dec ?a ?b] => destruct (mmap_eq_dec a b)
         | H : context [mmap_eq_dec ?a ?b] |- _ => destruct (mmap_eq_dec a b)
         end;
  lia.

(* ------------------------------------------------------------------------------------------ *)
(* abs and the pieces of the forwarder *)

Lemma abs_retime now m : abs (retime now m) = abs m.
Proof.
  apply map_eq; intros k. rewrite !abs_lookup. unfold retime; cbn [MetricMap.counters timers sets].
  rewrite !lookup_fmap. destruct (MetricMap.counters m !! k), (timers m !! k), (sets m !! k); reflexivity.
Qed.

Lemma abs_is_empty m : mm_is_empty m = true -> abs m = ∅.
Proof.
  unfold mm_is_empty. intros H. apply andb_prop in H as [H Hs]. apply andb_prop in H as [H _].
  apply andb_prop in H as [Hc Ht]. apply bool_decide_eq_true in Hc, Ht, Hs.
  apply map_eq; intros k. rewrite abs_lookup, Hc, Ht, Hs, !lookup_empty. reflexivity.
Qed.

Lemma filter_key_lookup {V} (names : list str) (pk : str) (m : gmap skey V) (k : skey) :
  base.filter (λ kv, part_key names (fst kv) = pk) m !! k =
  if decide (part_key names k = pk) then m !! k else None.
Proof.
  rewrite map_filter_lookup. destruct (m !! k) as [v|]; cbn; [|destruct (decide _); reflexivity].
  destruct (decide (part_key names k = pk)) as [E|E];
    [rewrite option_guard_True by exact E|rewrite option_guard_False by exact E]; reflexivity.
Qed.

Lemma abs_part_lookup (names : list str) (pk : str) (m : mmap) (k : skey) :
  abs (part_of names pk m) !! k = if decide (part_key names k = pk) then abs m !! k else None.
Proof.
  rewrite !abs_lookup. unfold part_of; cbn [MetricMap.counters timers sets]. rewrite !filter_key_lookup.
  destruct (decide (part_key names k = pk)); reflexivity.
Qed.

Lemma cmap_sum_cons x l : cmap_sum (x :: l) = x ⊕ₘ cmap_sum l.
Proof. reflexivity. Qed.

Lemma cmap_sum_parts_lookup (names : list str) (m : mmap) (ks : list str) (k : skey) : NoDup ks ->
  cmap_sum (abs <$> ((λ pk, part_of names pk m) <$> ks)) !! k =
  if decide (part_key names k ∈ ks) then abs m !! k else None.
Proof.
  induction ks as [|pk ks IH]; intros Hnd.
  - cbn. rewrite lookup_empty. rewrite decide_False by (apply not_elem_of_nil). reflexivity.
  - apply list.NoDup_cons in Hnd as [Hnot Hnd]. rewrite !fmap_cons, cmap_sum_cons, cmap_op_lookup, abs_part_lookup, (IH Hnd).
    destruct (decide (part_key names k = pk)) as [E|E], (decide (part_key names k ∈ ks)) as [I|I],
      (decide (part_key names k ∈ pk :: ks)) as [J|J];
      try (exfalso; rewrite E in I; exact (Hnot I));
      try (exfalso; apply J, elem_of_cons; auto; fail);
      try (exfalso; apply elem_of_cons in J as [J|J]; auto; fail);
      try apply oplus_None_r; try apply oplus_None_l.
Qed.

Lemma abs_Some_series m k : is_Some (abs m !! k) -> k ∈ series_keys m.
Proof.
  rewrite abs_lookup. intros [v Hv].
  destruct (MetricMap.counters m !! k) as [c|] eqn:Ec.
  { apply (series_key_listed m Counter k). cbn. rewrite Ec. eauto. }
  destruct (timers m !! k) as [t|] eqn:Et.
  { apply (series_key_listed m Timer k). cbn. rewrite Et. eauto. }
  destruct (sets m !! k) as [s|] eqn:Es.
  { apply (series_key_listed m MSet k). cbn. rewrite Es. eauto. }
  discriminate.
Qed.

(* SplitByTags preserves the content: the parts add up to the map *)
Lemma abs_split names m : cmap_sum (abs <$> (split_by_tags names m).*2) = abs m.
Proof.
  destruct names as [|n names].
  - cbn. apply cmap_op_empty_r.
  - unfold split_by_tags. set (nm := n :: names).
    assert (E : ((λ pk, (pk, part_of nm pk m)) <$> part_keys nm m).*2 = (λ pk, part_of nm pk m) <$> part_keys nm m).
    { rewrite <- list_fmap_compose. reflexivity. }
    rewrite E. apply map_eq; intros k.
    rewrite cmap_sum_parts_lookup by (unfold part_keys; apply NoDup_remove_dups).
    destruct (decide (part_key nm k ∈ part_keys nm m)) as [I|I]; [reflexivity|].
    destruct (abs m !! k) as [v|] eqn:Ev; [|reflexivity]. exfalso. apply I.
    unfold part_keys. apply elem_of_remove_dups, elem_of_list_fmap. exists k. split; [reflexivity|].
    apply abs_Some_series. rewrite Ev. eauto.
Qed.

(* MetricHandler dispatches only with a 202 *)
Lemma handler_dispatch_202 decompress now hdr body st out :
  metric_handler decompress pb_unmarshal now hdr body = (st, out) -> st <> 202%Z -> out = None.
Proof.
  unfold metric_handler. destruct (read_body decompress hdr body) as [raw|e]; [|intros [= <- <-]; reflexivity].
  destruct (pb_unmarshal raw); intros [= <- <-]; [intros H; contradiction H; reflexivity|reflexivity].
Qed.

(* ------------------------------------------------------------------------------------------ *)
(* small facts about the post LTS and lists *)

Lemma post_step_sent c p l p' : post_step c p l = Some p' -> p_status p' = SSent -> l = Attempt Ok2xx.
Proof.
  unfold post_step. destruct (p_phase p), l as [[|]|[|]| | |]; try discriminate;
    try (intros [= <-]; cbn; congruence).
  destruct c; [|discriminate]. destruct (p_hist p); [discriminate|]. intros [= <-]; cbn; congruence.
Qed.

Lemma reach_sent_end c p : (exists pls, run (post_step c) pinit pls = Some p) -> p_status p = SSent -> p_phase p = PEnd.
Proof.
  intros [pls H] Hs. pose proof (pwf_run _ _ _ H) as W. unfold pwf in W. rewrite Hs in W.
  destruct (p_phase p); try contradiction; reflexivity.
Qed.

Lemma map_del_perm {A B} (f : A -> B) i (l : list A) x : nth_error l i = Some x ->
  Permutation (map f l) (f x :: map f (del i l)).
Proof.
  revert i. induction l as [|z l IH]; intros [|i]; cbn; try discriminate.
  - intros [= ->]. reflexivity.
  - intros H. rewrite (IH i H). apply perm_swap.
Qed.

Lemma sum_merge_swap m b rest :
  cmap_sum (abs <$> (MetricMap.merge m b :: rest)) = cmap_sum (abs <$> (m :: rest)) ⊕ₘ abs b.
Proof.
  rewrite !fmap_cons, !cmap_sum_cons, abs_merge.
  rewrite <- !cmap_op_assoc. f_equal. apply cmap_op_comm.
Qed.

Lemma cmap_sum_snoc l x : cmap_sum (l ++ [x]) = cmap_sum l ⊕ₘ x.
Proof. rewrite cmap_sum_app. cbn. rewrite cmap_op_empty_r. reflexivity. Qed.

(* ------------------------------------------------------------------------------------------ *)
Section Composed.
  Variable compress : codec -> Z -> str -> str.
  Variable decompress : codec -> str -> option str.
  Hypothesis codec_law : forall c level raw, (0 <= level <= 9)%Z -> decompress c (compress c level raw) = Some raw.
  Variable flag : bool.
  Variable ctype : str.
  Variable level : Z.
  Variable cfg : fwd_cfg.
  Hypothesis cfg_ok : new_forwarder flag ctype level = Some cfg.
  Variable dyn : list str.
  Variable k : nat.

  Notation wstep := (wstep compress decompress cfg dyn k false).
  Notation cstep := (cstep k).
  Notation cinit := (cinit k).

  Definition all_maps (s : wstate) : list mmap := resident_maps s ++ job_parts s ++ req_parts s.

  Definition rq_ok (r : wreq) : Prop :=
    (exists pls, run (post_step false) pinit pls = Some (q_post r))
    /\ (p_phase (q_post r) = PNew -> q_served r = [])
    /\ (p_phase (q_post r) <> PNew -> q_wire r = post_metrics compress pb_marshal cfg (q_part r))
    /\ (samp_ok (q_part r) ->
          (p_status (q_post r) = SSent -> exists now, q_served r = [retime now (q_part r)])
          /\ (p_status (q_post r) <> SSent -> q_served r = [])).

  Record winv (s : wstate) : Prop := {
    g_cons : exists cls, run cstep cinit cls = Some (w_cons s);
    g_sum : cmap_sum (abs <$> w_put s) = cmap_sum (abs <$> all_maps s);
    g_reqs : Forall rq_ok (w_reqs s);
    g_disp : Permutation (w_dispatched s) (concat (map q_served (w_reqs s)))
  }.

  Lemma resident_maps_eq (c : @Consolidator.state mmap) :
    map s_map (resident c) =
    map s_map (chan c) ++ map (λ dh, s_map (h_slot (snd dh))) (held c) ++ map s_map (got_of (fl c)).
  Proof. unfold resident. rewrite !map_app, map_map. reflexivity. Qed.

  (* the consolidator's part of the sum invariant *)
  Lemma cons_sum c cl c' put jobsum :
    Consolidator.step empty_map MetricMap.merge k c cl = Some c' ->
    cmap_sum (abs <$> put) = cmap_sum (abs <$> map s_map (resident c)) ⊕ₘ jobsum ->
    let put' := match cl with
                | Put d => match Consolidator.lookup d (held c) with Some h => put ++ [h_batch h] | None => put end
                | _ => put end in
    let emitted := match cl, fl c with
                   | DrainEmit, Draining got => abs (merge_maps (map s_map got))
                   | _, _ => ∅ end in
    cmap_sum (abs <$> put') = cmap_sum (abs <$> map s_map (resident c')) ⊕ₘ (jobsum ⊕ₘ emitted).
  Proof.
    intros Hs Hsum. unfold Consolidator.step in Hs. destruct cl; cbn zeta.
    - destruct (Consolidator.lookup d (held c)); [discriminate|]. destruct (chan c) as [|sl r] eqn:Ec; [discriminate|].
      injection Hs as <-. rewrite cmap_op_empty_r, Hsum. f_equal. apply cmap_sum_perm, fmap_Permutation.
      rewrite !resident_maps_eq. cbn [chan held fl map snd h_slot]. rewrite Ec. cbn [map]. mcnt.
    - destruct (Consolidator.lookup d (held c)) as [h|] eqn:El; [|discriminate].
      destruct (length (chan c) <? k); [|discriminate]. injection Hs as <-. rewrite cmap_op_empty_r.
      pose proof (remove_perm (λ dh : nat * holding, s_map (h_slot (snd dh))) d _ h El) as Hh. cbn [snd] in Hh.
      set (rest := map s_map (chan c) ++ map (λ dh, s_map (h_slot (snd dh))) (remove_key d (held c)) ++ map s_map (got_of (fl c))).
      assert (P1 : Permutation (map s_map (resident c)) (s_map (h_slot h) :: rest)).
      { rewrite resident_maps_eq. unfold rest. mcnt. }
      assert (P2 : Permutation (map s_map (resident (St (chan c ++ [Slot (MetricMap.merge (s_map (h_slot h)) (h_batch h)) (h_id h :: s_ids (h_slot h))])
                      (remove_key d (held c)) (fl c) (flushes c) (started c) (next_id c) (taken c)
                      ((h_id h, started c) :: puts c) ((h_id h, length (flushes c)) :: pute c))))
                   (MetricMap.merge (s_map (h_slot h)) (h_batch h) :: rest)).
      { rewrite resident_maps_eq. cbn [chan held fl]. rewrite map_app. cbn [map s_map]. unfold rest. clear Hh P1. mcnt. }
      rewrite (cmap_sum_perm _ _ (fmap_Permutation abs _ _ P2)), sum_merge_swap.
      rewrite <- (cmap_sum_perm _ _ (fmap_Permutation abs _ _ P1)).
      rewrite fmap_app. change (abs <$> [h_batch h]) with [abs (h_batch h)]. rewrite cmap_sum_snoc, Hsum.
      rewrite <- !cmap_op_assoc. f_equal. apply cmap_op_comm.
    - destruct (fl c) eqn:Ef; try discriminate. injection Hs as <-. rewrite cmap_op_empty_r, Hsum.
      f_equal. rewrite !resident_maps_eq. cbn [chan held fl got_of]. rewrite Ef. reflexivity.
    - destruct (fl c) as [|got|n] eqn:Ef; try discriminate. destruct (chan c) as [|sl r] eqn:Ec; [discriminate|].
      destruct (length got <? k); [|discriminate]. injection Hs as <-. rewrite cmap_op_empty_r, Hsum.
      f_equal. apply cmap_sum_perm, fmap_Permutation. rewrite !resident_maps_eq. cbn [chan held fl got_of].
      rewrite Ef, Ec. cbn [got_of map]. rewrite map_app. cbn [map]. mcnt.
    - destruct (fl c) as [|got|n] eqn:Ef; try discriminate. destruct (length got =? k); [|discriminate].
      injection Hs as <-. rewrite Hsum, abs_merge_maps. rewrite !resident_maps_eq. cbn [chan held fl].
      rewrite Ef. cbn [got_of]. assert (E : got_of (after_fill (M:=mmap) k) = []) by (destruct k; reflexivity).
      rewrite E. cbn [map]. rewrite app_nil_r, !fmap_app, !cmap_sum_app.
      rewrite <- !cmap_op_assoc. f_equal. f_equal. apply cmap_op_comm.
    - destruct (fl c) as [|got|[|n]] eqn:Ef; try discriminate. destruct (length (chan c) <? k); [|discriminate].
      injection Hs as <-. rewrite cmap_op_empty_r, Hsum. f_equal.
      rewrite !resident_maps_eq. cbn [chan held fl]. rewrite Ef, map_app. cbn [map s_map got_of].
      assert (E : got_of (after_fill (M:=mmap) n) = []) by (destruct n; reflexivity). rewrite E. cbn [map].
      rewrite !app_nil_r, !fmap_app, !cmap_sum_app. cbn. rewrite abs_empty, cmap_op_empty_l, cmap_op_empty_r.
      reflexivity.
  Qed.

  Lemma all_maps_sum s :
    cmap_sum (abs <$> all_maps s) =
    cmap_sum (abs <$> resident_maps s) ⊕ₘ (cmap_sum (abs <$> job_parts s) ⊕ₘ cmap_sum (abs <$> req_parts s)).
  Proof. unfold all_maps. rewrite !fmap_app, !cmap_sum_app. reflexivity. Qed.

  Lemma winv_init : winv (winit k).
  Proof.
    split.
    - exists []. reflexivity.
    - rewrite all_maps_sum. unfold resident_maps, job_parts, req_parts, winit; cbn [w_cons w_put w_jobs w_reqs].
      assert (E : cmap_sum (abs <$> map s_map (resident cinit)) = ∅).
      { unfold Consolidator.resident, ForwarderWire.cinit, Consolidator.init; cbn [chan held fl got_of map]. rewrite !app_nil_r.
        induction k as [|n IH]; cbn; [reflexivity|]. rewrite abs_empty, cmap_op_empty_l. exact IH. }
      rewrite E. cbn. rewrite !cmap_op_empty_l. reflexivity.
    - constructor.
    - reflexivity.
  Qed.

  (* a request step that leaves the part and the served list alone, and does not make it Sent *)
  Lemma rq_ok_quiet r pl p' w :
    rq_ok r -> post_step false (q_post r) pl = Some p' -> pl <> Attempt Ok2xx ->
    (p_phase p' <> PNew -> w = post_metrics compress pb_marshal cfg (q_part r)) ->
    rq_ok (WReq (q_key r) (q_part r) w p' (q_served r)).
  Proof.
    intros (Hreach & Hnew & Hwire & Hsv) Hs Hl Hw. unfold rq_ok; cbn.
    assert (Hns : p_status (q_post r) <> SSent).
    { intros E. pose proof (reach_sent_end _ _ Hreach E) as Hph. rewrite (post_step_end _ _ _ Hph) in Hs. discriminate. }
    assert (Hns' : p_status p' <> SSent) by (intros E; apply Hl; eapply post_step_sent; eauto).
    destruct Hreach as [pls Hp]. split; [exists (pls ++ [pl]); rewrite run_app, Hp; cbn; rewrite Hs; reflexivity|].
    split.
    { intros E. destruct (p_phase (q_post r)) eqn:Eph.
      - auto.
      - exfalso. apply post_step_shape in Hs. destruct pl; destruct Hs as (? & ? & ?); try congruence.
      - exfalso. apply post_step_shape in Hs. destruct pl; destruct Hs as (? & ? & ?); try congruence.
      - rewrite (post_step_end _ _ _ Eph) in Hs. discriminate. }
    split; [exact Hw|]. intros Hok. destruct (Hsv Hok) as [_ H2]. split; [intros E; contradiction|intros _; auto].
  Qed.

  Lemma served_perm (rs : list wreq) q r r' disp :
    nth_error rs q = Some r -> q_served r' = q_served r ++ disp ->
    Permutation (concat (map q_served (upd q r' rs))) (concat (map q_served rs) ++ disp).
  Proof.
    intros Hq Hs. pose proof (concat_upd_perm q_served q r' r rs Hq) as Hp. rewrite Hs in Hp.
    apply (Permutation_app_inv_r (q_served r)). rewrite Hp. rewrite <- !app_assoc.
    apply Permutation_app_head, Permutation_app_comm.
  Qed.

  Lemma winv_step s l s' : winv s -> wstep s l = Some s' -> winv s'.
  Proof.
    intros [Gc Gs Gr Gd] Hs. unfold ForwarderWire.wstep in Hs. destruct l as [cl|j i|j i|q|q now|q|q now|q|q].
    - (* consolidator *)
      destruct (ForwarderWire.cstep k (w_cons s) cl) as [c'|] eqn:Ec; [|discriminate]. injection Hs as <-.
      rewrite all_maps_sum in Gs. unfold resident_maps in Gs.
      pose proof (cons_sum (w_cons s) cl c' (w_put s) _ Ec Gs) as Hsum. cbn zeta in Hsum.
      split; cbn [w_cons w_put w_jobs w_reqs w_dispatched]; auto.
      + destruct Gc as [cls Hr]. exists (cls ++ [cl]). rewrite run_app, Hr. cbn [run]. rewrite Ec. reflexivity.
      + rewrite all_maps_sum. unfold resident_maps, job_parts, req_parts; cbn [w_cons w_jobs w_reqs].
        rewrite Hsum. f_equal. unfold job_parts, req_parts.
        destruct cl; try (rewrite cmap_op_empty_r; reflexivity).
        destruct (fl (w_cons s)) as [|got|n]; try (rewrite cmap_op_empty_r; reflexivity).
        rewrite map_app, concat_app. cbn [map concat]. rewrite app_nil_r, fmap_app, cmap_sum_app.
        change (map snd (split_by_tags dyn (merge_maps (map s_map got)))) with ((split_by_tags dyn (merge_maps (map s_map got))).*2).
        rewrite abs_split. rewrite <- !cmap_op_assoc. f_equal. apply cmap_op_comm.
    - (* skip an empty part *)
      destruct (nth_error (w_jobs s) j) as [parts|] eqn:Ej; [|discriminate].
      destruct (nth_error parts i) as [[pk p]|] eqn:Ei; [|discriminate].
      destruct (mm_is_empty p) eqn:Ee; [|discriminate]. injection Hs as <-.
      split; cbn [w_cons w_put w_jobs w_reqs w_dispatched]; auto.
      rewrite Gs, !all_maps_sum. unfold resident_maps, job_parts, req_parts; cbn [w_cons w_jobs w_reqs]. f_equal. f_equal.
      pose proof (concat_upd_perm (map snd) j (del i parts) parts _ Ej) as Hp.
      pose proof (map_del_perm snd i parts _ Ei) as Hd. cbn [snd] in Hd.
      assert (P : Permutation (concat (map (map snd) (w_jobs s))) (p :: concat (map (map snd) (upd j (del i parts) (w_jobs s))))) by mcnt.
      rewrite (cmap_sum_perm _ _ (fmap_Permutation abs _ _ P)), fmap_cons, cmap_sum_cons, (abs_is_empty _ Ee).
      apply cmap_op_empty_l.
    - (* post a part *)
      destruct (nth_error (w_jobs s) j) as [parts|] eqn:Ej; [|discriminate].
      destruct (nth_error parts i) as [[pk p]|] eqn:Ei; [|discriminate].
      destruct (mm_is_empty p) eqn:Ee; [discriminate|]. injection Hs as <-.
      split; cbn [w_cons w_put w_jobs w_reqs w_dispatched]; auto.
      + rewrite Gs. apply cmap_sum_perm, fmap_Permutation. unfold all_maps, resident_maps, job_parts, req_parts; cbn [w_cons w_jobs w_reqs].
        pose proof (concat_upd_perm (map snd) j (del i parts) parts _ Ej) as Hp.
        pose proof (map_del_perm snd i parts _ Ei) as Hd. cbn [snd] in Hd. rewrite map_app. cbn [map q_part]. mcnt.
      + apply Forall_app. split; [exact Gr|]. constructor; [|constructor]. unfold rq_ok; cbn.
        split; [exists []; reflexivity|]. split; [reflexivity|]. split; [congruence|]. intros _. split; [discriminate|reflexivity].
      + rewrite map_app, concat_app. cbn. rewrite app_nil_r. exact Gd.
    - (* constructPost *)
      destruct (nth_error (w_reqs s) q) as [r|] eqn:Eq; [|discriminate].
      destruct (post_step false (q_post r) _) as [p'|] eqn:Ep; [|discriminate]. injection Hs as <-.
      unfold set_req. split; cbn [w_cons w_put w_jobs w_reqs w_dispatched]; auto.
      + rewrite Gs. unfold all_maps, resident_maps, job_parts, req_parts; cbn [w_cons w_jobs w_reqs].
        erewrite (map_upd_same q_part q); [reflexivity|exact Eq|reflexivity].
      + apply Forall_upd; [exact Gr|].
        apply (rq_ok_quiet r _ p' _ (nth_error_Forall _ _ _ _ Gr Eq) Ep); [discriminate|intros _; reflexivity].
      + rewrite app_nil_r. erewrite (map_upd_same q_served q); [exact Gd|exact Eq|reflexivity].
    - (* an attempt that reaches MetricHandler *)
      destruct (nth_error (w_reqs s) q) as [r|] eqn:Eq; [|discriminate].
      destruct (q_wire r) as [[hdr body]|] eqn:Ew; [|discriminate].
      pose proof (nth_error_Forall _ _ _ _ Gr Eq) as (Hreach & Hnew & Hwire & Hsv).
      unfold attempt in Hs.
      destruct (metric_handler decompress pb_unmarshal now hdr (Some body)) as [st out] eqn:Eh.
      destruct (post_step false (q_post r) _) as [p'|] eqn:Ep; [|discriminate]. injection Hs as <-.
      assert (Hph : p_phase (q_post r) <> PNew).
      { intros E. unfold post_step in Ep. rewrite E in Ep. discriminate. }
      specialize (Hwire Hph). rewrite Ew in Hwire. symmetry in Hwire.
      assert (Hns : p_status (q_post r) <> SSent).
      { intros E. pose proof (reach_sent_end _ _ Hreach E) as Hpe. rewrite (post_step_end _ _ _ Hpe) in Ep. discriminate. }
      unfold set_req. split; cbn [w_cons w_put w_jobs w_reqs w_dispatched]; auto.
      + rewrite Gs. unfold all_maps, resident_maps, job_parts, req_parts; cbn [w_cons w_jobs w_reqs].
        erewrite (map_upd_same q_part q); [reflexivity|exact Eq|reflexivity].
      + apply Forall_upd; [exact Gr|]. unfold rq_ok; cbn [q_post q_served q_wire q_part].
        destruct Hreach as [pls Hp].
        split; [eexists (pls ++ [_]); rewrite run_app, Hp; cbn; rewrite Ep; reflexivity|].
        split; [intros E; apply post_step_shape in Ep; destruct Ep as (_ & E2 & _); contradiction|].
        split; [intros _; congruence|]. intros Hok. destruct (Hsv Hok) as [_ Hemp]. rewrite (Hemp Hns). cbn [app].
        pose proof (proj1 (end_to_end_bytes compress decompress codec_law flag ctype level cfg hdr body cfg_ok)
                    (q_part r) now Hok Hwire) as Hh. rewrite Hh in Eh. injection Eh as <- <-.
        cbn in Ep. unfold post_step in Ep. destruct (p_phase (q_post r)); try discriminate.
        injection Ep as <-. cbn. split; [eauto|congruence].
      + erewrite served_perm; [|exact Eq|reflexivity]. apply Permutation_app_tail, Gd.
    - (* an attempt lost before MetricHandler *)
      destruct (nth_error (w_reqs s) q) as [r|] eqn:Eq; [|discriminate].
      destruct (q_wire r) as [[hdr body]|] eqn:Ew; [|discriminate].
      unfold attempt in Hs. destruct (post_step false (q_post r) (Attempt Failed)) as [p'|] eqn:Ep; [|discriminate].
      injection Hs as <-. unfold set_req. split; cbn [w_cons w_put w_jobs w_reqs w_dispatched]; auto.
      + rewrite Gs. unfold all_maps, resident_maps, job_parts, req_parts; cbn [w_cons w_jobs w_reqs].
        erewrite (map_upd_same q_part q); [reflexivity|exact Eq|reflexivity].
      + apply Forall_upd; [exact Gr|]. rewrite app_nil_r.
        pose proof (nth_error_Forall _ _ _ _ Gr Eq) as Hr. destruct Hr as (_ & _ & Hwire & _).
        apply (rq_ok_quiet r _ p' _ (nth_error_Forall _ _ _ _ Gr Eq) Ep); [discriminate|].
        intros _. apply Hwire. intros E. unfold post_step in Ep. rewrite E in Ep. discriminate.
      + rewrite !app_nil_r. erewrite (map_upd_same q_served q); [exact Gd|exact Eq|reflexivity].
    - discriminate.
    - (* Backoff *)
      destruct (nth_error (w_reqs s) q) as [r|] eqn:Eq; [|discriminate].
      destruct (post_step false (q_post r) Backoff) as [p'|] eqn:Ep; [|discriminate]. injection Hs as <-.
      unfold set_req. split; cbn [w_cons w_put w_jobs w_reqs w_dispatched]; auto.
      + rewrite Gs. unfold all_maps, resident_maps, job_parts, req_parts; cbn [w_cons w_jobs w_reqs].
        erewrite (map_upd_same q_part q); [reflexivity|exact Eq|reflexivity].
      + apply Forall_upd; [exact Gr|].
        pose proof (nth_error_Forall _ _ _ _ Gr Eq) as Hr. destruct Hr as (_ & _ & Hwire & _).
        apply (rq_ok_quiet r _ p' _ (nth_error_Forall _ _ _ _ Gr Eq) Ep); [discriminate|].
        intros _. apply Hwire. intros E. unfold post_step in Ep. rewrite E in Ep. discriminate.
      + rewrite app_nil_r. erewrite (map_upd_same q_served q); [exact Gd|exact Eq|reflexivity].
    - (* Stop *)
      destruct (nth_error (w_reqs s) q) as [r|] eqn:Eq; [|discriminate].
      destruct (post_step false (q_post r) Stop) as [p'|] eqn:Ep; [|discriminate]. injection Hs as <-.
      unfold set_req. split; cbn [w_cons w_put w_jobs w_reqs w_dispatched]; auto.
      + rewrite Gs. unfold all_maps, resident_maps, job_parts, req_parts; cbn [w_cons w_jobs w_reqs].
        erewrite (map_upd_same q_part q); [reflexivity|exact Eq|reflexivity].
      + apply Forall_upd; [exact Gr|].
        pose proof (nth_error_Forall _ _ _ _ Gr Eq) as Hr. destruct Hr as (_ & _ & Hwire & _).
        apply (rq_ok_quiet r _ p' _ (nth_error_Forall _ _ _ _ Gr Eq) Ep); [discriminate|].
        intros _. apply Hwire. intros E. unfold post_step in Ep. rewrite E in Ep. discriminate.
      + rewrite app_nil_r. erewrite (map_upd_same q_served q); [exact Gd|exact Eq|reflexivity].
  Qed.

  Lemma winv_run ls s : run wstep (winit k) ls = Some s -> winv s.
  Proof.
    intros H. refine (invariant_run wstep winv _ ls (winit k) s winv_init H).
    intros s0 l s1. apply winv_step.
  Qed.

  Definition served_ok (r : wreq) : Prop :=
    (p_status (q_post r) = SSent -> exists now, q_served r = [retime now (q_part r)])
    /\ (p_status (q_post r) <> SSent -> q_served r = []).

  Lemma served_sum (rs : list wreq) : Forall served_ok rs ->
    cmap_sum (abs <$> concat (map q_served rs)) =
    cmap_sum (abs <$> map q_part (List.filter (λ r, is_sent (p_status (q_post r))) rs)).
  Proof.
    induction 1 as [|r rs [H1 H2] _ IH]; [reflexivity|]. cbn [map concat List.filter].
    rewrite fmap_app, cmap_sum_app, IH. destruct (p_status (q_post r)) eqn:E; cbn [is_sent];
      try (rewrite H2 by congruence; cbn; apply cmap_op_empty_l).
    destruct (H1 eq_refl) as [now ->]. cbn [map]. rewrite fmap_cons, cmap_sum_cons. cbn.
    rewrite abs_retime, cmap_op_empty_r. reflexivity.
  Qed.

  Lemma rest_jobs_empty (jobs : list (list (str * mmap))) :
    forallb (λ parts, match parts with [] => true | _ => false end) jobs = true ->
    concat (map (map snd) jobs) = [].
  Proof.
    induction jobs as [|p jobs IH]; cbn; [reflexivity|]. intros H. apply andb_prop in H as [Hp Hr].
    destruct p; [|discriminate]. cbn. exact (IH Hr).
  Qed.

  (* THE composed statement *)
  Theorem delivered_content ls s : run wstep (winit k) ls = Some s ->
    (exists cls, run cstep cinit cls = Some (w_cons s))
    /\ Forall (λ r, exists pls, run (post_step false) pinit pls = Some (q_post r)) (w_reqs s)
    /\ cmap_sum (abs <$> w_put s) =
         cmap_sum (abs <$> resident_maps s) ⊕ₘ (cmap_sum (abs <$> job_parts s) ⊕ₘ cmap_sum (abs <$> req_parts s))
    /\ Permutation (w_dispatched s) (concat (map q_served (w_reqs s)))
    /\ ((forall r, In r (w_reqs s) -> samp_ok (q_part r)) ->
          Forall served_ok (w_reqs s)
          /\ cmap_sum (abs <$> w_dispatched s) = cmap_sum (abs <$> parts_with is_sent s)
          /\ (w_at_rest s = true ->
                cmap_sum (abs <$> w_put s) =
                cmap_sum (abs <$> w_dispatched s)
                ⊕ₘ (cmap_sum (abs <$> parts_with (λ st, negb (is_sent st)) s) ⊕ₘ cmap_sum (abs <$> resident_maps s)))).
  Proof.
    intros H. destruct (winv_run _ _ H) as [Gc Gs Gr Gd]. rewrite all_maps_sum in Gs.
    split; [exact Gc|]. split.
    { eapply List.Forall_impl; [|exact Gr]. intros r (Hr & _). exact Hr. }
    split; [exact Gs|]. split; [exact Gd|]. intros Hok.
    assert (Hsv : Forall served_ok (w_reqs s)).
    { apply List.Forall_forall. intros r Hin. rewrite List.Forall_forall in Gr.
      destruct (Gr r Hin) as (_ & _ & _ & Hs). exact (Hs (Hok r Hin)). }
    assert (Hd : cmap_sum (abs <$> w_dispatched s) = cmap_sum (abs <$> parts_with is_sent s)).
    { rewrite (cmap_sum_perm _ _ (fmap_Permutation abs _ _ Gd)). apply served_sum, Hsv. }
    split; [exact Hsv|]. split; [exact Hd|]. unfold w_at_rest. intros R. apply andb_prop in R as [Rj _].
    rewrite Gs, Hd. unfold job_parts. rewrite (rest_jobs_empty _ Rj). cbn. rewrite cmap_op_empty_l.
    unfold req_parts, parts_with.
    pose proof (filter_partition_perm (λ r, is_sent (p_status (q_post r))) (w_reqs s)) as P.
    rewrite (cmap_sum_perm _ _ (fmap_Permutation abs _ _ (Permutation_map q_part P))).
    rewrite map_app, fmap_app, cmap_sum_app. rewrite (cmap_op_comm (cmap_sum (abs <$> resident_maps s))).
    rewrite cmap_op_assoc. reflexivity.
  Qed.
End Composed.

(* ------------------------------------------------------------------------------------------ *)
(* the boundary: a lost response.  One batch (a counter worth 7); its request reaches the server,
   which dispatches it, but the 202 never reaches the forwarder; the forwarder retries (as it must:
   it cannot know) and the second attempt succeeds.  The request ends Sent once, sent = 1,
   retried = 1 -- and the ingesting server has dispatched the batch twice. *)
Definition rl_batch : mmap :=
  MkMap {[ ([99%N], []) := MkCounter 7 1 [] [] ]} ∅ ∅ ∅.
Definition rl_run : list wlabel :=
  [WC (Take 0 rl_batch); WC (Put 0); WC DrainStart; WC DrainTake; WC DrainEmit;
   WPost 0 0; WConstruct 0; WRespLost 0 5; WBackoff 0; WServed 0 6].
Definition id_compress : codec -> Z -> str -> str := λ _ _ raw, raw.
Definition id_decompress : codec -> str -> option str := λ _ b, Some b.

Definition rl_key : skey := ([99%N], []).
Definition rl_counter_of (m : mmap) : option Z := c_val <$> (MetricMap.counters m !! rl_key).

Theorem response_loss_duplicates :
  match run (wstep id_compress id_decompress (MkCfg false CtZlib 0) [] 1 true) (winit 1) rl_run with
  | Some s =>
      map (λ r, (p_status (q_post r), p_ctr (q_post r))) (w_reqs s) = [(SSent, Ctr 1 1 1 0 0)]
      /\ map rl_counter_of (w_put s) = [Some 7%Z]
      /\ map rl_counter_of (w_dispatched s) = [Some 7%Z; Some 7%Z]
      /\ map (λ m, c_ts <$> (MetricMap.counters m !! rl_key)) (w_dispatched s) = [Some 5%Z; Some 6%Z]
  | None => False
  end
  /\ run (wstep id_compress id_decompress (MkCfg false CtZlib 0) [] 1 false) (winit 1) rl_run = None.
Proof. split; vm_compute; [repeat split|reflexivity]. Qed.

(* non-vacuity of delivered_content's hypotheses, and the ordinary course: first attempt lost before
   the server, retry served: decoded upstream exactly once *)
Example id_codec_law : forall c level raw, (0 <= level <= 9)%Z -> id_decompress c (id_compress c level raw) = Some raw.
Proof. reflexivity. Qed.
Example rl_cfg_ok : new_forwarder false [] 0 = Some (MkCfg false CtZlib 0).
Proof. reflexivity. Qed.
Example retry_delivers_once :
  match run (wstep id_compress id_decompress (MkCfg false CtZlib 0) [] 1 false) (winit 1)
            [WC (Take 0 rl_batch); WC (Put 0); WC DrainStart; WC DrainTake; WC DrainEmit;
             WPost 0 0; WConstruct 0; WLost 0; WBackoff 0; WServed 0 6] with
  | Some s => map (λ r, (p_status (q_post r), p_ctr (q_post r))) (w_reqs s) = [(SSent, Ctr 1 1 1 0 0)]
              /\ map rl_counter_of (w_dispatched s) = [Some 7%Z] /\ w_at_rest s = true
  | None => False
  end.
Proof. vm_compute. repeat split. Qed.
