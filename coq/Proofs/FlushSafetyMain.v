(* C04: the theorems of Props/C04.v assembled: the LTS invariant (FlushSafetyLTS) instantiated with
   the Go code's float64 rank (RankUnbounded), composed with the payload theorems. *)
From Coq Require Import String.
From Coq Require Import List ZArith Lia.
From GS Require Import Base.Bytes.
From GS Require Import Model.GoPartial.
From GS Require Import Model.Histogram.
From GS Require Import Model.Stats.
From GS Require Import Model.Rank.
From GS Require Import Model.FlushPartial.
From GS Require Import Model.PayloadPartial.
From GS Require Import Proofs.FlushSafety.
From GS Require Import Proofs.FlushSafetyLTS.
From GS Require Import Proofs.FlushSafetyPayload.
From GS Require Import Proofs.RankUnbounded.
Import ListNotations.
Local Open Scope Z_scope.

Lemma rank_ok_float : rank_ok rank (2^52).
Proof. intros p n Hp Hn. apply rank_in_range_unbounded; assumption. Qed.

Section Main.
  Context {V : Type}.
  Variable O : vops V.
  Variable pf : str -> option bound.
  Hypothesis sort_length : forall l, length (vsort O l) = length l.

  Theorem flush_never_panics_float (c : config V) (ls : list (label V)) :
    Forall (fun p => -100 <= p <= 100) (c_pcts c) -> 0 <= c_limit c ->
    history_values ls < 2^52 ->
    exists a, run O pf rank false c ls = Ok a
              /\ Reported (report_of a)
              /\ exists a', flush O pf rank false c a = Ok a' /\ Reported (report_of a').
  Proof.
    intros Hp Hl Hb. apply (flush_never_panics O pf rank sort_length (2^52)); [exact rank_ok_float|split; assumption|exact Hb].
  Qed.

  (* the property in one statement: whatever the history, Flush completes and every builder's
     partial operations are in range on what it reports *)
  Theorem flush_and_payloads_never_panic (c : config V) (ls : list (label V))
          (m : bmask) (ty : nr_type) (as_hist : bool) (keys : list str) (batch : Z) :
    Forall (fun p => -100 <= p <= 100) (c_pcts c) -> 0 <= c_limit c -> 1 <= batch ->
    history_values ls < 2^52 ->
    exists a a', run O pf rank false c ls = Ok a /\ flush O pf rank false c a = Ok a'
      /\ (exists lines, influx_payload false m (report_of a') = Ok lines)
      /\ (exists u, nr_payload ty (report_of a') = Ok u)
      /\ (exists batches, otlp_payload false as_hist m keys batch (report_of a') = Ok batches)
      /\ (exists sizes, cw_payload m (report_of a') = Ok (Done sizes)).
  Proof.
    intros Hp Hl Hb Hh.
    destruct (flush_never_panics_float c ls Hp Hl Hh) as (a & Ha & _ & a' & Ha' & HR).
    exists a, a'. split; [exact Ha|]. split; [exact Ha'|].
    split; [apply influx_payload_ok|]. split; [apply nr_payload_ok; exact HR|].
    split; [apply otlp_payload_ok; assumption|apply cw_payload_ok].
  Qed.
End Main.
