(* Correspondence for C04.  Two kinds of cases.

   [CRank p n obs]: the real aggregator flushed a timer with n values under the single threshold
   p; obs = the value of its count_<p> percentile (None = not reported, i.e. rank 0).  The model's
   [rank p n] (primitive floats) must be that number.

   [CHist ...]: a configuration, a table of series, the strconv.ParseFloat table for the items of
   their histogram tags and a history of merge / flush / reset operations run on the real
   MetricAggregator, with, for every flush, the SHAPE of every reported timer (number of values,
   percentile names, histogram keys or nil), the sizes of the PutMetricData requests the real
   CloudWatch backend issued and the number of requests of the real OTLP backend.
   [check_case] runs the LTS of Model/FlushPartial.v over the one-point carrier (shapes and
   partial operations do not depend on the values - the theorems hold for every carrier), and
   requires: no step is [Panic], every flush reports the observed shapes, and on the reported map
   every payload model of Model/PayloadPartial.v is [Ok], with the observed CloudWatch request
   sizes and OTLP batch count.  Panics of the real code are the harness's monitors. *)
From Coq Require Import String.
From Coq Require Export List ZArith.
From GS Require Export Base.Bytes.
From GS Require Export Base.CorrLib.
From GS Require Export Base.GoFloat.
From GS Require Export Model.GoPartial.
From GS Require Export Model.Histogram.
From GS Require Export Model.Stats.
From GS Require Export Model.Series.
From GS Require Export Model.Rank.
From GS Require Export Model.FlushPartial.
From GS Require Export Model.PayloadPartial.
Import ListNotations.
Local Open Scope Z_scope.

(* series table entry: name, tags key, tags as stored, source, kind (0 timer 1 counter 2 gauge 3 set) *)
Record sdef := SD { sd_name : str; sd_tkey : str; sd_tags : list str; sd_src : str; sd_kind : Z }.

(* observed shape of one reported timer *)
Record tobs := TO { to_series : Z; to_nvalues : Z; to_pcts : list str; to_hist : option (list bound) }.

Inductive cop :=
| CMerge (pts : list (Z * Z))                      (* (series index, number of values) *)
| CFlush (obs : list tobs) (cw : list Z) (otlp_posts : Z)
| CReset (gone : list Z).                          (* series indices deleted by Reset *)

Record hcfg := HC {
  h_pcts : list Z; h_pmask : pmask; h_bmask : bmask; h_limit : Z;
  h_nr : nr_type; h_otlp_hist : bool; h_otlp_keys : list str; h_batch : Z
}.

Inductive c04case :=
| CRank (p n : Z) (obs : option Z)
| CRankF (pbits n : Z) (obs : option Z)           (* a non-integer threshold, as its float64 bit pattern *)
| CHist (cfg : hcfg) (series : list sdef) (table : list (str * option bound)) (ops : list cop).

Definition oracle (t : list (str * option bound)) (s : str) : option bound :=
  match assoc_str s t with Some r => r | None => None end.

Definition unit_ops : vops unit :=
  {| v0 := tt; vadd := fun _ _ => tt; vsub := fun _ _ => tt; vmul := fun _ _ => tt;
     vdiv := fun _ _ => tt; vofZ := fun _ => tt; vround := fun _ => 0; vsort := fun l => l;
     vle_bound := fun _ _ => true |}.

Definition config_of (c : hcfg) : config unit :=
  {| c_pcts := h_pcts c; c_mask := h_pmask c; c_limit := h_limit c; c_interval := tt |}.

Definition key_of (s : sdef) : skey := (sd_name s, sd_tkey s).
Definition series_at (ss : list sdef) (i : Z) : option sdef :=
  if i <? 0 then None else nth_error ss (Z.to_nat i).

Definition label_of (ss : list sdef) (o : cop) : option (label unit) :=
  match o with
  | CMerge pts =>
      let ts := flat_map (fun pn => match series_at ss (fst pn) with
                   | Some s => if sd_kind s =? 0 then
                       [{| i_key := key_of s; i_src := sd_src s; i_tags := sd_tags s;
                           i_values := repeat tt (Z.to_nat (snd pn)); i_sampled := tt |}] else []
                   | None => [] end) pts in
      let os := flat_map (fun pn => match series_at ss (fst pn) with
                   | Some s => if sd_kind s =? 0 then [] else
                       [{| o_key := (Z.to_N (sd_kind s) :: sd_name s, sd_tkey s); o_tags := sd_tags s; o_src := sd_src s;
                           o_counter := sd_kind s =? 1 |}]
                   | None => [] end) pts in
      Some (LMerge ts os)
  | CFlush _ _ _ => Some LFlush
  | CReset gone =>
      let keys := flat_map (fun i => match series_at ss i with Some s => [key_of s] | None => [] end) gone in
      Some (LReset (fun k => existsb (skey_eqb k) keys))
  end.

(* ---- shape comparison *)
Definition bkey_eqb (a b : bound) : bool :=
  let '(a1, a2) := bound_key a in let '(b1, b2) := bound_key b in (a1 =? b1) && (a2 =? b2).
Definition hist_same (m : hist) (o : option (list bound)) : bool :=
  match m, o with
  | HNil, None => true
  | HMap h, Some ks => list_eqb bkey_eqb (bound_sort (map fst h)) (bound_sort ks)
  | _, _ => false
  end.
Definition shape_ok (ss : list sdef) (obs : list tobs) (e : entry unit) : bool :=
  existsb (fun o =>
    match series_at ss (to_series o) with
    | Some s =>
        skey_eqb (key_of s) (e_key e)
        && (to_nvalues o =? len (t_values (e_timer e)))
        && list_eqb str_eqb (sort_tags (to_pcts o)) (sort_tags (map fst (t_pcts (e_timer e))))
        && hist_same (t_hist (e_timer e)) (to_hist o)
    | None => false
    end) obs.

Definition payloads_ok (c : hcfg) (r : reported) (cw : list Z) (otlp_posts : Z) : bool :=
  negb (is_panic (influx_payload false (h_bmask c) r))
  && negb (is_panic (nr_payload (h_nr c) r))
  && match otlp_payload false (h_otlp_hist c) (h_bmask c) (h_otlp_keys c) (h_batch c) r with
     | Ok g => len g =? otlp_posts
     | Panic => false
     end
  && match cw_payload (h_bmask c) r with
     | Ok (Done sizes) => list_eqb Z.eqb sizes cw
     | _ => false
     end.

Fixpoint run_ops (c : hcfg) (pf : str -> option bound) (ss : list sdef) (a : agg unit) (ops : list cop) : bool :=
  match ops with
  | [] => true
  | o :: r =>
      match label_of ss o with
      | None => false
      | Some l =>
          match step unit_ops pf rank false (config_of c) a l with
          | Panic => false
          | Ok a' =>
              (match o with
               | CFlush obs cw posts =>
                   (Nat.eqb (length obs) (length (a_timers a')))
                   && forallb (shape_ok ss obs) (a_timers a')
                   && payloads_ok c (report_of a') cw posts
               | _ => true
               end) && run_ops c pf ss a' r
          end
      end
  end.

(* every histogram item the model will ask about is in the table *)
Definition oracle_complete (ss : list sdef) (t : list (str * option bound)) : bool :=
  forallb (fun s => match find_tag (sd_tags s) with
     | None => true
     | Some tag => match tag_items tag with
                   | Ok items => forallb (fun x => match assoc_str x t with Some _ => true | None => false end) items
                   | Panic => false
                   end
     end) ss.

Definition check_case (k : c04case) : bool :=
  match k with
  | CRank p n obs =>
      match obs with
      | Some v => (rank p n =? v) && negb (v =? 0)
      | None => rank p n =? 0
      end
  | CRankF pb n obs =>
      let k := rank_float (float_of_bits pb) n in
      match obs with
      | Some v => (k =? v) && negb (v =? 0)
      | None => k =? 0
      end
  | CHist c ss t ops => oracle_complete ss t && run_ops c (oracle t) ss agg_empty ops
  end.

(* for a failing case: the model's rank, or the reported shapes after every flush *)
Fixpoint shapes (c : hcfg) (pf : str -> option bound) (ss : list sdef) (a : agg unit) (ops : list cop)
  : list (outcome (list (skey * Z * list str * hist) * outcome Z * outcome (list Z) * outcome (loop (list Z)))) :=
  match ops with
  | [] => []
  | o :: r =>
      match label_of ss o with
      | None => []
      | Some l =>
          match step unit_ops pf rank false (config_of c) a l with
          | Panic => [Panic]
          | Ok a' =>
              (match o with
               | CFlush _ _ _ =>
                   [Ok (map (fun e => (e_key e, len (t_values (e_timer e)), map fst (t_pcts (e_timer e)), t_hist (e_timer e))) (a_timers a'),
                        influx_payload false (h_bmask c) (report_of a'),
                        otlp_payload false (h_otlp_hist c) (h_bmask c) (h_otlp_keys c) (h_batch c) (report_of a'),
                        cw_payload (h_bmask c) (report_of a'))]
               | _ => []
               end) ++ shapes c pf ss a' r
          end
      end
  end.
Definition explain_case (k : c04case) :=
  match k with
  | CRank p n _ => (rank p n, [])
  | CRankF pb n _ => (rank_float (float_of_bits pb) n, [])
  | CHist c ss t ops => (0, shapes c (oracle t) ss agg_empty ops)
  end.
