(* Correspondence for C02 / C03 (lexer part): one case = namespace, line, the strconv oracle
   table computed by the harness, and what the real lexer returned.  [check_case] runs the
   model on the same line and compares the projected observable: accept/reject, and for an
   accepted line every field.  Error kinds are not compared (the property does not fix them). *)
From GS Require Export Base.Bytes Base.CorrLib Model.Lexer Model.LexGrammar.
Local Open Scope N_scope.

Inductive obs :=
| OM (name : str) (ty : mtype) (value : Z) (strval : str) (rate : Z) (tags : list str)
| OE (title text : str) (date : Z) (host key : str) (pri : N) (stype : str) (alert : N) (tags : list str)
| OR
| OP.

Record lexcase := LC { lc_ns : str; lc_line : str; lc_table : list (str * pfres); lc_obs : obs }.

Definition oracle (t : list (str * pfres)) (s : str) : pfres :=
  match assoc_str s t with Some r => r | None => PFMiss end.

Definition obs_matches (o : obs) (m : outcome) : bool :=
  match o, m with
  | OM name ty v sv rate tags, OMetric x =>
      str_eqb name (m_name x) && mtype_eqb ty (m_type x) && (v =? m_value x)%Z
      && str_eqb sv (m_strval x) && (rate =? m_rate x)%Z && list_eqb str_eqb tags (m_tags x)
  | OE title text date host key pri stype alert tags, OEvent x =>
      str_eqb title (e_title x) && str_eqb text (e_text x) && (date =? e_date x)%Z
      && str_eqb host (e_host x) && str_eqb key (e_key x) && (pri =? e_pri x)
      && str_eqb stype (e_stype x) && (alert =? e_alert x) && list_eqb str_eqb tags (e_tags x)
  | OR, OReject EOracleMiss => false
  | OR, OReject _ => true
  | OP, OPanic => true
  | _, _ => false
  end.

Definition model_of (c : lexcase) : outcome := lex (oracle (lc_table c)) (lc_ns c) (lc_line c).

(* Sanity tie for C02_language / C02_parse_to_spec: for every line without NUL that the REAL lexer
   accepted, the derivation [parse_to_spec] exists, renders back to the line, and the result the
   grammar promises for that derivation is what the real lexer returned. *)
Definition nul_free (l : str) : bool := forallb (fun b => negb (b =? c_nul)) l.

Definition expected_of_spec (pf : str -> pfres) (ns : str) (s : spec) : outcome :=
  match s with
  | SMetric raw val ty attrs => expected_metric pf ns raw val ty attrs
  | SEvent _ _ title text attrs => OEvent (expected_event title text attrs)
  end.

Definition derivation_ok (c : lexcase) : bool :=
  match lc_obs c with
  | OM _ _ _ _ _ _ | OE _ _ _ _ _ _ _ _ _ =>
      if nul_free (lc_line c) then
        match parse_to_spec (lc_line c) with
        | Some s => str_eqb (render_spec s) (lc_line c)
                    && obs_matches (lc_obs c) (expected_of_spec (oracle (lc_table c)) (lc_ns c) s)
        | None => false
        end
      else true
  | _ => true
  end.

Definition check_case (c : lexcase) : bool := obs_matches (lc_obs c) (model_of c) && derivation_ok c.
Definition explain_case := model_of.
