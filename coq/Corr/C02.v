(* Correspondence for C02 / C03 (lexer part): one case = namespace, line, the strconv oracle
   table computed by the harness, and what the real lexer returned.  [check_case] runs the
   model on the same line and compares the projected observable: accept/reject, and for an
   accepted line every field.  Error kinds are not compared (the property does not fix them). *)
From GS Require Export Base.Bytes Base.CorrLib Model.Lexer.
Local Open Scope N_scope.

Inductive obs :=
| OM (name : str) (ty : mtype) (value : Z) (strval : str) (rate : Z) (tags : list str)
| OE (title text : str) (date : Z) (host key : str) (pri : N) (stype : str) (alert : N) (tags : list str)
| OR
| OP.

Record lexcase := LC { lc_ns : str; lc_line : str; lc_table : list (str * pfres); lc_obs : obs }.

Definition oracle (t : list (str * pfres)) (s : str) : pfres :=
  match assoc_str s t with Some r => r | None => PFMiss end.

Definition obs_matches (o : obs) (m : outcome) : bool :=
  match o, m with
  | OM name ty v sv rate tags, OMetric x =>
      str_eqb name (m_name x) && mtype_eqb ty (m_type x) && (v =? m_value x)%Z
      && str_eqb sv (m_strval x) && (rate =? m_rate x)%Z && list_eqb str_eqb tags (m_tags x)
  | OE title text date host key pri stype alert tags, OEvent x =>
      str_eqb title (e_title x) && str_eqb text (e_text x) && (date =? e_date x)%Z
      && str_eqb host (e_host x) && str_eqb key (e_key x) && (pri =? e_pri x)
      && str_eqb stype (e_stype x) && (alert =? e_alert x) && list_eqb str_eqb tags (e_tags x)
  | OR, OReject EOracleMiss => false
  | OR, OReject _ => true
  | OP, OPanic => true
  | _, _ => false
  end.

Definition model_of (c : lexcase) : outcome := lex (oracle (lc_table c)) (lc_ns c) (lc_line c).

Definition check_case (c : lexcase) : bool := obs_matches (lc_obs c) (model_of c).
Definition explain_case := model_of.
