(* Correspondence for C07.
   Stream 1 (C07): programs over a register file of metric maps, executed by the real MetricMap
   (Receive / Merge / MergeMaps) and by the model in the same order (lock-step: the live
   registers must be equal, field for field, except the VALUE of a gauge: which of two gauges
   with equal timestamps wins is free, DESIGN 2.4); in addition every observed register must
   satisfy the C07 projection of the leaves that flowed into it (counter totals, timer value
   multisets, sampled counts, set members, newest timestamps, and a gauge value that is the
   value of a leaf datapoint carrying the newest timestamp).
   Stream 2 (C07Cons): batches pushed by concurrent goroutines through a real
   MetricConsolidator (ReceiveMetrics / ReceiveMetricMap, concurrent Flush), all drained maps
   merged by MergeMaps.  Which slot a batch landed in is not observable, so the result is
   compared with the model merge of the batches in list order under the C07 projection
   (C07_slots / C07_counters / C07_timers / C07_sets / C07_timestamps / C07_gauges say the
   projection does not depend on the assignment). *)
From stdpp Require Import gmap sorting.
From Coq Require Import QArith Qcanon.
From GS Require Export Corr.MMLib Model.Content.

Inductive op :=
| OSeed (r : nat) (es : list entry)     (* regs[r] = a map holding exactly these series: the residue
                                          MetricAggregator.Reset leaves (timers with NO values, counters
                                          at 0, sets with no members, gauges) or any other map *)
| ORecv (r : nat) (d : datapoint)
| OMerge (into from : nat)             (* regs[into].Merge(regs[from]); regs[from] is dead afterwards *)
| OMergeMaps (dst : nat) (srcs : list nat) (* regs[dst] = MergeMaps(srcs); the sources are dead *)
| OSplitMerge (r : nat).               (* regs[r] = MergeMaps(parts of regs[r].SplitByTags(header keys)): the forwarder
                                          groups a flush by header tags and the ingesting side merges the requests.  The
                                          parts are a partition of the map, so for the model this is MergeMaps [regs[r]]:
                                          nothing lost, nothing doubled, whatever the key list *)

Inductive batch :=
| BMap (es : list entry) (ds : list datapoint) (* a map holding the series es, then built up by Receive,
                                                  handed to ReceiveMetricMap *)
| BMetrics (ds : list datapoint).  (* a slice handed to ReceiveMetrics *)

Inductive c07case :=
| C07 (nregs : nat) (prog : list op) (obs : list (nat * list entry))
| C07Cons (batches : list batch) (obs : list entry).

Definition reg (rs : list mmap) (i : nat) : mmap := nth i rs empty_map.
Fixpoint set_reg (rs : list mmap) (i : nat) (m : mmap) : list mmap :=
  match rs, i with
  | [], _ => []
  | _ :: r, O => m :: r
  | x :: r, S i' => x :: set_reg r i' m
  end.

Definition exec (rs : list mmap) (o : op) : list mmap :=
  match o with
  | OSeed r es => set_reg rs r (map_of_entries es)
  | ORecv r d => set_reg rs r (receive (reg rs r) d)
  | OMerge i f => set_reg rs i (merge (reg rs i) (reg rs f))
  | OMergeMaps d srcs => set_reg rs d (merge_maps (map (reg rs) srcs))
  | OSplitMerge r => set_reg rs r (merge_maps [reg rs r])
  end.

Definition run_prog (n : nat) (p : list op) : list mmap := fold_left exec p (repeat empty_map n).

(* ---- the C07 projection: an observed dump [es] against the model map [m] of the same
   batches merged in some order, [ls] being the leaves ---- *)
Definition zsort (l : list Z) : list Z := merge_sort Z.le l.
Definition qc_eqb (a b : Qc) : bool := Qeq_bool (this a) (this b).

Definition gauge_candidate (ls : list mmap) (k : skey) (ts v : Z) : bool :=
  existsb (λ l, match gauges l !! k with
                | Some g => (g_ts g =? ts)%Z && (g_val g =? v)%Z
                | None => false end) ls.

Definition entry_projects (ls : list mmap) (m : mmap) (e : entry) : bool :=
  match e with
  | EC n k v ts _ _ =>
      match counters m !! (n, k) with Some c => (c_val c =? v)%Z && (c_ts c =? ts)%Z | None => false end
  | EG n k v ts _ _ =>
      match gauges m !! (n, k) with Some g => (g_ts g =? ts)%Z && gauge_candidate ls (n, k) ts v | None => false end
  | ET n k vs sn sd ts _ _ =>
      match timers m !! (n, k) with
      | Some t => zlist_eqb (zsort vs) (zsort (t_vals t)) && qc_eqb (Q2Qc (Qmake sn sd)) (t_samp t) && (t_ts t =? ts)%Z
      | None => false end
  | ES n k ms ts _ _ =>
      match sets m !! (n, k) with
      | Some s => strs_eqb (elements (list_to_set ms : gset str)) (elements (s_vals s)) && (s_ts s =? ts)%Z
      | None => false end
  end.

Definition projects (ls : list mmap) (m : mmap) (es : list entry) : bool :=
  (length es =? length (entries m))%nat && forallb (entry_projects ls m) es.

Definition batch_leaves (b : batch) : list mmap :=
  match b with
  | BMap es ds => [receive_all (map_of_entries es) ds]
  | BMetrics ds => singleton <$> ds
  end.

(* stream 1: the leaves that flowed into each register (provenance), for ANY program: a
   seeded map and every received datapoint is a leaf; a merge concatenates the provenance *)
Definition lreg (ls : list (list mmap)) (i : nat) : list mmap := nth i ls [].
Fixpoint set_lreg (ls : list (list mmap)) (i : nat) (x : list mmap) : list (list mmap) :=
  match ls, i with
  | [], _ => []
  | _ :: r, O => x :: r
  | y :: r, S i' => y :: set_lreg r i' x
  end.
Definition exec_leaves (ls : list (list mmap)) (o : op) : list (list mmap) :=
  match o with
  | OSeed r es => set_lreg ls r [map_of_entries es]
  | ORecv r d => set_lreg ls r (lreg ls r ++ [singleton d])
  | OMerge i f => set_lreg ls i (lreg ls i ++ lreg ls f)
  | OMergeMaps d srcs => set_lreg ls d (concat (map (lreg ls) srcs))
  | OSplitMerge _ => ls
  end.
Definition run_leaves (n : nat) (p : list op) : list (list mmap) := fold_left exec_leaves p (repeat [] n).

(* lock-step comparison modulo gauge values *)
Definition erase_gv_entry (e : entry) : entry :=
  match e with EG n k _ ts s tg => EG n k 0 ts s tg | _ => e end.
Definition erase_gv (m : mmap) : mmap :=
  MkMap (counters m) (timers m) ((λ g, MkGauge 0 (g_ts g) (g_src g) (g_tags g)) <$> gauges m) (sets m).
Definition lockstep_matches (es : list entry) (m : mmap) : bool :=
  dump_matches (erase_gv_entry <$> es) (erase_gv m).

Definition check_case (c : c07case) : bool :=
  match c with
  | C07 n p obs =>
      let rs := run_prog n p in
      let ls := run_leaves n p in
      forallb (fun '(i, es) => lockstep_matches es (reg rs i)) obs
      && forallb (fun '(i, es) => projects (lreg ls i) (merge_maps (lreg ls i)) es) obs
  | C07Cons bs es =>
      let ls := concat (batch_leaves <$> bs) in
      projects ls (merge_maps ls) es
  end.

Inductive explained :=
| XRegs (rs : list (nat * list entry))
| XMerged (es : list entry).

Definition explain_case (c : c07case) : explained :=
  match c with
  | C07 n p obs =>
      let rs := run_prog n p in
      if forallb (fun '(i, es) => lockstep_matches es (reg rs i)) obs
      then XMerged (flat_map (fun '(i, _) => entries (merge_maps (lreg (run_leaves n p) i))) obs)
      else XRegs (map (fun '(i, _) => (i, entries (reg rs i))) obs)
  | C07Cons bs _ => XMerged (entries (merge_maps (concat (batch_leaves <$> bs))))
  end.
