(* Correspondence for C07: programs over a register file of metric maps, executed by the real
   MetricMap (Receive / Merge / MergeMaps) and by the model in the same order; the live
   registers are compared at the end. *)
From stdpp Require Import gmap.
From GS Require Export Corr.MMLib.

Inductive op :=
| ORecv (r : nat) (d : datapoint)
| OMerge (into from : nat)             (* regs[into].Merge(regs[from]); regs[from] is dead afterwards *)
| OMergeMaps (dst : nat) (srcs : list nat). (* regs[dst] = MergeMaps(srcs); the sources are dead *)

Record c07case := C07 { c_nregs : nat; c_prog : list op; c_obs : list (nat * list entry) }.

Definition reg (rs : list mmap) (i : nat) : mmap := nth i rs empty_map.
Fixpoint set_reg (rs : list mmap) (i : nat) (m : mmap) : list mmap :=
  match rs, i with
  | [], _ => []
  | _ :: r, O => m :: r
  | x :: r, S i' => x :: set_reg r i' m
  end.

Definition exec (rs : list mmap) (o : op) : list mmap :=
  match o with
  | ORecv r d => set_reg rs r (receive (reg rs r) d)
  | OMerge i f => set_reg rs i (merge (reg rs i) (reg rs f))
  | OMergeMaps d srcs => set_reg rs d (merge_maps (map (reg rs) srcs))
  end.

Definition run_prog (n : nat) (p : list op) : list mmap := fold_left exec p (repeat empty_map n).

Definition check_case (c : c07case) : bool :=
  let rs := run_prog (c_nregs c) (c_prog c) in
  forallb (fun '(i, es) => dump_matches es (reg rs i)) (c_obs c).

Definition explain_case (c : c07case) : list (nat * list entry) :=
  let rs := run_prog (c_nregs c) (c_prog c) in
  map (fun '(i, _) => (i, entries (reg rs i))) (c_obs c).
