(* Correspondence for C08, single-timer stream: one case = aggregator configuration, the datapoints of one timer
   series in arrival order (value and rate as float64 bit patterns), the tags of the flushed
   timer, the strconv.ParseFloat table for the items of its histogram tag, and every field of
   the real flushed gostatsd.Timer.  [check_single] runs [flush_timer] over exact rationals and
   compares under the projection of DESIGN 3.1:
     exactly in both regimes   min, max, the sorted values, median of an odd count, percentile
                               counts and boundaries, the set of percentile names, the
                               histogram (as a multiset of (bound, count) under float ==);
     exactly in the exact regime, else within 1e-9 of the conditioning quantity
                               sum, sum of squares, median, sampled count, percentile sums;
     within 1e-9 always        mean, percentile means, variance (against StdDev squared),
                               per-second rate;
     Count                     floor(S + 1/2) for an S within the sampled-count tolerance.
   Percentiles are compared as a SET of (name, value): Go ranges over a map (equal lengths, and
   every model entry has an observed entry of the same name with a matching value; the model's
   names are distinct).  Theorems about [flush_timer]: Props/C08.v ([C08_refines_spec]: it equals
   [timer_spec] for every input). *)
From Coq Require Import String.
From Coq Require Export List ZArith QArith Qcanon.
From GS Require Export Base.Bytes Base.CorrLib Base.GoFloat Model.GoPartial Model.Histogram Model.Stats.
Import ListNotations.
Local Open Scope Z_scope.

Record obs := Obs {
  o_count : Z;
  o_sampled : Z; o_persec : Z; o_mean : Z; o_median : Z; o_min : Z; o_max : Z;
  o_stddev : Z; o_sum : Z; o_sumsq : Z;          (* float64 bit patterns *)
  o_values : list Z;
  o_pcts : list (str * Z);
  o_hist : option (list (bound * Z))
}.

Record c08single := Case {
  k_pcts : list Z;
  k_mask : pmask;
  k_limit : Z;
  k_interval_ns : Z;
  k_tags : list str;
  k_table : list (str * option bound);
  k_points : list (Z * Z);                       (* (value bits, rate bits), arrival order *)
  k_exact : bool;
  k_obs : obs
}.

Definition oracle (t : list (str * option bound)) (s : str) : option bound :=
  match assoc_str s t with Some r => r | None => None end.

(* every item the model will ask about is in the table *)
Definition oracle_complete (c : c08single) : bool :=
  match find_tag (k_tags c) with
  | None => true
  | Some tag =>
      match tag_items tag with
      | Ok items => forallb (fun s => match assoc_str s (k_table c) with Some _ => true | None => false end) items
      | Panic => false
      end
  end.

Definition config_of (c : c08single) : config Qc :=
  {| c_pcts := k_pcts c; c_mask := k_mask c; c_limit := k_limit c;
     c_interval := (Qc_of_Z (k_interval_ns c) / Qc_of_Z 1000000000)%Qc |}.

Definition xs_of (c : c08single) : list Qc := map (fun vr => Qc_of_bits (fst vr)) (k_points c).
Definition sampled_of (c : c08single) : Qc :=
  sampled_count (map (fun vr => Qc_of_bits (snd vr)) (k_points c)).

Definition model_of (c : c08single) : outcome (timer Qc) :=
  flush_timer qc_ops (oracle (k_table c)) go_rank false (config_of c)
    (fresh qc_ops (xs_of c) (sampled_of c) (k_tags c) HNil).

(* ---- comparisons *)
Definition qabs (x : Qc) : Qc := if Qcleb 0 x then x else (- x)%Qc.
Definition tol : Qc := Q2Qc (1 # 1000000000).
Definition qeq (a b : Qc) : bool := Qc_eq_bool a b.
Definition close (scale a b : Qc) : bool := Qcleb (qabs (a - b)) (tol * scale)%Qc.
Definition fin (b : Z) : bool := f64_is_finite b.
(* exact: the observed double is finite and is exactly the model's rational *)
Definition same (m : Qc) (o : Z) : bool := fin o && qeq m (Qc_of_bits o).
Definition near (scale m : Qc) (o : Z) : bool := fin o && close scale m (Qc_of_bits o).
Definition cmp (exact : bool) (scale m : Qc) (o : Z) : bool := if exact then same m o else near scale m o.

Definition scale1 (xs : list Qc) : Qc := qsum (map qabs xs).
Definition scale2 (xs : list Qc) : Qc := qsumsq xs.
Definition scale_max (xs : list Qc) : Qc := fold_right qmax 0%Qc (map qabs xs).

(* The variance (compared as StdDev^2, both regimes).  Go computes it in a second pass with the
   computed mean, SUM (x - mean)^2 / n, which is accurate RELATIVE to the variance up to the squared
   error of the mean (Props/C08Float.v: C08_float_sum_of_diffs_error, C08_float_deviation_shift):
       |StdDev^2 - Var| <= 1e-9 * Var + 5 * (n * u)^2 * max|x|^2,    u = 2^-53, n <= 10^6
   (C08_tolerance_sound_variance_qc proves exactly this boolean for the two-pass algorithm).  A scale of
   max|x|^2 alone would accept the cancelling one-pass formula SUM x^2 - mean * SUM x. *)
Definition u53 : Qc := Q2Qc (1 # 9007199254740992).
Definition var_tol (n : nat) (smax var : Qc) : Qc :=
  (tol * var + Qc_of_Z 5 * ((qnat n * u53) * (qnat n * u53)) * (smax * smax))%Qc.
Definition var_close (n : nat) (smax var obs2 : Qc) : bool :=
  Qcleb (qabs (var - obs2)) (var_tol n smax var).

Definition kind_of (name : str) : N :=
  if has_prefix (bs "count_") name then 0%N
  else if has_prefix (bs "upper_") name || has_prefix (bs "lower_") name then 1%N
  else if has_prefix (bs "mean_") name then 2%N
  else if has_prefix (bs "sum_squares_") name then 4%N
  else if has_prefix (bs "sum_") name then 3%N
  else 9%N.

(* one model percentile entry against the observed entry of the same name (names are distinct:
   "count_" ++ itoa p ... for the distinct keys p of the Go map); [sc] = (max|x|, sum|x|, sum x^2) *)
Definition pct_ok (exact : bool) (sc : Qc * Qc * Qc) (o : list (str * Z)) (e : str * Qc) : bool :=
  let '(smax, s1, s2) := sc in
  match assoc_str (fst e) o with
  | None => false
  | Some ov =>
    match kind_of (fst e) with
    | 0%N | 1%N => same (snd e) ov
    | 2%N => near smax (snd e) ov
    | 3%N => cmp exact s1 (snd e) ov
    | 4%N => cmp exact s2 (snd e) ov
    | _ => false
    end
  end.

(* histograms: canonical key (NaN keys all alike, -0 = +0), sorted *)
Definition bkey (b : bound) : Z * Z :=
  match b with
  | BNaN => (0, 0) | BPInf => (1, 0) | BNInf => (2, 0)
  | BFin x => (3, if f64_is_zero x then 0 else x)
  end.
Definition ent := (Z * Z * Z)%type.
Definition ent_leb (a b : ent) : bool :=
  let '(a1, a2, a3) := a in let '(b1, b2, b3) := b in
  (a1 <? b1) || ((a1 =? b1) && ((a2 <? b2) || ((a2 =? b2) && (a3 <=? b3)))).
Fixpoint ent_insert (x : ent) (l : list ent) : list ent :=
  match l with [] => [x] | y :: r => if ent_leb x y then x :: l else y :: ent_insert x r end.
Definition canon_hist (h : list (bound * Z)) : list ent :=
  fold_right ent_insert [] (map (fun e => (bkey (fst e), snd e)) h).
Definition ent_eqb (a b : ent) : bool :=
  let '(a1, a2, a3) := a in let '(b1, b2, b3) := b in (a1 =? b1) && (a2 =? b2) && (a3 =? b3).
Definition hist_ok (m : hist) (o : option (list (bound * Z))) : bool :=
  match m, o with
  | HNil, None => true
  | HMap h, Some h' => list_eqb ent_eqb (canon_hist h) (canon_hist h')
  | _, _ => false
  end.

Definition zero_bits (b : Z) : bool := f64_is_zero b.

Definition count_ok (exact : bool) (s : Qc) (o : Z) : bool :=
  if exact then o =? Qcfloor (s + qhalf)
  else (Qcfloor (s * (1 - tol) + qhalf) <=? o) && (o <=? Qcfloor (s * (1 + tol) + qhalf)).

Definition check_single (c : c08single) : bool :=
  let o := k_obs c in
  let xs := xs_of c in
  let ex := k_exact c in
  let n := length xs in
  let smax := scale_max xs in
  let s1 := scale1 xs in
  let s2 := scale2 xs in
  forallb (fun vr => fin (fst vr) && f64_finite_pos (snd vr)) (k_points c) &&
  oracle_complete c &&
  match model_of c with
  | Panic => false
  | Ok t =>
      hist_ok (t_hist t) (o_hist o) &&
      (Nat.eqb (length (o_values o)) n) &&
      if has_histogram_tag (k_tags c) then
        (* buckets only: none of the summary statistics, values kept *)
        (o_count o =? 0) && zero_bits (o_persec o) && zero_bits (o_mean o) && zero_bits (o_median o)
        && zero_bits (o_min o) && zero_bits (o_max o) && zero_bits (o_stddev o) && zero_bits (o_sum o)
        && zero_bits (o_sumsq o) && (Nat.eqb (length (o_pcts o)) 0)
        && cmp ex (sampled_of c) (t_sampled t) (o_sampled o)
        && forallb fin (o_values o)
        && list_eqb qeq (qsort xs) (qsort (map Qc_of_bits (o_values o)))
      else if Nat.eqb n 0 then
        (o_count o =? 0) && zero_bits (o_sampled o) && zero_bits (o_persec o) && zero_bits (o_mean o)
        && zero_bits (o_median o) && zero_bits (o_min o) && zero_bits (o_max o) && zero_bits (o_stddev o)
        && zero_bits (o_sum o) && zero_bits (o_sumsq o) && (Nat.eqb (length (o_pcts o)) 0)
      else
        count_ok ex (t_sampled t) (o_count o)
        && cmp ex (t_sampled t) (t_sampled t) (o_sampled o)
        && near (t_persec t) (t_persec t) (o_persec o)
        && near smax (t_mean t) (o_mean o)
        && cmp (ex || Nat.odd n) smax (t_median t) (o_median o)
        && same (t_min t) (o_min o)
        && same (t_max t) (o_max o)
        && fin (o_stddev o)
        && var_close n smax (t_var t) (Qc_of_bits (o_stddev o) * Qc_of_bits (o_stddev o))
        && cmp ex s1 (t_sum t) (o_sum o)
        && cmp ex s2 (t_sumsq t) (o_sumsq o)
        && forallb fin (o_values o)
        && list_eqb qeq (t_values t) (map Qc_of_bits (o_values o))
        && (Nat.eqb (length (o_pcts o)) (length (t_pcts t)))
        && forallb (pct_ok ex (smax, s1, s2) (o_pcts o)) (t_pcts t)
  end.

Definition explain_single (c : c08single) := (oracle_complete c, model_of c).
