(* Correspondence for C05: a real DatagramParser fed, through its input channel, with batches
   of datagrams whose bytes live in a buffer owned by the harness.

   Per batch the harness recorded: the MetricMap handed to DispatchMetricMap (or that no map
   was dispatched), the events handed to DispatchEvent in order, and the three counters
   (cumulative) read afterwards.  Per datagram it recorded the bytes of the datagram's region of
   the buffer (plus up to two bytes of slack behind it) when DoneFunc was called, i.e. the
   buffer as the lexer's in-place writes left it.

   [check_case] runs [Datagram.run_batch] on the same batches and [LexMem.parse_buffer] on every
   datagram's buffer and compares:
     - the map, through its canonical dump.  Counter values are compared modulo 2^64 (Go's
       int64 addition wraps, the model's Z does not); a timer's sampled count (a float sum in
       Go, an exact rational in the model) within a relative 1e-9; everything else exactly,
       including every series' timestamp, source and tag list;
     - the events, field by field; an event whose line carries no date (model: 0) must have
       been stamped with a time inside the window the harness measured around the run;
     - the counters;
     - the buffer bytes.
   The strconv.ParseFloat oracle table is computed by the harness from strconv directly.

   Second kind of case ([LexSeq]): ONE real lexer (with its own metric pool) is handed line after
   line; metrics are given back to the pool with stale values written into every field.  The
   stateful model [LexState.run_line] is run in lock-step from the zero Lexer and its
   (metric, event, error) triple compared each time, every field of the returned Metric included
   (TagsKey, Source, Timestamp must be clean).  As handleDatagram does, the comparison looks at the
   error first, then at the metric if there is one (an event returned next to a metric is ignored:
   C05_reset_e_not_needed), else at the event. *)
From stdpp Require Import gmap.
From Coq Require Import QArith Qabs.
From GS Require Export Corr.MMLib Model.Datagram Model.LexMem Model.LexState.

Definition oracle (t : list (str * pfres)) (s : str) : pfres :=
  match assoc_str s t with Some r => r | None => PFMiss end.

(* what the harness saw of one datagram's buffer at DoneFunc: [od_slack] are the bytes that
   followed the datagram in the buffer before parsing, [od_after] region ++ slack afterwards *)
Record obs_dg := OD { od_slack : str; od_after : str }.

Record obs_batch := OB {
  ob_map : option (list entry);
  ob_events : list event;
  ob_ctr : counters
}.

(* one Lexer.Run on the reused lexer: namespace, what the pool is believed to hand out (the model's
   result provably does not depend on it), the line, and the (metric, event, error) triple observed *)
Inductive sobs := SO (m : option pmetric) (e : option event) (err : bool) | SOPanic.
Record lexstep := LStep { st_ns : str; st_pool : option pmetric; st_line : str; st_obs : sobs }.

Inductive c05case :=
| C05 (c_ns : str) (c_ignore : bool) (c_table : list (str * pfres))
      (c_lo c_hi : Z)                                   (* wall-clock window, Unix seconds *)
      (c_batches : list (list (datagram * obs_dg) * obs_batch))
| LexSeq (q_table : list (str * pfres)) (q_steps : list lexstep)    (* ONE real lexer, line after line *)
| Recv (r_ns : str) (r_table : list (str * pfres))
       (r_sent : list (str * str))               (* (rendered sender, datagram) handed to the receiver, in order *)
       (r_maps : list (list entry))              (* every MetricMap the handler was given, any order *)
       (r_events : list event)                   (* every event the handler was given, any order *)
       (r_ctr : counters).                       (* the parsers' counters at the end *)

(* ---- maps *)
Definition two64z : Z := 18446744073709551616.

Definition samp_close (an : Z) (ad : positive) (bn : Z) (bd : positive) : bool :=
  let a := Qmake an ad in let b := Qmake bn bd in
  Qle_bool (Qabs (a - b) * (1000000000 # 1)) (Qabs b).

Definition entry_close (a b : entry) : bool :=
  match a, b with
  | EC n k v ts s tg, EC n' k' v' ts' s' tg' =>
      str_eqb n n' && str_eqb k k' && (((v - v') mod two64z) =? 0)%Z && (ts =? ts')%Z
      && str_eqb s s' && strs_eqb tg tg'
  | ET n k vs sn sd ts s tg, ET n' k' vs' sn' sd' ts' s' tg' =>
      str_eqb n n' && str_eqb k k' && zlist_eqb vs vs' && samp_close sn sd sn' sd'
      && (ts =? ts')%Z && str_eqb s s' && strs_eqb tg tg'
  | _, _ => entry_eqb a b
  end.

Definition dump_close (es : list entry) (m : mmap) : bool :=
  (length es =? length (entries m))%nat
  && list_eqb entry_close (entries (map_of_entries es)) (entries m).

Definition map_ok (o : option (list entry)) (m : option mmap) : bool :=
  match o, m with
  | None, None => true
  | Some es, Some mm => dump_close es mm
  | _, _ => false
  end.

(* ---- events *)
Definition event_ok (lo hi : Z) (o m : event) : bool :=
  str_eqb (e_title o) (e_title m) && str_eqb (e_text o) (e_text m)
  && (if (e_date m =? 0)%Z then (lo <=? e_date o)%Z && (e_date o <=? hi)%Z
      else (e_date o =? e_date m)%Z)
  && str_eqb (e_host o) (e_host m) && str_eqb (e_key o) (e_key m) && (e_pri o =? e_pri m)%N
  && str_eqb (e_stype o) (e_stype m) && (e_alert o =? e_alert m)%N
  && strs_eqb (e_tags o) (e_tags m).

Definition ctr_eqb (a b : counters) : bool :=
  (n_metrics a =? n_metrics b)%N && (n_events a =? n_events b)%N && (n_bad a =? n_bad b)%N.

(* ---- buffers *)
Definition buffer_ok (t : list (str * pfres)) (ns : str) (d : datagram) (o : obs_dg) : bool :=
  let n := N.of_nat (length (d_msg d)) in
  let m := d_msg d ++ od_slack o in
  match parse_buffer (oracle t) ns m (Sl 0 n (N.of_nat (length m))) with
  | PMOk _ m' => str_eqb m' (od_after o)
  | _ => false
  end.

(* ---- a case *)
Fixpoint check_batches (t : list (str * pfres)) (cfg : config) (lo hi : Z) (acc : counters)
         (bs : list (list (datagram * obs_dg) * obs_batch)) : bool :=
  match bs with
  | [] => true
  | (dgs, ob) :: r =>
      match run_batch (oracle t) cfg (map fst dgs) with
      | None => false
      | Some br =>
          let acc' := ctr_add acc (b_ctr br) in
          map_ok (ob_map ob) (b_map br)
          && list_eqb (event_ok lo hi) (ob_events ob) (b_events br)
          && ctr_eqb (ob_ctr ob) acc'
          && forallb (fun '(d, o) => buffer_ok t (cf_ns cfg) d o) dgs
          && check_batches t cfg lo hi acc' r
      end
  end.

(* ---- the reused lexer, in lock-step with the stateful model *)
Definition pmetric_eqb (a b : pmetric) : bool :=
  str_eqb (pm_name a) (pm_name b) && (pm_value a =? pm_value b)%Z && (pm_rate a =? pm_rate b)%Z
  && strs_eqb (pm_tags a) (pm_tags b) && str_eqb (pm_tagskey a) (pm_tagskey b)
  && str_eqb (pm_strval a) (pm_strval b) && str_eqb (pm_src a) (pm_src b) && (pm_ts a =? pm_ts b)%Z
  && option_eqb mtype_eqb (pm_type a) (pm_type b).
Definition event_eqb (o m : event) : bool :=
  str_eqb (e_title o) (e_title m) && str_eqb (e_text o) (e_text m) && (e_date o =? e_date m)%Z
  && str_eqb (e_host o) (e_host m) && str_eqb (e_key o) (e_key m) && (e_pri o =? e_pri m)%N
  && str_eqb (e_stype o) (e_stype m) && (e_alert o =? e_alert m)%N && strs_eqb (e_tags o) (e_tags m).

Definition sobs_ok (o : sobs) (r : run_result) : bool :=
  match o, r with
  | SO None None true, RR None None (Some EOracleMiss) => false
  | SO None None true, RR None None (Some _) => true
  | SO (Some om) _ false, RR (Some m) _ None => pmetric_eqb om m   (* the parser looks at the metric only *)
  | SO None oe false, RR None e None => option_eqb event_eqb oe e
  | SOPanic, RPanic => true
  | _, _ => false
  end.

Fixpoint check_steps (t : list (str * pfres)) (st : lexstate) (steps : list lexstep) : bool :=
  match steps with
  | [] => true
  | x :: r =>
      let '(st', res) := run_line (oracle t) (st_ns x) (st_pool x) st (st_line x) in
      sobs_ok (st_obs x) res && check_steps t st' r
  end.

(* ---- real receiver + parser(s) under sustained traffic: how the receiver cuts the stream into
   batches and which parser takes which batch is free, so the comparison is over the merge of all
   dispatched maps (MetricMap.merge_maps, timestamps zeroed, timer values as multisets) against
   (every datagram with the rendering of ITS OWN sender as source: the model takes that string as input)
   Receive folded over the metrics of all sent datagrams; events as multisets; counter totals *)
Fixpoint zinsert (x : Z) (l : list Z) : list Z :=
  match l with [] => [x] | y :: r => if (x <=? y)%Z then x :: l else y :: zinsert x r end.
Definition zsort (l : list Z) : list Z := fold_right zinsert [] l.

Definition zero_ts (e : entry) : entry :=
  match e with
  | EC n k v _ s tg => EC n k v 0 s tg
  | EG n k v _ s tg => EG n k v 0 s tg
  | ET n k vs sn sd _ s tg => ET n k vs sn sd 0 s tg
  | ES n k ms _ s tg => ES n k ms 0 s tg
  end.
Definition norm_entry (e : entry) : entry :=
  match e with
  | ET n k vs sn sd _ s tg => ET n k (zsort vs) sn sd 0 s tg
  | _ => zero_ts e
  end.

Fixpoint remove_event (e : event) (l : list event) : option (list event) :=
  match l with
  | [] => None
  | x :: r => if event_eqb x e then Some r
              else match remove_event e r with Some r' => Some (x :: r') | None => None end
  end.
Fixpoint events_perm (a b : list event) : bool :=
  match a with
  | [] => match b with [] => true | _ => false end
  | x :: r => match remove_event x b with Some b' => events_perm r b' | None => false end
  end.

Definition recv_model (t : list (str * pfres)) (ns : str) (sent : list (str * str)) : option (mmap * list event * counters) :=
  match parse_all (oracle t) (Cfg ns false) (map (fun '(ip, m) => Dg ip 0 m) sent) with
  | DgOk r => Some (receive_all empty_map (dg_metrics r), dg_events r,
                    Ctr (N.of_nat (length (dg_metrics r))) (dg_nevents r) (dg_bad r))
  | _ => None
  end.

Definition wellformed_dump (es : list entry) : bool :=
  (length es =? length (entries (map_of_entries es)))%nat.

Definition check_recv (t : list (str * pfres)) (ns : str) (sent : list (str * str))
           (maps : list (list entry)) (evs : list event) (ctr : counters) : bool :=
  match recv_model t ns sent with
  | None => false
  | Some (expect, mevs, mctr) =>
      let got := merge_maps (map (fun es => map_of_entries (map zero_ts es)) maps) in
      forallb wellformed_dump maps
      && list_eqb entry_close (map norm_entry (entries got)) (map norm_entry (entries expect))
      && events_perm mevs evs
      && ctr_eqb ctr mctr
  end.

Definition check_case (c : c05case) : bool :=
  match c with
  | C05 ns ignore table lo hi batches => check_batches table (Cfg ns ignore) lo hi (Ctr 0 0 0) batches
  | LexSeq table steps => check_steps table zero_state steps
  | Recv ns table sent maps evs ctr => check_recv table ns sent maps evs ctr
  end.

(* what the model computed, for failing cases *)
Record explained := XB {
  x_map : option (list entry);
  x_events : list event;
  x_ctr : counters;
  x_buffers : list (option str)
}.
Inductive c05explain :=
| XBatches (l : list (option explained)) | XSeq (l : list run_result)
| XRecv (expected : option (list entry * list event * counters)) (merged_observed : list entry).

Definition explain_case (c : c05case) : c05explain :=
  match c with
  | C05 ns ignore table lo hi batches =>
      let cfg := Cfg ns ignore in
      XBatches (map (fun '(dgs, _) =>
         match run_batch (oracle table) cfg (map fst dgs) with
         | None => None
         | Some br =>
             Some (XB (option_map entries (b_map br)) (b_events br) (b_ctr br)
                      (map (fun '(d, o) =>
                              let n := N.of_nat (length (d_msg d)) in
                              let m := d_msg d ++ od_slack o in
                              match parse_buffer (oracle table) ns m (Sl 0 n (N.of_nat (length m))) with
                              | PMOk _ m' => Some m' | _ => None end) dgs))
         end) batches)
  | LexSeq table steps =>
      XSeq (run_lines (oracle table) zero_state (map (fun x => (st_ns x, st_pool x, st_line x)) steps))
  | Recv ns table sent maps evs ctr =>
      XRecv (match recv_model table ns sent with
             | Some (m, e, c) => Some (map norm_entry (entries m), e, c) | None => None end)
            (map norm_entry (entries (merge_maps (map (fun es => map_of_entries (map zero_ts es)) maps))))
  end.
