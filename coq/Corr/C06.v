(* Correspondence for C06: tags key, bucket, Split, and DispatchMetricMap (which worker's
   aggregator received which shard of which batch). *)
From stdpp Require Import gmap.
From GS Require Export Corr.MMLib.
From GS Require Import Proofs.MetricMapSplit.

Inductive c06case :=
| KeyCase (src : str) (tags : list str) (obs_key : str)
| BucketCase (name key : str) (n : N) (obs : N)
| SplitCase (dps : list datapoint) (n : nat) (obs_whole : list entry) (obs_shards : list (list entry))
(* batches dispatched (back to back or concurrently, possibly against full queues) to n workers;
   obs = per worker, the dumps of the maps its aggregator received, in any order.  The batches
   whose index is in [cancelled] were dispatched under a context that was cancelled meanwhile:
   each of their shards may arrive or not, but at most once and only at its own worker *)
| DispatchCase (batches : list (list datapoint)) (cancelled : list nat) (n : nat) (obs : list (list (list entry)))
(* a real TagHandler with the given static tags in front of the dispatcher; obs as above (after
   the tag stage).  exact = no filters configured: the final tag set of a datapoint is then its
   tags together with the static tags, without duplicates *)
| TaggedCase (batches : list (list datapoint)) (static : list str) (exact : bool) (n : nat)
             (obs : list (list (list entry)))
(* Split called repeatedly in one process: (datapoints, n, observed shards) per call *)
| SplitSeqCase (rounds : list (list datapoint * nat * list (list entry))).

Fixpoint all2 {A B} (f : A -> B -> bool) (a : list A) (b : list B) : bool :=
  match a, b with
  | [], [] => true
  | x :: a', y :: b' => f x y && all2 f a' b'
  | _, _ => false
  end.

(* [split] is evaluated through [split_fast], which is equal to it (one adler32 per series
   instead of one per series and shard) *)
Definition split_c (n : nat) (m : mmap) : list mmap := split_fast n m.
Lemma split_c_is_split n m : split_c n m = split n m.
Proof. apply split_fast_eq. Qed.

Definition is_nil {A} (l : list A) : bool := match l with [] => true | _ => false end.

(* what worker i is expected to receive: shard i of every batch, empty shards skipped;
   [sps] = the Split of every batch (computed once) *)
Definition worker_feed (i : nat) (sps : list (list mmap)) : list mmap :=
  List.filter (λ s, negb (is_nil (entries s)))
    (flat_map (λ sp, match sp !! i with Some s => [s] | None => [] end) sps).

Definition batch_splits (batches : list (list datapoint)) (n : nat) : list (list mmap) :=
  map (λ b, split_c n (receive_all empty_map b)) batches.

(* multiset comparison: an observed dump matches a distinct expected map (a map delivered
   twice, or one that is no shard of any batch, fails) *)
Fixpoint remove_match (o : list entry) (exp : list mmap) : option (list mmap) :=
  match exp with
  | [] => None
  | m :: r => if dump_matches o m then Some r
              else match remove_match o r with Some r' => Some (m :: r') | None => None end
  end.

(* every observed dump is a required map (all consumed at the end) or else an optional one,
   each expected map used at most once *)
Fixpoint match_multiset2 (obs : list (list entry)) (req opt : list mmap) : bool :=
  match obs with
  | [] => is_nil req
  | o :: r => match remove_match o req with
              | Some req' => match_multiset2 r req' opt
              | None => match remove_match o opt with
                        | Some opt' => match_multiset2 r req opt'
                        | None => false
                        end
              end
  end.

Definition pick_batches {A} (want_cancelled : bool) (cancelled : list nat) (l : list A) : list A :=
  map snd (List.filter (λ p, Bool.eqb (existsb (Nat.eqb (fst p)) cancelled) want_cancelled)
                       (combine (seq 0 (length l)) l)).

Definition check_dispatch (batches : list (list datapoint)) (cancelled : list nat) (n : nat)
    (obs : list (list (list entry))) : bool :=
  let sps := batch_splits batches n in
  let req := pick_batches false cancelled sps in
  let opt := pick_batches true cancelled sps in
  (length obs =? n)%nat &&
  all2 (λ i o, match_multiset2 (List.filter (λ es, negb (is_nil es)) o) (worker_feed i req) (worker_feed i opt))
       (seq 0 n) obs.

Definition check_round (r : list datapoint * nat * list (list entry)) : bool :=
  let '(dps, n, shards) := r in all2 dump_matches shards (split_c n (receive_all empty_map dps)).

(* tag stage + dispatch.  Every entry a worker received is stored under the tags key of its own
   (source, tags) and sits at the worker that key hashes to; without filters the series found at
   worker i are exactly the identities (name, tags ∪ static, source) of the input whose bucket is i *)
Definition entry_id (e : entry) : str * str * str * list str :=
  match e with
  | EC nm k _ _ src tags | EG nm k _ _ src tags | ET nm k _ _ _ _ src tags | ES nm k _ _ src tags => (nm, k, src, tags)
  end.
Definition entry_placed (n : nat) (i : nat) (e : entry) : bool :=
  let '(nm, k, src, tags) := entry_id e in
  str_eqb k (tags_key src tags) && N.eqb (bucket nm k (N.of_nat n)) (N.of_nat i).
Fixpoint dedup_strs (l : list str) : list str :=
  match l with
  | [] => []
  | x :: r => if existsb (str_eqb x) r then dedup_strs r else x :: dedup_strs r
  end.
Definition skey_eqb (a b : skey) : bool := str_eqb (fst a) (fst b) && str_eqb (snd a) (snd b).
Definition subset_keys (a b : list skey) : bool := forallb (λ x, existsb (skey_eqb x) b) a.
Definition final_key (static : list str) (d : datapoint) : skey :=
  (dp_name d, tags_key (dp_src d) (dedup_strs (dp_tags d ++ static))).
Definition check_tagged (batches : list (list datapoint)) (static : list str) (exact : bool) (n : nat)
    (obs : list (list (list entry))) : bool :=
  let want := map (final_key static) (concat batches) in
  (length obs =? n)%nat &&
  all2 (λ i o,
          let es := concat o in
          forallb (entry_placed n i) es &&
          (if exact then
             let have := map (λ e, let '(nm, k, _, _) := entry_id e in (nm, k)) es in
             let mine := List.filter (λ k, N.eqb (bucket (fst k) (snd k) (N.of_nat n)) (N.of_nat i)) want in
             subset_keys have mine && subset_keys mine have
           else true))
       (seq 0 n) obs.

Definition check_case (c : c06case) : bool :=
  match c with
  | KeyCase src tags k => str_eqb (tags_key src tags) k
  | BucketCase name key n o => N.eqb (bucket name key n) o
  | SplitCase dps n whole shards =>
      let m := receive_all empty_map dps in
      dump_matches whole m && all2 dump_matches shards (split_c n m)
  | DispatchCase batches cancelled n obs => check_dispatch batches cancelled n obs
  | TaggedCase batches static exact n obs => check_tagged batches static exact n obs
  | SplitSeqCase rounds => forallb check_round rounds
  end.

Inductive c06explain :=
| XKey (k : str) | XBucket (b : N) | XSplit (whole : list entry) (shards : list (list entry))
| XDispatch (required optional : list (list (list entry)))
| XSplitSeq (shards : list (list (list entry)))
| XTagged (expected_series : list (nat * skey)).
Definition explain_case (c : c06case) : c06explain :=
  match c with
  | KeyCase src tags _ => XKey (tags_key src tags)
  | BucketCase name key n _ => XBucket (bucket name key n)
  | SplitCase dps n _ _ => let m := receive_all empty_map dps in XSplit (entries m) (map entries (split_c n m))
  | DispatchCase batches cancelled n _ =>
      let sps := batch_splits batches n in
      XDispatch (map (λ i, map entries (worker_feed i (pick_batches false cancelled sps))) (seq 0 n))
                (map (λ i, map entries (worker_feed i (pick_batches true cancelled sps))) (seq 0 n))
  | TaggedCase batches static _ n _ =>
      XTagged (map (λ d, let k := final_key static d in (N.to_nat (bucket (fst k) (snd k) (N.of_nat n)), k)) (concat batches))
  | SplitSeqCase rounds =>
      XSplitSeq (map (λ r, let '(dps, n, _) := r in map entries (split_c n (receive_all empty_map dps))) rounds)
  end.
