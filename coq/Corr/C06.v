(* Correspondence for C06: tags key, bucket, Split. *)
From stdpp Require Import gmap.
From GS Require Export Corr.MMLib.

Inductive c06case :=
| KeyCase (src : str) (tags : list str) (obs_key : str)
| BucketCase (name key : str) (n : N) (obs : N)
| SplitCase (dps : list datapoint) (n : nat) (obs_whole : list entry) (obs_shards : list (list entry)).

Fixpoint all2 {A B} (f : A -> B -> bool) (a : list A) (b : list B) : bool :=
  match a, b with
  | [], [] => true
  | x :: a', y :: b' => f x y && all2 f a' b'
  | _, _ => false
  end.

Definition check_case (c : c06case) : bool :=
  match c with
  | KeyCase src tags k => str_eqb (tags_key src tags) k
  | BucketCase name key n o => N.eqb (bucket name key n) o
  | SplitCase dps n whole shards =>
      let m := receive_all empty_map dps in
      dump_matches whole m && all2 dump_matches shards (split n m)
  end.

Inductive c06explain :=
| XKey (k : str) | XBucket (b : N) | XSplit (whole : list entry) (shards : list (list entry)).
Definition explain_case (c : c06case) : c06explain :=
  match c with
  | KeyCase src tags _ => XKey (tags_key src tags)
  | BucketCase name key n _ => XBucket (bucket name key n)
  | SplitCase dps n _ _ => let m := receive_all empty_map dps in XSplit (entries m) (map entries (split n m))
  end.
