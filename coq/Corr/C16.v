(* Correspondence for C16.

   SenderTrace: the real sender.Sender goroutine ran against a scripted ConnFactory / fake net.Conn;
   the harness recorded the observable events (submissions, cancellations, connects, writes,
   callbacks with their error kinds, return of Run).  [check_case] decides by a subset construction
   over the unobservable labels (timer, receive from the sink, ctx.Done arms, close of the sink)
   whether the recorded sequence is the observable projection of a run of the LTS of
   Model/Sender.v (the repaired code, legacy = false).

   BackendFlush: one or two flushData calls of the real MetricFlusher over real backends behind
   scripted servers.  Per SendMetricsAsync request the harness recorded the callback invocations;
   they are compared with what Model/Collector.v allows for that kind of backend.  The sequence
   FSendAll / FCallback / FProcessDone / FWaitReturns / FNextFlush it recorded must be a run of
   the flusher LTS that ends with a returned flush and every request called back exactly once. *)
From Coq Require Import List Arith Bool ZArith.
From GS Require Export Base.Bytes Base.CorrLib Model.Sender Model.Collector Model.PostLoop.
Import ListNotations.

(* ---------------------------------------------------------------------------------------- *)
(* equality tests *)
Definition err_eqb (a b : err) : bool :=
  match a, b with EWrite, EWrite | ERunCtx, ERunCtx | EStreamCtx, EStreamCtx => true | _, _ => false end.
Definition wres_eqb (a b : wres) : bool :=
  match a, b with WOk, WOk | WErr, WErr => true | _, _ => false end.
Definition phase_eqb (a b : phase) : bool :=
  match a, b with
  | Connecting, Connecting | Waiting, Waiting | ConnIdle, ConnIdle | ConnStream, ConnStream
  | Returning, Returning | Cleanup, Cleanup | Draining, Draining | Stopped, Stopped
  | Panicked, Panicked => true
  | _, _ => false
  end.
Definition onat_eqb (a b : option nat) : bool :=
  match a, b with Some x, Some y => Nat.eqb x y | None, None => true | _, _ => false end.
Fixpoint leqb {A} (f : A -> A -> bool) (a b : list A) : bool :=
  match a, b with
  | [], [] => true
  | x :: r, y :: t => f x y && leqb f r t
  | _, _ => false
  end.
Definition sobs_eqb (a b : sobs) : bool :=
  match a, b with
  | OSubmit, OSubmit | OCtxCancel, OCtxCancel | ODone, ODone => true
  | OStreamCancel i, OStreamCancel j => Nat.eqb i j
  | OConn x, OConn y => Bool.eqb x y
  | OWrite i r, OWrite j t => Nat.eqb i j && wres_eqb r t
  | OCb i es, OCb j fs => Nat.eqb i j && leqb err_eqb es fs
  | _, _ => false
  end.
(* the ghost fields out / lost / wfail do not influence any later step *)
Definition state_eqb (a b : state) : bool :=
  phase_eqb (ph a) (ph b) && onat_eqb (cur a) (cur b) && leqb err_eqb (errs a) (errs b)
  && Bool.eqb (sinkv a) (sinkv b) && onat_eqb (cancelv a) (cancelv b) && Nat.eqb (cnt a) (cnt b)
  && leqb Nat.eqb (queue a) (queue b) && Bool.eqb (rundone a) (rundone b)
  && leqb Nat.eqb (sdone a) (sdone b) && Nat.eqb (next a) (next b).

Fixpoint add_state (s : state) (l : list state) : list state :=
  match l with
  | [] => [s]
  | x :: r => if state_eqb s x then l else x :: add_state s r
  end.
Definition union_states (a b : list state) : list state := fold_left (fun acc s => add_state s acc) b a.

(* ---------------------------------------------------------------------------------------- *)
(* subset construction *)
Definition silent_labels : list label := [TimerFires; StreamIn; SeeCtxDone; Deferred; CloseSink].

Definition silent_succ (maxs : nat) (s : state) : list state :=
  flat_map (fun l => match emits s l, step false maxs s l with
                     | None, Some s' => [s']
                     | _, _ => []
                     end) silent_labels.

Fixpoint closure (fuel : nat) (maxs : nat) (S : list state) : list state :=
  match fuel with
  | 0 => S
  | Datatypes.S f => closure f maxs (union_states S (flat_map (silent_succ maxs) S))
  end.

(* silent chains are at most: StreamIn per queued stream, then SeeCtxDone, Deferred, CloseSink, plus
   TimerFires *)
Definition closure_fuel (S : list state) : nat := 6 + fold_left (fun m s => Nat.max m (length (queue s))) S 0.

Definition labels_of (o : sobs) : list label :=
  match o with
  | OSubmit => [Submit]
  | OStreamCancel i => [StreamCancel i]
  | OCtxCancel => [CtxCancel]
  | OConn true => [ConnOk]
  | OConn false => [ConnFail]
  | OWrite _ r => [BufWrite r]
  | OCb _ _ => [BufClosed; SeeStreamCancel; Deferred; DrainOne]
  | ODone => [DrainEnd]
  end.

Definition after_obs (maxs : nat) (S : list state) (o : sobs) : list state :=
  let C := closure (closure_fuel S) maxs S in
  fold_left
    (fun acc s =>
       fold_left
         (fun acc l =>
            match emits s l with
            | Some o' => if sobs_eqb o o' then
                           match step false maxs s l with Some s' => add_state s' acc | None => acc end
                         else acc
            | None => acc
            end) (labels_of o) acc)
    C [].

(* (number of observations consumed, state set there); the trace is accepted iff all are consumed *)
Fixpoint accept_from (maxs : nat) (S : list state) (obs : list sobs) (k : nat) : nat * list state :=
  match obs with
  | [] => (k, S)
  | o :: r => match after_obs maxs S o with
              | [] => (k, S)
              | S' => accept_from maxs S' r (Datatypes.S k)
              end
  end.

Definition sender_accepts (maxs : nat) (obs : list sobs) : bool :=
  Nat.eqb (fst (accept_from maxs [init] obs 0)) (length obs).

(* the monitor, recomputed inside Coq: every submitted stream has exactly one callback in the
   recorded trace (the trace ends with ODone) *)
Definition cb_count (i : nat) (obs : list sobs) : nat :=
  length (filter (fun o => match o with OCb j _ => Nat.eqb i j | _ => false end) obs).
Definition submits (obs : list sobs) : nat :=
  length (filter (fun o => match o with OSubmit => true | _ => false end) obs).
Definition ends_done (obs : list sobs) : bool :=
  match rev obs with ODone :: _ => true | _ => false end.
Definition sender_once (obs : list sobs) : bool :=
  ends_done obs && forallb (fun i => Nat.eqb (cb_count i obs) 1) (seq 0 (submits obs)).

(* ---------------------------------------------------------------------------------------- *)
(* backends *)
Inductive bkind := KCollector | KOtlp | KCloudwatch | KStdout | KNull | KSocket.

Record reqobs := RO {
  ro_kind : bkind;
  ro_n : nat;                    (* batches the request consists of (as seen by the scripted server) *)
  ro_fails : nat;                (* how many of them were never acknowledged *)
  ro_cancel : bool;              (* the flush context was cancelled before or during the request *)
  ro_expect : option bool;       (* KSocket only: Some b = an error must (b = true) / must not be present *)
  ro_cbs : list (list cerr)      (* arguments of the callback invocations, in order *)
}.

Definition count_cerr (k : cerr) (es : list cerr) : nat :=
  length (filter (fun e => match k, e with ENil, ENil | EPost, EPost | ECtx, ECtx => true | _, _ => false end) es).

Definition req_ok (r : reqobs) : bool :=
  match ro_cbs r with
  | [es] =>
      match ro_kind r with
      | KCollector =>
          (* under cancellation [ro_n] is an upper bound of the batches created (collector_length_bound) *)
          if ro_cancel r then Nat.leb (length es) (ro_n r)
          else Nat.eqb (count_cerr EPost es) (ro_fails r) && Nat.eqb (count_cerr ENil es) (ro_n r - ro_fails r)
               && Nat.eqb (length es) (ro_n r)
      | KOtlp =>
          if ro_cancel r then true
          else (* multierr.Errors may split the group's error into several entries: an error is present iff
                  the model says so, and the list is empty iff there is none *)
               Bool.eqb (has_err es)
                 (has_err (hd [] (otlp_callbacks (repeat true (ro_fails r) ++ repeat false (ro_n r - ro_fails r)))))
               && Bool.eqb (has_err es) (negb (Nat.eqb (length es) 0))
      | KCloudwatch =>
          (* the fake client ignores the context: the outcome list is exact also under cancellation *)
          Nat.eqb (count_cerr EPost es + count_cerr ECtx es) (ro_fails r) && Nat.eqb (length es) (ro_n r)
      | KStdout => leqb Bool.eqb (map is_err es) (map is_err (hd [] (stdout_callbacks false)))
      | KNull => match es with [] => true | _ => false end
      | KSocket => match ro_expect r with Some b => Bool.eqb (has_err es) b | None => true end
      end
  | _ => false
  end.

Definition fphase_eqb (a b : fphase) : bool :=
  match a, b with
  | FProcessing, FProcessing | FWaiting, FWaiting | FReturned, FReturned | FPanicked, FPanicked => true
  | _, _ => false
  end.

Fixpoint frun (s : fstate) (ls : list flabel) : option fstate :=
  match ls with
  | [] => Some s
  | l :: r => match fstep s l with Some s' => frun s' r | None => None end
  end.

Fixpoint nodupb (l : list nat) : bool :=
  match l with [] => true | x :: r => negb (existsb (Nat.eqb x) r) && nodupb r end.

(* the recorded flusher trace is a run that ends in a returned flush with every request of the
   last flush called back exactly once *)
Definition flush_ok (ls : list flabel) : bool :=
  match frun finit ls with
  | Some s => fphase_eqb (fph s) FReturned && nodupb (cbs s) && Nat.eqb (length (cbs s)) (issued s)
              && forallb (fun r => Nat.ltb r (issued s)) (cbs s)
  | None => false
  end.

(* ---------------------------------------------------------------------------------------- *)
(* post loops: a request that consists of one batch, never cancelled, against a server that answers
   attempt j of that batch with the j-th entry of a script.  Recorded: the answers in order and the
   reading of the flush context's (mock) clock at every attempt, in ns.  The clock only moves when a
   timer of the loop fires, so the time between two attempts is the sleep and the time since the
   first attempt is what backoff.GetElapsedTime() returns.  The back-off oracle of the run is rebuilt
   from that: Stop iff window <> 0 and elapsed > window (cenkalti/backoff v2: `b.MaxElapsedTime != 0 &&
   b.GetElapsedTime() > b.MaxElapsedTime`),
   otherwise the observed sleep.  The model of the backend's loop, run on these scripts, must make
   the same number of attempts, create the same timers (for newrelic: after Retry-After and the
   window cap have been applied to the oracle's value) and return the result the callback carried. *)
Record loopobs := LO {
  lo_b : backend;
  lo_window : Z;
  lo_answers : list answer;
  lo_times : list Z;
  lo_res : cerr
}.

Fixpoint diffs (l : list Z) : list Z :=
  match l with
  | x :: ((y :: _) as r) => (y - x)%Z :: diffs r
  | _ => []
  end.

Definition lo_oracle (l : loopobs) (i : nat) : option Z :=
  let t j := nth j (lo_times l) 0%Z in
  (* MaxElapsedTime = 0: no window (otlp's "until max_retries"); -1, the documented "retries disabled" of
     datadog / influxdb / newrelic, makes elapsed > window true at the first call *)
  if negb (lo_window l =? 0)%Z && (lo_window l <? t i - t 0%nat)%Z then None else Some (t (S i) - t i)%Z.

Definition cerr_eqb (a b : cerr) : bool :=
  match a, b with ENil, ENil | EPost, EPost | ECtx, ECtx => true | _, _ => false end.

Definition lo_model (l : loopobs) : outcome :=
  post (lo_b l) (fun i => nth i (lo_answers l) ABad) (lo_oracle l) (fun _ => false) (S (length (lo_answers l))).

Definition loop_ok (l : loopobs) : bool :=
  Nat.eqb (length (lo_answers l)) (length (lo_times l)) &&
  match lo_model l with
  | Done r a sl => Nat.eqb a (length (lo_answers l)) && cerr_eqb (cerr_of r) (lo_res l)
                   && leqb Z.eqb sl (diffs (lo_times l))
  | OutOfFuel => false
  end.

Inductive c16case :=
| SenderTrace (maxs : nat) (obs : list sobs)
| BackendFlush (reqs : list reqobs) (trace : list flabel) (loops : list loopobs).

Definition check_case (c : c16case) : bool :=
  match c with
  | SenderTrace maxs obs => sender_accepts maxs obs && sender_once obs
  | BackendFlush reqs tr loops => forallb req_ok reqs && flush_ok tr && forallb loop_ok loops
  end.

Inductive explanation :=
| XSender (consumed : nat) (of : nat) (states : list (phase * option nat * list nat * list err)) (once : bool)
| XBackend (reqs_ok : list bool) (flush : option (fphase * Z * nat * list nat)) (loops : list (bool * outcome)).

Definition explain_case (c : c16case) : explanation :=
  match c with
  | SenderTrace maxs obs =>
      let '(k, sts) := accept_from maxs [init] obs 0 in
      XSender k (length obs)
              (map (fun s => (ph s, cur s, queue s, errs s)) (closure (closure_fuel sts) maxs sts))
              (sender_once obs)
  | BackendFlush reqs tr loops =>
      XBackend (map req_ok reqs)
               (match frun finit tr with Some s => Some (fph s, wg s, issued s, cbs s) | None => None end)
               (map (fun l => (loop_ok l, lo_model l)) loops)
  end.
