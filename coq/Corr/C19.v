(* Correspondence for C19.  One case = one run of a real pipeline assembled as statsd.Server does:
     standalone : DatagramParser -> CloudHandler (scripted cache) -> TagHandler -> BackendHandler
                  with k capturing backends;
     forwarded  : the same head with HttpForwarderHandlerV2 as sink -> real ingestion server ->
                  TagHandler -> BackendHandler with k capturing backends;
     ingest     : protobuf events posted to the real ingestion server -> the same tail;
     server     : the REAL statsd.Server (RunWithCustomSocket: UDP socket, HTTP ingestion server from the
                  viper configuration, default tags, scripted cache as CachedInstances), the same kind of
                  events over both entry points (no trace: the stages are wired inside the server).
   [check_case] (1) computes with the composed model (Model/Events.v part A) the event every
   backend must receive for every input line / message and compares, per backend, the multiset
   of received events field by field (tags as a multiset; a stamped date must lie in the wall
   clock window of the run); (2) decides whether the recorded observable trace of the real
   goroutines is a run of the bookkeeping LTS (part B): the unobservable labels are inserted by a
   fixed scheduler that counts an event (eventWg.Add) and takes tokens as late, and returns tokens and
   decrements as early, as any real run can, and lets each Wait return at the first moment between its
   call and its return at which the simulated counter is zero, so that every real trace is accepted and the result is literally [run (fstep c) finit labels]. *)
From stdpp Require Import list.
From GS Require Export Base.Bytes Base.CorrLib Base.LTS Model.Lexer Model.Series Model.Cloud Model.Tags Model.Events.
From GS Require Model.Wire.

Definition PbE := Wire.MkPbE.

Inductive mode := MStandalone | MForwarded | MIngest | MServer.

(* observable actions, in the order the harness saw them (one mutex-protected log) *)
Inductive obs :=
| OAccepted (es : list N)      (* the parser's DoneFunc of a datagram / the 202 of a request: DispatchEvent has
                                  returned for the events of these lines *)
| OEnter (e : N) (rel : bool)  (* a pass-through handler in front of the TagHandler sees DispatchEvent(e);
                                  rel = called from updateAndDispatchEvents *)
| OEntered (e : N)             (* ... and that call returned *)
| OCall (e : N) (b : nat)      (* backend b: SendEvent(e) entered *)
| ORet (e : N) (b : nat)       (* ... returns *)
| OCancel                      (* the harness cancelled the dispatch contexts *)
| OWaitCall | OWaitRet.        (* WaitForEvents on the head of the pipeline *)

Record c19case := C19 {
  k_mode : mode;
  k_ns : str;
  k_static : list str;                      (* static tags of the receiving (standalone / forwarder) side *)
  k_staticS : list str;                     (* static tags of the ingesting server (forwarded, ingest) *)
  k_nb : nat; k_cap : nat;
  k_senders : list (str * option instance); (* sender address, the cloud stage's answer for it *)
  k_lines : list (nat * str);               (* sender index, line *)
  k_msgs : list Wire.pb_event;              (* ingest: the posted messages *)
  k_tlo : Z; k_thi : Z;                     (* time.Now().Unix() before and after the run *)
  k_recv : list (list cevent);              (* per backend: the SendEvent arguments *)
  k_trace : list obs
}.

(* ---- (1) fields ------------------------------------------------------------------------- *)

Definition handler_of (static : list str) : option tag_handler :=
  match new_tag_handler static [] with Done th => Some th | _ => None end.

Definition no_pf (_ : str) : pfres := PFErr.   (* event lines never reach strconv *)

(* the model's event for every line / message; the parser's time.Now().Unix() is modelled as -1
   (no line can carry that date), recognised again in [ev_match] *)
Definition stamp : Z := (-1)%Z.
Definition expected (c : c19case) : option (list delivery) :=
  match handler_of (k_static c), handler_of (k_staticS c) with
  | Some th, Some thS =>
      match k_mode c with
      | MIngest => Some (map (ingested thS None) (k_msgs c))
      | m =>
          Some (map (λ sl : nat * str,
                  match k_senders c !! sl.1 with
                  | Some (ip, io) =>
                      match m with
                      | MForwarded => forwarded no_pf (k_ns c) th stamp ip io thS None sl.2
                      | _ => standalone no_pf (k_ns c) th stamp ip io sl.2
                      end
                  | None => Crash
                  end) (k_lines c)
                ++ match m with
                   | MServer =>   (* the same server's cloud and tag stage, keyed on the message's Hostname *)
                       map (λ p, ingested th
                                   (match List.find (λ s : str * option instance, str_eqb s.1 (Wire.pe_hostname p))
                                                    (k_senders c) with
                                    | Some (_, io) => io
                                    | None => None
                                    end) p) (k_msgs c)
                   | _ => []
                   end)
      end
  | _, _ => None
  end.

Definition delivered_events (ds : list delivery) : option (list cevent) :=
  foldr (λ d acc, match d, acc with
                  | Delivered e, Some l => Some (e :: l)
                  | NoEvent, Some l => Some l
                  | _, _ => None
                  end) (Some []) ds.

Definition ev_match (stamping : bool) (tlo thi : Z) (x g : cevent) : bool :=
  str_eqb (ev_title x) (ev_title g) && str_eqb (ev_text x) (ev_text g)
  && (if stamping && (ev_date x =? stamp)%Z then (tlo <=? ev_date g)%Z && (ev_date g <=? thi)%Z else (ev_date x =? ev_date g)%Z)
  && str_eqb (ev_agg x) (ev_agg g) && str_eqb (ev_stn x) (ev_stn g)
  && list_eqb str_eqb (sort_tags (ev_tags x)) (sort_tags (ev_tags g))
  && str_eqb (ev_src x) (ev_src g) && (ev_prio x =? ev_prio g)%Z && (ev_alert x =? ev_alert g)%Z.

(* remove the first received event that matches *)
Section Match.
  Variable stamping : bool.
  Variables tlo thi : Z.
  Fixpoint take_match (x : cevent) (got : list cevent) : option (list cevent) :=
    match got with
    | [] => None
    | g :: r => if ev_match stamping tlo thi x g then Some r else cons g <$> take_match x r
    end.
  Fixpoint same_multiset (want got : list cevent) : bool :=
    match want with
    | [] => match got with [] => true | _ => false end
    | x :: r => match take_match x got with Some got' => same_multiset r got' | None => false end
    end.
  (* after a cancellation: nothing twice, nothing that was not expected *)
  Fixpoint sub_multiset (want got : list cevent) : bool :=
    match want with
    | [] => match got with [] => true | _ => false end
    | x :: r => match take_match x got with Some got' => sub_multiset r got' | None => sub_multiset r got end
    end.
End Match.

Definition cancelled (c : c19case) : bool :=
  existsb (λ o, match o with OCancel => true | _ => false end) (k_trace c).

Definition fields_ok (c : c19case) : bool :=
  match expected c with
  | Some ds =>
      match delivered_events ds with
      | Some want =>
          (length (k_recv c) =? k_nb c)%nat
          && forallb ((if cancelled c then sub_multiset else same_multiset)
                        (match k_mode c with MIngest => false | _ => true end)
                        (k_tlo c) (k_thi c) want) (k_recv c)
      | None => false
      end
  | None => false
  end.

(* ---- (2) the trace ---------------------------------------------------------------------- *)

Fixpoint findi {A} (p : A → bool) (l : list A) : option nat :=
  match l with
  | [] => None
  | x :: r => if p x then Some 0%nat else S <$> findi p r
  end.

Definition phase_eqb (a b : phase) : bool :=
  match a, b with
  | PSpawned, PSpawned | PCalling, PCalling | PSent, PSent | PReleased, PReleased => true
  | _, _ => false
  end.
Definition find_disp (st : fstate) (e : N) : option nat := findi (λ d, (d_ev d =? e)%N) (disp st).
Definition find_go (st : fstate) (e : N) (b : nat) (ph : phase) : option nat :=
  findi (λ g, (g_ev g =? e)%N && (g_b g =? b)%nat && phase_eqb (g_ph g) ph) (gos st).

Section Sched.
  Variable c : fcfg.
  Variable ncalls : N → nat.     (* how many SendEvent calls the whole trace shows for an event *)

  Definition doo (st : fstate) (ls : list flabel) : option fstate := run (fstep c) st ls.

  (* the dispatcher of e hands out tokens until it has reached backend index [upto] (exclusive) *)
  Fixpoint spawn_to (fuel : nat) (e : N) (upto : nat) (st : fstate) : option fstate :=
    match find_disp st e with
    | None => Some st
    | Some d =>
        match disp st !! d with
        | Some x =>
            if (upto <=? d_k x)%nat then Some st
            else match fuel with
                 | O => None
                 | S f => match fstep c st (Spawn d) with
                          | Some st' => spawn_to f e upto st'
                          | None => None
                          end
                 end
        | None => None
        end
    end.

  (* [s_pend]: DispatchEvent calls seen entering the tail whose eventWg.Add has not been placed yet (it
     is placed as late as the trace allows: at the event's first SendEvent or at the call's return);
     [s_w1] / [s_w2]: ch.wg.Wait() / bh.eventWg.Wait() of the WaitForEvents call in progress have returned *)
  Record sim := Sim { s_st : fstate; s_cancel : bool; s_waiting : bool; s_w1 : bool; s_w2 : bool;
                      s_pend : list (N * bool) }.

  Definition with_st (s : sim) (st : fstate) : sim :=
    Sim st (s_cancel s) (s_waiting s) (s_w1 s) (s_w2 s) (s_pend s).

  (* the two Waits return as soon as they can after WaitForEvents was called: the real call returns
     between its OWaitCall and OWaitRet, at a moment when the real counters - never below the
     simulated ones - are zero *)
  Definition try_w (s : sim) : sim :=
    let s1 :=
      if s_waiting s && negb (s_w1 s) then
        match fstep c (s_st s) WaitCloud with
        | Some st => Sim st (s_cancel s) true true false (s_pend s)
        | None => s
        end
      else s in
    if s_waiting s1 && s_w1 s1 && negb (s_w2 s1) then
      match fstep c (s_st s1) WaitBackend with
      | Some st => Sim st (s_cancel s1) true true true (s_pend s1)
      | None => s1
      end
    else s1.

  Definition park_if_new (e : N) (st : fstate) : option fstate :=
    if existsb (N.eqb e) (arrived st) then Some st else fstep c st (Arrive e false).

  Fixpoint take_pend (e : N) (l : list (N * bool)) : option (bool * list (N * bool)) :=
    match l with
    | [] => None
    | (e', rel) :: r =>
        if (e' =? e)%N then Some (rel, r)
        else match take_pend e r with Some (x, r') => Some (x, (e', rel) :: r') | None => None end
    end.

  (* place the pending entry of e, if any: the event enters the backend handler (eventWg.Add) *)
  Definition place (e : N) (s : sim) : option sim :=
    match take_pend e (s_pend s) with
    | None => Some s
    | Some (rel, rest) =>
        let st := s_st s in
        (λ st', Sim st' (s_cancel s) (s_waiting s) (s_w1 s) (s_w2 s) rest) <$>
        (if rel then doo st [Release [e]; RelNext (length (rels st)); RelDone (length (rels st))]
         else fstep c st (Arrive e true))
    end.

  Definition sched (s : sim) (o : obs) : option sim :=
    let st := s_st s in
    match o with
    | OAccepted es =>
        with_st s <$> foldl (λ acc e, acc ≫= park_if_new e) (Some st) es
    | OEnter e rel =>
        st1 ← (if rel then park_if_new e st else Some st);
        Some (Sim st1 (s_cancel s) (s_waiting s) (s_w1 s) (s_w2 s) (s_pend s ++ [(e, rel)]))
    | OEntered e =>
        s1 ← place e s;
        st1 ← spawn_to (nb c) e (Nat.min (nb c) (ncalls e)) (s_st s1);
        match find_disp st1 e with
        | None => Some (with_st s1 st1)
        | Some d => if s_cancel s1 then with_st s1 <$> fstep c st1 (Cancel d) else None
        end
    | OCall e b =>
        s1 ← place e s;
        st1 ← spawn_to (nb c) e (S b) (s_st s1);
        g ← find_go st1 e b PSpawned;
        with_st s1 <$> fstep c st1 (SendCall g)
    | ORet e b =>
        g ← find_go st e b PCalling;
        with_st s <$> doo st [SendRet g; SemRelease g; WgDone g]
    | OCancel => Some (Sim st true (s_waiting s) (s_w1 s) (s_w2 s) (s_pend s))
    | OWaitCall => Some (Sim st (s_cancel s) true false false (s_pend s))
    | OWaitRet =>
        if s_w2 s then Some (Sim st (s_cancel s) false false false (s_pend s)) else None
    end.

  Fixpoint replay (s : sim) (tr : list obs) : option sim :=
    match tr with
    | [] => Some s
    | o :: r => match sched s o with Some s' => replay (try_w s') r | None => None end
    end.
End Sched.

Definition count_calls (tr : list obs) (e : N) : nat :=
  length (List.filter (λ o, match o with OCall e' _ => (e' =? e)%N | _ => false end) tr).

Definition final_ok (st : fstate) : bool :=
  negb (panicked st)
  && match parked st, rels st, disp st, gos st with [], [], [], [] => true | _, _, _, _ => false end.

Definition replay_case (c : c19case) : option sim :=
  replay (FCfg (k_nb c) (k_cap c)) (count_calls (k_trace c)) (Sim finit false false false false []) (k_trace c).

Definition trace_ok (c : c19case) : bool :=
  match replay_case c with
  | Some s => final_ok (s_st s) && match s_pend s with [] => true | _ => false end
  | None => false
  end.

Definition check_case (c : c19case) : bool := fields_ok c && trace_ok c.

(* for a failing case: what the model expected, and how far the trace got *)
Definition explain_case (c : c19case) :=
  (option_map delivered_events (expected c), fields_ok c,
   option_map (λ s, let st := s_st s in (wg st, cwg st, sem st, length (disp st), length (gos st), sent st)) (replay_case c)).
