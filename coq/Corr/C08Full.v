(* Correspondence for C08, stream `full`: a history of ReceiveMap | Flush(dt) | Reset(now) on one
   real MetricAggregator, and after EVERY operation the complete aggregate map as Process shows
   it (all four types, every field, timestamps, sources, tags, percentiles, histograms).
   [check_full] runs Model/Aggregator.v in lock-step and compares after every operation:
     counters   Value, Timestamp, Source, Tags exactly; PerSecond within 1e-9;
     gauges, sets   exactly (through the MetricMap dump of Corr/MMLib.v);
     timers     Timestamp, Source, Tags, the multiset of value bit patterns, the values in slice
                order, Count, SampledCount, Min, Max, Median, Sum, SumSquares, percentile counts /
                boundaries / sums exactly (the stream is in the exact float regime, DESIGN 3.1);
                Mean, percentile means, PerSecond, StdDev^2 within 1e-9; Percentiles per name in
                order of appending (a flush without Reset appends a second block; inside a block
                Go's order is the map's); Histogram as a multiset of (bound, count).
   A model [Panic] fails the case (the harness has its own recover() monitor). *)
From stdpp Require Import gmap.
From Coq Require Import QArith Qcanon.
From GS Require Export Corr.MMLib Corr.C08Single Model.Aggregator.
Local Open Scope Z_scope.

Inductive fop := FRecv (ds : list datapoint) | FFlush (dt : Z) | FReset (now : Z).

Record cobs := CObs { co_name : str; co_key : str; co_val : Z; co_persec : Z; co_ts : Z; co_src : str; co_tags : list str }.
Record tobs := TObs { to_name : str; to_key : str; to_obs : obs; to_ts : Z; to_src : str; to_tags : list str }.
Record dump := Dump { d_counters : list cobs; d_timers : list tobs; d_rest : list entry }.

Record c08full := FullCase {
  f_pcts : list Z; f_mask : pmask; f_limit : Z;
  f_exp_counter : Z; f_exp_gauge : Z; f_exp_set : Z; f_exp_timer : Z;
  f_table : list (str * option bound);
  f_steps : list (fop * dump)
}.

Definition acfg_of (c : c08full) : aconfig :=
  MkACfg (f_pcts c) (f_mask c) (f_limit c) (f_exp_counter c) (f_exp_gauge c) (f_exp_set c) (f_exp_timer c).

Definition aop_of (o : fop) : aop :=
  match o with
  | FRecv ds => ARecv (MetricMap.receive_all empty_map ds)
  | FFlush dt => AFlush dt
  | FReset now => AReset now
  end.

Definition step_model (c : c08full) (a : agg) (o : fop) : outcome agg :=
  astep (oracle (f_table c)) go_rank (acfg_of c) a (aop_of o).

(* ---- comparisons ---- *)

Fixpoint zinsert (x : Z) (l : list Z) : list Z :=
  match l with [] => [x] | y :: r => if x <=? y then x :: l else y :: zinsert x r end.
Definition zsort (l : list Z) : list Z := foldr zinsert [] l.

Definition counter_matches (a : agg) (o : cobs) : bool :=
  match a_counters a !! (co_name o, co_key o) with
  | None => false
  | Some c =>
      (ac_val c =? co_val o) && near (qabs (ac_persec c)) (ac_persec c) (co_persec o)
      && (ac_ts c =? co_ts o) && str_eqb (ac_src c) (co_src o) && strs_eqb (ac_tags c) (co_tags o)
  end.

Definition group {V} (name : str) (l : list (str * V)) : list V :=
  snd <$> List.filter (λ e, str_eqb (fst e) name) l.

Fixpoint forall2b {A B} (f : A -> B -> bool) (l : list A) (l' : list B) : bool :=
  match l, l' with
  | [], [] => true
  | a :: r, b :: r' => if f a b then forall2b f r r' else false
  | _, _ => false
  end.

Definition pct_val_ok (sc : Qc * Qc * Qc) (name : str) (m : Qc) (o : Z) : bool :=
  let '(smax, s1, s2) := sc in
  match kind_of name with
  | 0%N | 1%N | 3%N | 4%N => same m o
  | 2%N => near (smax + qabs m)%Qc m o
  | _ => false
  end.

Definition timer_matches (a : agg) (o : tobs) : bool :=
  match a_timers a !! (to_name o, to_key o) with
  | None => false
  | Some at' =>
      let t := at_t at' in
      let ob := to_obs o in
      let xs := t_values t in
      let smax := scale_max xs in
      let sc := (smax, scale1 xs, scale2 xs) in
      if (at_ts at' =? to_ts o) && str_eqb (at_src at') (to_src o) && strs_eqb (Stats.t_tags t) (to_tags o) then
      if forallb fin (o_values ob) && list_eqb qeq xs (Qc_of_bits <$> o_values ob)
         && zlist_eqb (zsort (at_bits at')) (zsort (o_values ob)) then
      if (t_count t =? o_count ob) && same (t_sampled t) (o_sampled ob)
         && near (qabs (t_persec t)) (t_persec t) (o_persec ob)
         && near (smax + qabs (t_mean t))%Qc (t_mean t) (o_mean ob)
         && same (t_median t) (o_median ob) && same (t_min t) (o_min ob) && same (t_max t) (o_max ob)
         && fin (o_stddev ob)
         && var_close (length xs) smax (t_var t) (Qc_of_bits (o_stddev ob) * Qc_of_bits (o_stddev ob))%Qc
         && same (t_sum t) (o_sum ob) && same (t_sumsq t) (o_sumsq ob) then
      if (length (o_pcts ob) =? length (t_pcts t))%nat
         && forallb (λ e, forall2b (pct_val_ok sc (fst e)) (group (fst e) (t_pcts t)) (group (fst e) (o_pcts ob)))
                    (t_pcts t) then
        hist_ok (t_hist t) (o_hist ob)
      else false else false else false else false
  end.

Definition dump_ok (a : agg) (d : dump) : bool :=
  (size (a_counters a) =? length (d_counters d))%nat && forallb (counter_matches a) (d_counters d)
  && (size (a_timers a) =? length (d_timers d))%nat && forallb (timer_matches a) (d_timers d)
  && dump_matches (d_rest d) (MkMap ∅ ∅ (a_gauges a) (a_sets a)).

(* index of the first operation after which model and implementation differ (None = agree) *)
Fixpoint first_bad (c : c08full) (a : agg) (i : nat) (steps : list (fop * dump)) : option nat :=
  match steps with
  | [] => None
  | (o, d) :: r =>
      match step_model c a o with
      | Panic => Some i
      | Ok a' => if dump_ok a' d then first_bad c a' (S i) r else Some i
      end
  end.

Definition check_full (c : c08full) : bool :=
  match first_bad c agg_empty 0 (f_steps c) with None => true | Some _ => false end.

(* for a failing case: the failing step and the model's aggregate (as a MetricMap) after it *)
Definition explain_full (c : c08full) : option nat * list entry :=
  let i := first_bad c agg_empty 0 (f_steps c) in
  (i, match i with
      | None => []
      | Some n => match foldM (step_model c) agg_empty (fst <$> take (S n) (f_steps c)) with
                  | Ok a => entries (to_mmap a)
                  | Panic => []
                  end
      end).
