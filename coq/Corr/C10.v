(* Correspondence for C10: a real TagHandler (static tags, filters built with
   gostatsd.NewStringMatch) in front of a capturing handler is given one metric map and some
   events; the model is built from the same configuration and run on the same map.

   Projection.  Go ranges over its maps in an unspecified order, so wherever the result depends
   on that order the observed value only has to be one of the candidates the order can produce:
   - timer values are compared as sorted lists;
   - a gauge must carry the model's (newest) timestamp and the value of one of the colliding
     gauges with that timestamp;
   - source and tags of an output series must be those of one of the survivors that landed on
     its key (they differ only when FormatTagsKey is not injective on them).
   Everything else (series present, counter totals, sampled counts, set members, timestamps,
   whether the next handler was called, event tags as sorted lists) is compared exactly.
   The regexp oracle is a table (pattern -> None if it does not compile, else subject -> matched);
   a lookup that misses the table fails the case.
   Config stream: the real handler is built by NewTagHandlerFromViper from TOML text (through viper), the
   model by [raws_of_config] from the same configuration as a tree ([k_cfg]); [handler_of_config] is
   [build_handler] of [raws_of_config], which is what [case_handler] computes. *)
From stdpp Require Import gmap.
From Coq Require Import QArith Qcanon.
From GS Require Export Corr.MMLib Model.Tags.

Record c10case := C10 {
  k_retab : list (str * option (list (str * bool)));
  k_static : list str;
  k_filters : list raw_filter;
  k_cfg : option tag_config;    (* Some: the handler is built from configuration text (config stream) and k_filters is unused *)
  k_input : list entry;
  k_events : list (list str);
  k_ctor_panic : bool;          (* NewStringMatch / NewTagHandler panicked *)
  k_called : bool;              (* the next handler's DispatchMetricMap was called *)
  k_out : list entry;
  k_events_out : list (list str);
  (* concurrent stream: further (input dump, next handler called, output dump) observations of the SAME
     handler, made by several goroutines dispatching through it at the same time; the output of a
     dispatch is a function of the handler configuration and the map only, so each is checked like
     the first *)
  k_extra : list (list entry * bool * list entry)
}.

Definition tab_ok (tab : list (str * option (list (str * bool)))) (p : str) : bool :=
  match assoc_str p tab with Some (Some _) => true | _ => false end.
Definition tab_match (tab : list (str * option (list (str * bool)))) (p s : str) : bool :=
  match assoc_str p tab with
  | Some (Some t) => match assoc_str s t with Some b => b | None => false end
  | _ => false
  end.

(* the regular expression a pattern string asks for (same parse as new_string_match) *)
Definition regex_of (s : str) : option str :=
  let s := if str_has_prefix [c_bang] s then drop 1 s else s in
  if str_has_prefix regex_marker s then Some (drop 6 s) else None.

Definition raw_patterns (r : raw_filter) : list str :=
  r_match_metrics r ++ r_exclude_metrics r ++ r_match_tags r ++ r_drop_tags r.

Definition entry_subjects (e : entry) : list str :=
  match e with
  | EC n _ _ _ _ tg | EG n _ _ _ _ tg | ET n _ _ _ _ _ _ tg | ES n _ _ _ _ tg => n :: tg
  end.

(* the pattern strings of the case: given directly, or what the configuration yields *)
Definition case_raws (c : c10case) : list raw_filter :=
  match k_cfg c with Some cfg => raws_of_config cfg | None => k_filters c end.

Definition case_handler (c : c10case) : res tag_handler :=
  build_handler (tab_ok (k_retab c)) (k_static c) (case_raws c).

Definition oracle_complete (c : c10case) : bool :=
  let pats := omap regex_of (concat (map raw_patterns (case_raws c))) in
  let subjects := concat (map entry_subjects (k_input c ++ concat (map (λ x, x.1.1) (k_extra c)))) in
  forallb (λ p, match assoc_str p (k_retab c) with
                | None => false
                | Some None => true
                | Some (Some t) => forallb (λ s, match assoc_str s t with Some _ => true | None => false end) subjects
                end) pats.

Fixpoint zinsert (x : Z) (l : list Z) : list Z :=
  match l with
  | [] => [x]
  | y :: r => if (x <=? y)%Z then x :: l else y :: zinsert x r
  end.
Definition zsort (l : list Z) : list Z := fold_right zinsert [] l.

Definition qc_eqb (a b : Qc) : bool := Qeq_bool (this a) (this b).

Section Compare.
  Variable re : str → str → bool.
  Variable th : tag_handler.
  Variable m : mmap.     (* input *)

  Definition survivors {V} (rk : skey * V → res (option (skey * V))) (l : list (skey * V)) : list (skey * V) :=
    match kept rk l with Done ks => ks | _ => [] end.

  Definition same_series (s1 : str) (t1 : list str) (s2 : str) (t2 : list str) : bool :=
    str_eqb s1 s2 && strs_eqb t1 t2.

  Definition counter_ok (k : skey) (mo ob : counter) : bool :=
    let grp := group k (survivors (rekey_counter re th) (map_to_list (counters m))) in
    (c_val mo =? c_val ob)%Z && (c_ts mo =? c_ts ob)%Z
    && existsb (λ c, same_series (c_src c) (c_tags c) (c_src ob) (c_tags ob)) grp.
  Definition gauge_ok (k : skey) (mo ob : gauge) : bool :=
    let grp := group k (survivors (rekey_gauge re th) (map_to_list (gauges m))) in
    (g_ts mo =? g_ts ob)%Z
    && existsb (λ g, (g_ts g =? g_ts ob)%Z && (g_val g =? g_val ob)%Z) grp
    && existsb (λ g, same_series (g_src g) (g_tags g) (g_src ob) (g_tags ob)) grp.
  Definition timer_ok (k : skey) (mo ob : timer) : bool :=
    let grp := group k (survivors (rekey_timer re th) (map_to_list (timers m))) in
    zlist_eqb (zsort (t_vals mo)) (zsort (t_vals ob)) && qc_eqb (t_samp mo) (t_samp ob)
    && (t_ts mo =? t_ts ob)%Z
    && existsb (λ t, same_series (t_src t) (t_tags t) (t_src ob) (t_tags ob)) grp.
  Definition set_ok (k : skey) (mo ob : mset) : bool :=
    let grp := group k (survivors (rekey_set re th) (map_to_list (sets m))) in
    strs_eqb (elements (s_vals mo)) (elements (s_vals ob)) && (s_ts mo =? s_ts ob)%Z
    && existsb (λ s, same_series (s_src s) (s_tags s) (s_src ob) (s_tags ob)) grp.

  Definition gmap_ok {V} (ok : skey → V → V → bool) (mo ob : gmap skey V) : bool :=
    (length (map_to_list mo) =? length (map_to_list ob))%nat
    && forallb (λ kv, match ob !! kv.1 with Some o => ok kv.1 kv.2 o | None => false end) (map_to_list mo).

  Definition out_ok (mo ob : mmap) : bool :=
    gmap_ok counter_ok (counters mo) (counters ob) && gmap_ok gauge_ok (gauges mo) (gauges ob)
    && gmap_ok timer_ok (timers mo) (timers ob) && gmap_ok set_ok (sets mo) (sets ob).
End Compare.

Definition events_ok (re : str → str → bool) (th : tag_handler) (ins outs : list (list str)) : bool :=
  (length ins =? length outs)%nat
  && forallb (λ io, match dispatch_event th io.1 with
                    | Done r => strs_eqb (sort_tags r) (sort_tags io.2)
                    | _ => false
                    end) (combine ins outs).

Definition map_ok (re : str → str → bool) (th : tag_handler) (input : list entry) (called : bool) (out : list entry) : bool :=
  let m := map_of_entries input in
  let ob := map_of_entries out in
  (length input =? length (entries m))%nat
  && (length out =? length (entries ob))%nat
  && match dispatch re th m with
     | Done None => negb called && (length out =? 0)%nat
     | Done (Some mo) => called && out_ok re th m mo ob
     | _ => false
     end.

Definition check_case (c : c10case) : bool :=
  let re := tab_match (k_retab c) in
  oracle_complete c &&
  match case_handler c with
  | Done th =>
      negb (k_ctor_panic c)
      && events_ok re th (k_events c) (k_events_out c)
      && map_ok re th (k_input c) (k_called c) (k_out c)
      && forallb (λ x, map_ok re th x.1.1 x.1.2 x.2) (k_extra c)
  | GoPanic => k_ctor_panic c
  | OutOfFuel => false
  end.

(* what the model computed: construction outcome (0 ok, 1 panic, 2 out of fuel), whether the
   next handler is called, the output map, the event tags; and for the concurrent stream the
   positions in k_extra of the observations that are not the model's output *)
Definition explain_case (c : c10case) : nat * bool * list entry * list (list str) * list N :=
  let re := tab_match (k_retab c) in
  match case_handler c with
  | Done th =>
      let evs := map (λ t, match dispatch_event th t with Done r => sort_tags r | _ => [] end) (k_events c) in
      let badx := mismatches (λ x, map_ok re th x.1.1 x.1.2 x.2) (k_extra c) in
      match dispatch re th (map_of_entries (k_input c)) with
      | Done (Some mo) => (0%nat, true, entries mo, evs, badx)
      | Done None => (0%nat, false, [], evs, badx)
      | _ => (3%nat, false, [], evs, badx)
      end
  | GoPanic => (1%nat, false, [], [], [])
  | OutOfFuel => (2%nat, false, [], [], [])
  end.
