(* Correspondence for C15.  Three kinds of case:

   SplitCase  the real MetricMap.SplitByTags against Model.Forwarder.split_by_tags (maps compared
              through their canonical dumps, parts matched by key).
   ConsCase   the real MetricConsolidator with a sink the harness owns: concurrent ReceiveMetricMap
              callers, Flush called directly or by Run's ticker (mock clock).  Observed: the trace of
              dispatch call / return and flush marks, and the batches found in every emission.
   FwdCase    the real HttpForwarderHandlerV2 + its consolidator against a scripted upstream.  Observed:
              the same trace plus every attempt (start, end with outcome) on every distinct body, the
              decoded items and the headers of each body, and the five counters at rest.

   Take / Put / DrainTake happen inside ReceiveMetricMap / Drain and cannot be seen; what the LTS of
   Model/Consolidator.v allows an observer to see is characterised by Props.C15_flush_contains: a batch
   is carried by the first emission after its Put, i.e. flush f with  DrainEmit (f-1) < Put < DrainEmit f.
   With call < Take < Put < return, and the harness marks ready f < DrainEmit f < done f, this gives
   [window_ok] below (call < done f, and ready (f-1) < return), which Coq evaluates on the trace: for the
   consolidator stream on the observed emissions, for the forwarder stream (where emissions are not
   visible) as the existence of a flush index that fits every item of a request body.  Requests are
   replayed label by label through Model.Forwarder.post_step (Props.C15_retry_discipline) and the
   counters compared with the sum of the replayed requests. *)
From stdpp Require Import gmap.
From GS Require Export Base.LTS Corr.MMLib Model.Wire Model.PbWire Model.Consolidator Model.Forwarder.
Local Open Scope nat_scope.

Inductive ev :=
| ECall (b : nat) | ERet (b : nat)          (* DispatchMetricMap / ReceiveMetricMap of batch b *)
| EReady (f : nat)                          (* logged before flush f can have emitted *)
| EDone (f : nat)                           (* logged after flush f has emitted *)
| EAttS (body : nat)                        (* upstream received an attempt for this body *)
| EAttE (body : nat) (kind : N).
(* kinds: 0 2xx | 1 4xx | 2 5xx | 3 reset | 4 slow 2xx | 5 slow 5xx | 6 no answer (client timeout)
   | 7 2xx, response body shorter than its Content-Length | 8 2xx, reset after the headers | 9 2xx, body stalls.
   The outcome of an attempt is its status (post: `resp.StatusCode`; the response body is drained best-effort,
   errors ignored): 7-9 are successes. *)

Definition kind_outcome (k : N) : outcome :=
  if (N.eqb k 0 || N.eqb k 4 || N.eqb k 7 || N.eqb k 8 || N.eqb k 9)%bool then Ok2xx else Failed.

Fixpoint pos_where (p : ev -> bool) (l : list ev) (i : nat) : option nat :=
  match l with
  | [] => None
  | e :: r => if p e then Some i else pos_where p r (S i)
  end.
Definition is_call b e := match e with ECall b' => b =? b' | _ => false end.
Definition is_ret b e := match e with ERet b' => b =? b' | _ => false end.
Definition is_ready f e := match e with EReady f' => f =? f' | _ => false end.
Definition is_done f e := match e with EDone f' => f =? f' | _ => false end.
Definition is_atts i e := match e with EAttS i' => i =? i' | _ => false end.

Definition lt_opt (a b : option nat) : bool :=   (* a missing right-hand mark is "never" *)
  match a, b with Some x, Some y => x <? y | Some _, None => true | None, _ => false end.

(* may batch b have been carried by flush f (1-based)? *)
Definition window_ok (evs : list ev) (b f : nat) : bool :=
  lt_opt (pos_where (is_call b) evs 0) (pos_where (is_done f) evs 0)
  && match f with
     | 0 => false
     | 1 => true
     | S f' => lt_opt (pos_where (is_ready f') evs 0) (pos_where (is_ret b) evs 0)
     end.

Definition count_nat (x : nat) (l : list nat) : nat := length (List.filter (Nat.eqb x) l).

(* wi_kind: 1 counter (wi_pay = the bit the item sets in the counter's value), 2 timer (wi_pay = bits
   of its value), 3 gauge (bits of its value), 4 set (wi_member = its member) *)
Record witem := WItem { wi_batch : nat; wi_gauge : bool; wi_item : item; wi_kind : N; wi_pay : Z; wi_member : str }.

Record body := Body {
  bd_items : list nat;                 (* ids of the items decoded from the body *)
  bd_enc : str;                        (* Content-Encoding the handler was configured to send *)
  bd_headers : list (str * str);       (* headers received (lower-case names), transport-generated ones removed *)
  bd_raw : option str;                 (* the request body itself when it was sent with Content-Encoding: identity *)
  bd_stop_ub : Z                       (* for a body that was given up: upper bound (ns) on the time from the creation of
                                          its request (>= the last dispatch call of any of its items) to the handler's
                                          "giving up" log entry, i.e. on the elapsed time NextBackOff can have seen *)
}.

Inductive c15case :=
| SplitCase (dps : list datapoint) (names : list str) (obs : list (str * list entry))
| ConsCase (k : nat) (batches : nat) (evs : list ev) (emitted : list (nat * list nat)) (* maps in the emission, batches found *)
| FwdCase (window : Z) (cflag : bool) (ctype : str) (xheaders : list (str * str)) (dynraw : list str) (utf8 : list (str * bool))
          (items : list witem) (marked : bool) (nflush : nat) (evs : list ev) (bodies : list body)
          (ctr : counters) (notified : option nat).   (* NotifyFlush calls seen by the coordinator (manual flushes only) *)

Inductive why :=
| WSplit (model : list (str * list entry))
| WEmitSize (f : nat) | WBatchCount (b n : nat) | WWindow (b f : nat)
| WUnknownItem (body i : nat) | WKey (body : nat) (keys : list str) | WHeaders (body : nat) (model : list (str * option str))
| WRetry (body : nat) (outs : list outcome) | WOverlap (body : nat) | WEarlyStop (body : nat) (window elapsed_ub : Z)
| WItemCount (i n : nat) | WInvalidPresent (i : nat) | WNoFlush (body : nat)
| WCounters (model : counters) (invalid_lo invalid_hi : nat)
| WNotified (model : nat)
| WUtf8 (s : str) | WEncoding (body : nat) (model : str) | WDecode (body : nat) (model : option (list nat)).

(* ---- SplitCase ---- *)
Definition check_split (dps : list datapoint) (names : list str) (obs : list (str * list entry)) : bool :=
  let parts := split_by_tags names (receive_all empty_map dps) in
  (length obs =? length parts)
  && forallb (λ kp, match assoc_str kp.1 obs with Some es => dump_matches es kp.2 | None => false end) parts.

(* ---- ConsCase ---- *)
Definition cons_problems (k nb : nat) (evs : list ev) (emitted : list (nat * list nat)) : list why :=
  let fl := imap (λ i e, (S i, e)) emitted in
  let all := concat (snd <$> emitted) in
  flat_map (λ fe, if fe.2.1 =? k then [] else [WEmitSize fe.1]) fl
  ++ flat_map (λ b, let n := count_nat b all in if n =? 1 then [] else [WBatchCount b n]) (seq 0 nb)
  ++ flat_map (λ fe, flat_map (λ b, if window_ok evs b fe.1 then [] else [WWindow b fe.1]) fe.2.2) fl.

(* ---- FwdCase ---- *)
Definition utf8_of (t : list (str * bool)) (s : str) : bool :=
  match assoc_str s t with Some b => b | None => true end.

Definition find_item (items : list witem) (i : nat) : option witem :=
  List.find (λ w, it_id (wi_item w) =? i) items.

Definition outs_of (evs : list ev) (i : nat) : list outcome :=
  flat_map (λ e, match e with EAttE i' k => if i =? i' then [kind_outcome k] else [] | _ => [] end) evs.

(* attempts on one body never overlap *)
Fixpoint overlap_free (i : nat) (evs : list ev) (busy : bool) : bool :=
  match evs with
  | [] => true
  | EAttS i' :: r => if i =? i' then negb busy && overlap_free i r true else overlap_free i r busy
  | EAttE i' _ :: r => if i =? i' then busy && overlap_free i r false else overlap_free i r busy
  | _ :: r => overlap_free i r busy
  end.

Definition replay (outs : list outcome) : option pstate :=
  run (post_step false) pinit (Construct true :: attempts_labels outs).

Definition body_flush_ok (items : list witem) (evs : list ev) (nflush : nat) (i : nat) (bd : body) : bool :=
  existsb (λ f, lt_opt (pos_where (is_ready f) evs 0) (pos_where (is_atts i) evs 0)
                && forallb (λ x, match find_item items x with
                                 | Some w => window_ok evs (wi_batch w) f
                                 | None => true end) (bd_items bd))
          (seq 1 nflush).

(* the items the Gallina protobuf decoder (PbWire.pb_unmarshal, Wire.from_pb) finds in a raw body *)
Definition item_in (m : mmap) (w : witem) : bool :=
  let key := (it_name (wi_item w), it_key (wi_item w)) in
  match wi_kind w with
  | 1%N => match MetricMap.counters m !! key with Some c => Z.testbit (c_val c) (wi_pay w) | None => false end
  | 2%N => match timers m !! key with Some t => existsb (Z.eqb (wi_pay w)) (t_vals t) | None => false end
  | 3%N => match gauges m !! key with Some g => (g_val g =? wi_pay w)%Z | None => false end
  | _ => match sets m !! key with Some st => bool_decide (wi_member w ∈ s_vals st) | None => false end
  end.
Definition decoded_items (items : list witem) (raw : str) : option (list nat) :=
  match pb_unmarshal raw with
  | Some p => let m := from_pb 0 p in Some (it_id ∘ wi_item <$> List.filter (item_in m) items)
  | None => None
  end.

Definition windows_meet (evs : list ev) (nflush : nat) (a b : nat) : bool :=
  existsb (λ f, window_ok evs a f && window_ok evs b f) (seq 1 nflush).

Definition fwd_problems (window : Z) (cflag : bool) (ctype : str) (xh : list (str * str)) (dynraw : list str) (utf8 : list (str * bool))
    (items : list witem) (marked : bool) (nflush : nat) (evs : list ev) (bodies : list body) (ctr : counters)
    (notified : option nat) : list why :=
  let dyn := effective_dyn xh dynraw in
  let ok := item_ok (utf8_of utf8) in
  let ibodies := imap (λ i b, (i, b)) bodies in
  (* Content-Encoding per Model.Wire (C14): what the configured compression makes constructPost send *)
  let enc_model := match new_forwarder cflag ctype 1 with Some c => sender_header c | None => [] end in
  let present := concat (bd_items <$> bodies) in
  let bad := List.filter (λ w, negb (ok (wi_item w))) items in
  let per_body := flat_map (λ ib,
      let '(i, bd) := ib in
      let ws := omap (find_item items) (bd_items bd) in
      let keys := remove_dups (item_pkey dyn ∘ wi_item <$> ws) in
      let pk := match keys with [k] => k | _ => [] end in
      let outs := outs_of evs i in
      flat_map (λ x, match find_item items x with Some _ => [] | None => [WUnknownItem i x] end) (bd_items bd)
      ++ (if (length keys <=? 1) then [] else [WKey i keys])
      ++ (let names := header_names xh (bd_enc bd) pk in
          let model := (λ n, (n, header_value xh (bd_enc bd) pk n)) <$> names in
          if (length (bd_headers bd) =? length names)
             && forallb (λ nv, option_eqb str_eqb (assoc_str nv.1 (bd_headers bd)) nv.2) model
          then [] else [WHeaders i model])
      ++ (match replay outs with
          | Some p => match p_phase p with PEnd => [] | _ => [WRetry i outs] end
          | None => [WRetry i outs] end)
      ++ (if overlap_free i evs false then [] else [WOverlap i])
      ++ (if str_eqb (bd_enc bd) enc_model then [] else [WEncoding i enc_model])
      ++ (match bd_raw bd with
          | None => []
          | Some raw => let d := decoded_items items raw in
                        if option_eqb (list_eqb Nat.eqb) d (Some (bd_items bd)) then [] else [WDecode i d]
          end)
      (* abandoned only when the retry window, measured from this request's own start, is exhausted *)
      ++ (match last outs Ok2xx with
          | Failed => if stop_allowed window (bd_stop_ub bd) then [] else [WEarlyStop i window (bd_stop_ub bd)]
          | Ok2xx => [] end)
      ++ (if negb marked || match bd_items bd with [] => true | _ => false end
             || body_flush_ok items evs nflush i bd then [] else [WNoFlush i])) ibodies in
  let per_item := flat_map (λ w,
      let x := it_id (wi_item w) in
      let n := count_nat x present in
      if negb (ok (wi_item w)) then (if n =? 0 then [] else [WInvalidPresent x])
      else if n =? 1 then []
      else if negb (n =? 0) then [WItemCount x n]
      else (* absent: only because it shared a part with an item the serialiser rejects, or (gauges)
              because a later value of the same series replaced it *)
        if existsb (λ v, str_eqb (item_pkey dyn (wi_item v)) (item_pkey dyn (wi_item w))
                         && (negb marked || windows_meet evs nflush (wi_batch v) (wi_batch w))) bad
           || (wi_gauge w && existsb (λ v, wi_gauge v && str_eqb (it_name (wi_item v)) (it_name (wi_item w))
                                            && str_eqb (it_key (wi_item v)) (it_key (wi_item w))
                                            && (0 <? count_nat (it_id (wi_item v)) present)) items)
        then [] else [WItemCount x 0]) items in
  let model_ctr := fold_right (λ ib acc, match replay (outs_of evs ib.1) with
                                         | Some p => ctr_add (p_ctr p) acc | None => acc end) ctr0 ibodies in
  let inv_lo := match bad with [] => 0 | _ => 1 end in
  let inv_hi := length bad in
  flat_map (λ sb, if Bool.eqb (utf8_valid sb.1) sb.2 then [] else [WUtf8 sb.1]) utf8   (* Go's unicode/utf8 vs PbWire.utf8_valid *)
  ++ per_body ++ per_item
  ++ (if (n_created ctr =? n_created model_ctr) && (n_sent ctr =? n_sent model_ctr)
         && (n_retried ctr =? n_retried model_ctr) && (n_dropped ctr =? n_dropped model_ctr)
         && (inv_lo <=? n_invalid ctr) && (n_invalid ctr <=? inv_hi)
      then [] else [WCounters model_ctr inv_lo inv_hi])
  (* Props.C15_one_notification_per_flush / C15_notifications_dynamic: one NotifyFlush per flush without
     dynamic headers, else one per part = per request created or found unserialisable (the nop is none) *)
  ++ (match notified with
      | None => []
      | Some n => let model := match dyn with
                               | [] => nflush
                               | _ => length bodies - 1 + n_invalid ctr
                               end in
                  if n =? model then [] else [WNotified model]
      end).

Definition problems (c : c15case) : list why :=
  match c with
  | SplitCase dps names obs =>
      if check_split dps names obs then []
      else [WSplit ((λ kp, (kp.1, entries kp.2)) <$> split_by_tags names (receive_all empty_map dps))]
  | ConsCase k nb evs emitted => cons_problems k nb evs emitted
  | FwdCase window cflag ctype xh dynraw utf8 items marked nflush evs bodies ctr notified =>
      fwd_problems window cflag ctype xh dynraw utf8 items marked nflush evs bodies ctr notified
  end.

Definition check_case (c : c15case) : bool := match problems c with [] => true | _ => false end.
Definition explain_case (c : c15case) : list why := firstn 6 (problems c).
