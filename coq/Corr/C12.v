(* Correspondence for C12: lock-step comparison of the LTS of Model/InstanceCache.v with a real
   CachedCloudProvider driven label by label through the verif hooks.  One case = the cache options /
   batch limit and a list of (label, observation after the label).  After every label the projected
   observables are compared: the label's own output (Peek result, infos produced by the real doLookup,
   info handed to the consumer), the cache (key set and the instance served per key), the four
   statistics counters, and the contents of the two stacks the real handleInstanceInfo / doRefresh
   append to.  The code reads the wall clock in handleInstanceInfo and Peek; the harness moves the stamps
   those calls wrote onto its virtual time axis right after the call (hook VerifRebaseStamps), so the
   expiry and last-access stamp of every entry are compared exactly as well, and refresh ticks can sit
   exactly on the idle / expiry boundaries. *)
From GS Require Export Base.Bytes Base.CorrLib Model.InstanceCache.
From stdpp Require Import gmap.
Local Open Scope Z_scope.

Inductive out :=
| ONone                                   (* Submit, SendLookup, HandleInfo, Refresh *)
| OPeek (r : option (option instance))    (* Peek: miss / negative hit / hit *)
| OInfos (l : list info)                  (* Batch: what the real doLookup sent, in order *)
| ORet (i : info).                        (* Return: what the consumer received *)

Record obs := Obs {
  o_out : out;
  o_cache : list (source * option instance);  (* sorted by key by the harness *)
  o_stamps : list (source * (Z * Z));         (* per key: expires, last access (virtual ns) *)
  o_pos : Z; o_neg : Z; o_rpos : Z; o_rneg : Z;
  o_lookup : list source;                     (* ccp.toLookupIPs in Go order (last = top) *)
  o_return : list info                        (* ccp.toReturnInfo in Go order *)
}.

Record c12case := Case { k_cfg : config; k_steps : list (label * obs) }.

Definition inst_eqb (a b : instance) : bool :=
  str_eqb (i_id a) (i_id b) && list_eqb str_eqb (i_tags a) (i_tags b).
Definition oinst_eqb := option_eqb inst_eqb.
Definition info_eqb (a b : info) : bool := str_eqb a.1 b.1 && oinst_eqb a.2 b.2.

Definition out_ok (st : state) (o : out) : bool :=
  match o with
  | ONone => true
  | OPeek r => match peeked st with
               | (_, r') :: _ => option_eqb oinst_eqb r r'
               | [] => false
               end
  | OInfos l => list_eqb info_eqb l (inflight st)
  | ORet i => match delivered st with
              | i' :: _ => info_eqb i i'
              | [] => false
              end
  end.

Definition cache_ok (st : state) (oc : list (source * option instance)) : bool :=
  (length oc =? size (cache st))%nat
  && bool_decide (NoDup oc.*1)
  && forallb (λ e, option_eqb oinst_eqb (Some e.2) (peek_result (cache st) e.1)) oc.

Definition stamps_ok (st : state) (os : list (source * (Z * Z))) : bool :=
  (length os =? size (cache st))%nat
  && forallb (λ e, match cache st !! e.1 with
                   | Some h => (h_expires h =? e.2.1) && (h_access h =? e.2.2)
                   | None => false
                   end) os.

Definition obs_ok (st : state) (o : obs) : bool :=
  out_ok st (o_out o)
  && cache_ok st (o_cache o)
  && stamps_ok st (o_stamps o)
  && (o_pos o =? gauge_pos st) && (o_neg o =? gauge_neg st)
  && (o_rpos o =? k_rpos (st_core st)) && (o_rneg o =? k_rneg (st_core st))
  && list_eqb str_eqb (o_lookup o) (rev (to_lookup st))
  && list_eqb info_eqb (o_return o) (rev (to_return st)).

(* the label's shape must fit the output the harness recorded *)
Definition shape_ok (l : label) (o : out) : bool :=
  match l, o with
  | Peek _ _, OPeek _ | Batch _ _, OInfos _ | Return, ORet _ => true
  | Submit _, ONone | SendLookup, ONone | HandleInfo _, ONone | Refresh _ _, ONone => true
  | _, _ => false
  end.

(* index of the first step at which model and implementation differ; None = agree everywhere *)
Fixpoint first_bad (c : config) (st : state) (n : N) (steps : list (label * obs)) : option (N * bool * state) :=
  match steps with
  | [] => None
  | (l, o) :: r =>
      match step c st l with
      | None => Some (n, false, st)  (* the implementation took a step the model does not allow (for a
                                        Refresh: it queued other sources than the model's expired ones) *)
      | Some st' => if shape_ok l (o_out o) && obs_ok st' o then first_bad c st' (N.succ n) r
                    else Some (n, true, st')
      end
  end.

Definition check_case (k : c12case) : bool :=
  match first_bad (k_cfg k) init 0%N (k_steps k) with None => true | Some _ => false end.

(* for a failing case: the step index and the model's projection after that step (v_enabled = true), or
   before it if the model cannot take the step at all (v_enabled = false) *)
Record view := View {
  v_step : N;
  v_enabled : bool;
  v_cache : list (source * option instance * (Z * Z));
  v_gauges : Z * Z * Z * Z;
  v_lookup : list source; v_return : list info;
  v_inflight : list info; v_last_delivered : option info;
  v_last_peek : option (option (option instance))
}.

Definition explain_case (k : c12case) : option view :=
  match first_bad (k_cfg k) init 0%N (k_steps k) with
  | None => None
  | Some (n, en, st) =>
      Some (View n en (map (λ kh, (kh.1, h_inst kh.2, (h_expires kh.2, h_access kh.2))) (map_to_list (cache st)))
                 (gauge_pos st, gauge_neg st, k_rpos (st_core st), k_rneg (st_core st))
                 (rev (to_lookup st)) (rev (to_return st)) (inflight st) (head (delivered st))
                 (snd <$> head (peeked st)))
  end.
