(* Correspondence for C12: lock-step comparison of the LTS of Model/InstanceCache.v with a real
   CachedCloudProvider driven label by label through the verif hooks.  One case = the cache options /
   batch limit and a list of (label, observation after the label).  After every label the projected
   observables are compared: the label's own output (Peek result, infos produced by the real doLookup,
   info handed to the consumer), the cache (key set and the instance served per key), the four
   statistics counters, and the contents of the two stacks the real handleInstanceInfo / doRefresh
   append to.  The code reads the wall clock in handleInstanceInfo and Peek; the harness keeps all stamps at a
   known offset from its virtual clock and replaces the stamps a step wrote by exactly that step's clock
   reading (+ the TTL the code added), so the expiry and last-access stamp of every entry are compared
   exactly (in virtual nanoseconds) as well, and refresh ticks can sit exactly on the idle / expiry boundaries. *)
From GS Require Export Base.Bytes Base.CorrLib Model.InstanceCache Model.InstanceDispatcher.
From stdpp Require Import gmap.
Local Open Scope Z_scope.

Inductive out :=
| ONone                                   (* Submit, SendLookup, HandleInfo, Refresh *)
| OPeek (r : option (option instance))    (* Peek: miss / negative hit / hit *)
| OInfos (l : list info)                  (* Batch: what the real doLookup sent, in order *)
| ORet (i : info).                        (* Return: what the consumer received *)

Record obs := Obs {
  o_out : out;
  o_cache : list (source * option instance);  (* sorted by key by the harness *)
  o_stamps : list (source * (Z * Z));         (* per key: expires, last access (virtual ns) *)
  o_pos : Z; o_neg : Z; o_rpos : Z; o_rneg : Z;
  o_lookup : list source;                     (* ccp.toLookupIPs in Go order (last = top) *)
  o_return : list info                        (* ccp.toReturnInfo in Go order *)
}.

(* Second kind of case: the real dispatcher loop (cloudProviderLookupDispatcher.run, started through the hook
   VerifRunDispatcher on channels the harness owns) driven event by event by a single harness goroutine.  Every
   event is a rendezvous with the loop's goroutine, so the recorded order is the order in which the loop did
   these things.  Coq decides whether the trace is a run of Model/InstanceDispatcher.v, inserting the steps
   that cannot be observed (timer, limiter, run / doLookup noticing ctx.Done). *)
Inductive devent :=
| ERecv (s : source)                                     (* a send on ipSource completed *)
| ECall (ips : list source) (res : result) (err : bool)  (* Instance(ips...) was called and answered res, err *)
| EInfo (i : info)                                       (* an InstanceInfo was received from infoSink *)
| ECancel                                                (* the harness cancelled the context *)
| EStopped                                               (* run returned *)
| EPanic                                                 (* run panicked *)
| EIdle.                                                 (* the harness waited for the loop, nothing came *)

Inductive c12case :=
| Case (k_cfg : config) (k_steps : list (label * obs))
  (* limit, the limiter's bucket size (a limiter with rate Inf is given as 1), the trace *)
| DispCase (lim : Z) (burst : Z) (evs : list devent)
  (* goroutine-level run of Run + dispatcher: the provider calls in order; they must be the calls of a run of
     the loop that receives exactly these sources *)
| AsyncCase (lim : Z) (calls : list (list source))
  (* configuration path of cmd/gostatsd (setupConfiguration + newCachedInstancesFromViper on flags / TOML): what
     was configured for cloud-cache-refresh-period, cloud-cache-evict-after-idle-period, cloud-cache-ttl,
     cloud-cache-negative-ttl, max-cloud-requests, burst-cloud-requests (None = not given), and the options the
     CachedCloudProvider was built with, in the same order (durations in ns) *)
| CfgCase (given : list (option Z)) (got : list Z).

(* the documented defaults: 1 min, 10 min, 30 min, 1 min; 10 requests / s, burst 15 *)
Definition cfg_defaults : list Z := [60000000000; 600000000000; 1800000000000; 60000000000; 10; 15].
Fixpoint cfg_resolve (given : list (option Z)) (defaults : list Z) : list Z :=
  match given, defaults with
  | g :: gs, d :: ds => match g with Some v => v | None => d end :: cfg_resolve gs ds
  | _, _ => []
  end.
(* the model's options for a provider built from this configuration *)
Definition cfg_config (given : list (option Z)) (lim : Z) : option config :=
  match cfg_resolve given cfg_defaults with
  | [_; idle; ttl; negttl; _; _] => Some (Config ttl negttl idle lim)
  | _ => None
  end.
Definition cfg_ok (given : list (option Z)) (got : list Z) : bool :=
  (length given =? 6)%nat && list_eqb Z.eqb got (cfg_resolve given cfg_defaults)
  && match cfg_config given 1, got with
     | Some c, [_; idle; ttl; negttl; _; _] => (c_idle c =? idle) && (c_ttl c =? ttl) && (c_negttl c =? negttl)
     | _, _ => false
     end.

Definition inst_eqb (a b : instance) : bool :=
  str_eqb (i_id a) (i_id b) && list_eqb str_eqb (i_tags a) (i_tags b).
Definition oinst_eqb := option_eqb inst_eqb.
Definition info_eqb (a b : info) : bool := str_eqb a.1 b.1 && oinst_eqb a.2 b.2.

Definition out_ok (st : state) (o : out) : bool :=
  match o with
  | ONone => true
  | OPeek r => match peeked st with
               | (_, r') :: _ => option_eqb oinst_eqb r r'
               | [] => false
               end
  | OInfos l => list_eqb info_eqb l (inflight st)
  | ORet i => match delivered st with
              | i' :: _ => info_eqb i i'
              | [] => false
              end
  end.

Definition cache_ok (st : state) (oc : list (source * option instance)) : bool :=
  (length oc =? size (cache st))%nat
  && bool_decide (NoDup oc.*1)
  && forallb (λ e, option_eqb oinst_eqb (Some e.2) (peek_result (cache st) e.1)) oc.

Definition stamps_ok (st : state) (os : list (source * (Z * Z))) : bool :=
  (length os =? size (cache st))%nat
  && forallb (λ e, match cache st !! e.1 with
                   | Some h => (h_expires h =? e.2.1) && (h_access h =? e.2.2)
                   | None => false
                   end) os.

Definition obs_ok (st : state) (o : obs) : bool :=
  out_ok st (o_out o)
  && cache_ok st (o_cache o)
  && stamps_ok st (o_stamps o)
  && (o_pos o =? gauge_pos st) && (o_neg o =? gauge_neg st)
  && (o_rpos o =? k_rpos (st_core st)) && (o_rneg o =? k_rneg (st_core st))
  && list_eqb str_eqb (o_lookup o) (rev (to_lookup st))
  && list_eqb info_eqb (o_return o) (rev (to_return st)).

(* the label's shape must fit the output the harness recorded *)
Definition shape_ok (l : label) (o : out) : bool :=
  match l, o with
  | Peek _ _, OPeek _ | Batch _ _, OInfos _ | Return, ORet _ => true
  | Submit _, ONone | SendLookup, ONone | HandleInfo _, ONone | Refresh _ _, ONone => true
  | _, _ => false
  end.

(* index of the first step at which model and implementation differ; None = agree everywhere *)
Fixpoint first_bad (c : config) (st : state) (n : N) (steps : list (label * obs)) : option (N * bool * state) :=
  match steps with
  | [] => None
  | (l, o) :: r =>
      match step c st l with
      | None => Some (n, false, st)  (* the implementation took a step the model does not allow (for a
                                        Refresh: it queued other sources than the model's expired ones) *)
      | Some st' => if shape_ok l (o_out o) && obs_ok st' o then first_bad c st' (N.succ n) r
                    else Some (n, true, st')
      end
  end.

(* ---- traces of the dispatcher loop ---------------------------------------------------------------- *)

Definition dbind {A B} (o : option A) (f : A -> option B) : option B := match o with Some x => f x | None => None end.

(* unobservable steps that bring the loop into the provider call *)
Definition silent_to_call (lim burst : Z) (d : dstate) : option dstate :=
  match d_phase d with
  | DSelect => if d_armed d then dbind (dstep_b lim burst d DTimer) (λ d1, dstep_b lim burst d1 DLimit) else None
  | DLimiter => dstep_b lim burst d DLimit
  | _ => None
  end.

(* unobservable steps that make run return *)
(* ([dstep_b]: the limiter fails only after a cancellation or if one token exceeds its bucket) *)
Definition silent_to_stop (lim burst : Z) (d : dstate) : option dstate :=
  match d_phase d with
  | DSelect => if d_cancelled d then dstep_b lim burst d DStop
               else if d_armed d then dbind (dstep_b lim burst d DTimer) (λ d1, dstep_b lim burst d1 DLimitErr)
               else None
  | DLimiter => dstep_b lim burst d DLimitErr
  | DSending => if d_cancelled d then dbind (dstep_b lim burst d DAbandon) (λ d1, dstep_b lim burst d1 DStop) else None
  | _ => None
  end.

Definition devent_step (lim burst : Z) (d : dstate) (e : devent) : option dstate :=
  match e with
  | ERecv s =>   (* after a cancellation doLookup may have given up its unsent answers unobserved *)
      match d_phase d with
      | DSending => if d_cancelled d then dbind (dstep lim d DAbandon) (λ d1, dstep lim d1 (DRecv s)) else None
      | _ => dstep lim d (DRecv s)
      end
  | ECall ips res err =>
      dbind (silent_to_call lim burst d) (λ d1,
        if list_eqb str_eqb ips (d_ips d1) then dstep lim d1 (DCall res err) else None)
  | EInfo i => match d_tosend d with
               | i' :: _ => if info_eqb i i' then dstep lim d DSend else None
               | [] => None
               end
  | ECancel => dstep lim d DCancel
  | EStopped => silent_to_stop lim burst d
  | EPanic => match d_phase d with DPanicked => Some d | _ => None end
  | EIdle => match d_phase d with
             | DSelect => if d_armed d || d_cancelled d then None else Some d
             | DStopped | DPanicked => Some d
             | _ => None
             end
  end.

Fixpoint dtrace_bad (lim burst : Z) (d : dstate) (n : N) (evs : list devent) : option (N * dstate) :=
  match evs with
  | [] => None
  | e :: r => match devent_step lim burst d e with
              | Some d' => dtrace_bad lim burst d' (N.succ n) r
              | None => Some (n, d)
              end
  end.

(* the goroutine-level stream: one provider call = receive its sources, leave the select (timer unless the batch
   is full), limiter, call, send every answer *)
Fixpoint dfeed (lim : Z) (d : dstate) (ips : list source) : option dstate :=
  match ips with [] => Some d | s :: r => dbind (dstep lim d (DRecv s)) (λ d1, dfeed lim d1 r) end.
Fixpoint ddrain (lim : Z) (d : dstate) (n : nat) : option dstate :=
  match n with O => Some d | S n' => dbind (dstep lim d DSend) (λ d1, ddrain lim d1 n') end.
Fixpoint dcalls_bad (lim : Z) (d : dstate) (n : N) (calls : list (list source)) : option (N * dstate) :=
  match calls with
  | [] => None
  | ips :: r =>
      match dbind (dfeed lim d ips) (λ d1, dbind (silent_to_call lim 1 d1) (λ d2,
              dbind (dstep lim d2 (DCall [] false)) (λ d3, ddrain lim d3 (length ips)))) with
      | Some d' => dcalls_bad lim d' (N.succ n) r
      | None => Some (n, d)
      end
  end.

Definition check_case (k : c12case) : bool :=
  match k with
  | Case cfg steps => match first_bad cfg init 0%N steps with None => true | Some _ => false end
  | DispCase lim burst evs => match dtrace_bad lim burst (d_init lim) 0%N evs with None => true | Some _ => false end
  | AsyncCase lim calls => match dcalls_bad lim (d_init lim) 0%N calls with None => true | Some _ => false end
  | CfgCase given got => cfg_ok given got
  end.

(* for a failing case: the step index and the model's projection after that step (v_enabled = true), or
   before it if the model cannot take the step at all (v_enabled = false) *)
Record view := View {
  v_step : N;
  v_enabled : bool;
  v_cache : list (source * option instance * (Z * Z));
  v_gauges : Z * Z * Z * Z;
  v_lookup : list source; v_return : list info;
  v_inflight : list info; v_last_delivered : option info;
  v_last_peek : option (option (option instance))
}.

(* the loop's state before the first event / call the model cannot follow *)
Record dview := DView {
  dv_event : N; dv_phase : dphase; dv_ips : list source; dv_armed : bool; dv_tosend : list info;
  dv_cancelled : bool; dv_calls : nat; dv_sent : nat
}.
Definition mk_dview (x : N * dstate) : dview :=
  DView x.1 (d_phase x.2) (d_ips x.2) (d_armed x.2) (d_tosend x.2) (d_cancelled x.2)
        (length (d_calls x.2)) (length (d_sent x.2)).

Definition explain_lock (cfg : config) (steps : list (label * obs)) : option view :=
  match first_bad cfg init 0%N steps with
  | None => None
  | Some (n, en, st) =>
      Some (View n en (map (λ kh, (kh.1, h_inst kh.2, (h_expires kh.2, h_access kh.2))) (map_to_list (cache st)))
                 (gauge_pos st, gauge_neg st, k_rpos (st_core st), k_rneg (st_core st))
                 (rev (to_lookup st)) (rev (to_return st)) (inflight st) (head (delivered st))
                 (snd <$> head (peeked st)))
  end.

Definition explain_case (k : c12case) : option view * option dview :=
  match k with
  | Case cfg steps => (explain_lock cfg steps, None)
  | DispCase lim burst evs => (None, mk_dview <$> dtrace_bad lim burst (d_init lim) 0%N evs)
  | AsyncCase lim calls => (None, mk_dview <$> dcalls_bad lim (d_init lim) 0%N calls)
  | CfgCase given got =>   (* the expected options, as the phase-less view's ips are not usable: in v_gauges order *)
      (match cfg_resolve given cfg_defaults with
       | [r; idle; ttl; negttl; rate; burst] =>
           Some (View 0 true [] (idle, ttl, negttl, r) [] [] [] None None)
       | _ => None
       end, None)
  end.
