(* Correspondence for C03 (no network input can crash ingestion).  Three kinds of cases:

   KLex   one line through the real lexer entry point (verifhooks.LexLine) under recover();
          the case is C02's [lexcase] and the comparison C02's [check_case]: the model's outcome
          (metric / event / reject / PANIC) must be the implementation's, field by field.
   KDgram a sequence of whole datagrams (one batch or successive batches) through a real
          DatagramParser; compared: panic or the three counters parser.metrics_received /
          events_received / bad_lines_seen after the last one.  The same constructor carries
          the recv stream: the datagrams sent through real sockets (or a scripted PacketConn)
          to a real DatagramReceiver feeding the parser, in a child process.
   KRecv  the recv stream with one reader: the script of ReadBatch returns (known for the
          scripted PacketConn, reconstructed from the observed batch sizes for real sockets),
          the batches a relay between the real receiver and the real parser saw (sender IP,
          length, bytes, batch index) and the parser's counters; compared with
          Model/Receiver.receive (batch by batch, slot by slot) and [ingest].
   KBurst many overlapping requests (2-16 goroutines) against the same router in the child
          process; per request template the statuses observed and the total of dispatches.
   KHttp  one request to the real ingestion router; compared: the status the client saw
          (None = the connection died without a status) and the number of dispatches, against
          the trace of Model/WireStatus.handle under the library outcomes the harness computed
          by calling zlib / lz4 / proto.Unmarshal itself. *)
From GS Require Export Base.Bytes Base.CorrLib Model.Lexer Model.LexerLegacy Model.WireStatus
  Model.DatagramLines Model.Receiver Corr.C02.
Local Open Scope N_scope.

(* a datagram as the relay between the real receiver and the real parser saw it; [body] is
   omitted for big cases (the harness compares the bytes itself); [ts] = index of the batch
   (all datagrams of one batch carry one timestamp: checked by the harness) *)
Inductive odgram := ObsD (ip : str) (len : N) (body : option str) (ts : Z) | ObsNil.

Inductive c03case :=
| KLex (c : lexcase)
| KRecv (ns : str) (table : list (str * pfres)) (local_unix : bool) (bsize : N)
        (script : list read_result) (obs : list (list odgram)) (counts : dresult)
| KDgram (ns : str) (msgs : list str) (table : list (str * pfres)) (obs : dresult)
| KHttp (ep : endpoint) (enc : str) (o : wire_oracle) (status : option N) (ndispatch : N)
| KBurst (reqs : list (endpoint * str * wire_oracle * list N * N)) (ndispatch : N).

Definition dresult_eqb (a b : dresult) : bool :=
  match a, b with
  | DCounts m e x, DCounts m' e' x' => (m =? m') && (e =? e') && (x =? x')
  | DPanic, DPanic => true
  | _, _ => false
  end.

Definition is_miss (o : outcome) : bool :=
  match o with OReject EOracleMiss => true | _ => false end.

Definition dgram_model (ns : str) (msgs : list str) (table : list (str * pfres)) : dresult :=
  parse_stream (oracle table) ns msgs 0 0 0.

Fixpoint all2 {A B} (f : A -> B -> bool) (a : list A) (b : list B) : bool :=
  match a, b with
  | [], [] => true
  | x :: a', y :: b' => f x y && all2 f a' b'
  | _, _ => false
  end.

Definition slot_matches (m : option datagram) (o : odgram) : bool :=
  match m, o with
  | Some d, ObsD ip len body ts =>
      str_eqb ip (d_ip d) && (len =? N.of_nat (length (d_msg d))) && (ts =? d_ts d)%Z
      && match body with Some b => str_eqb b (d_msg d) | None => true end
  | None, ObsNil => true
  | _, _ => false
  end.

Definition recv_model (u : bool) (bsize : N) (script : list read_result) : option status :=
  receive (current u) (N.to_nat bsize) (map LRead script).

Definition batches_match (st : option status) (obs : list (list odgram)) : bool :=
  match st with
  | Some (Running s) => all2 (all2 slot_matches) (r_handed s) obs
  | _ => false
  end.

(* what the model computed for a case, for the failure report *)
Inductive explanation :=
| XRecv (batches : option (list (list (option (str * N * Z))))) (r : dresult) (oracle_misses : N)
| XLex (o : outcome)
| XDgram (r : dresult) (oracle_misses : N)
| XHttp (trace : list action).

Definition misses (ns : str) (msgs : list str) (table : list (str * pfres)) : N :=
  N.of_nat (length (filter (fun l => is_miss (lex (oracle table) ns l)) (flat_map lines msgs))).

(* a burst of overlapping requests: per request template the distinct statuses its copies got
   ([0] = a copy got no status) and how many copies were sent; the model is per request *)
Definition burst_ok (reqs : list (endpoint * str * wire_oracle * list N * N)) (nd : N) : bool :=
  forallb (fun '(ep, h, o, sts, times) =>
             (times =? 0) || list_eqb N.eqb sts (statuses (handle ep h o))) reqs
  && (fold_right (fun '(ep, h, o, _, times) acc => times * dispatches (handle ep h o) + acc) 0 reqs =? nd).

Definition check_case (c : c03case) : bool :=
  match c with
  | KLex lc => C02.check_case lc
  | KRecv ns table u bsize script obs counts =>
      batches_match (recv_model u bsize script) obs
      && dresult_eqb counts (ingest (oracle table) ns (current u) (N.to_nat bsize) script)
      && (misses ns (flat_map read_data script) table =? 0)
  | KDgram ns msgs table obs =>
      dresult_eqb obs (dgram_model ns msgs table) && (misses ns msgs table =? 0)
  | KHttp ep enc o status nd =>
      let t := handle ep enc o in
      match status with
      | Some s => list_eqb N.eqb (statuses t) [s] && (dispatches t =? nd)
      | None => false
      end
  | KBurst reqs nd => burst_ok reqs nd
  end.

Definition explain_case (c : c03case) : explanation :=
  match c with
  | KLex lc => XLex (C02.model_of lc)
  | KRecv ns table u bsize script _ _ =>
      XRecv (match recv_model u bsize script with
             | Some (Running s) =>
                 Some (map (map (option_map (fun d => (d_ip d, N.of_nat (length (d_msg d)), d_ts d)))) (r_handed s))
             | _ => None
             end)
            (ingest (oracle table) ns (current u) (N.to_nat bsize) script)
            (misses ns (flat_map read_data script) table)
  | KDgram ns msgs table _ => XDgram (dgram_model ns msgs table) (misses ns msgs table)
  | KHttp ep enc o _ _ => XHttp (handle ep enc o)
  | KBurst reqs _ => XHttp (flat_map (fun '(ep, h, o, _, _) => handle ep h o) reqs)
  end.

(* development-time validation of Model/LexerLegacy.v against a tree with the D1 repair
   reverted (not used by the driver; see notes/C03.md) *)
Definition check_case_legacy (c : c03case) : bool :=
  match c with
  | KLex lc => obs_matches (lc_obs lc) (lex_legacy_u32 (oracle (lc_table lc)) (lc_ns lc) (lc_line lc))
  | _ => true
  end.
