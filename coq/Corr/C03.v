(* Correspondence for C03 (no network input can crash ingestion).  Three kinds of cases:

   KLex   one line through the real lexer entry point (verifhooks.LexLine) under recover();
          the case is C02's [lexcase] and the comparison C02's [check_case]: the model's outcome
          (metric / event / reject / PANIC) must be the implementation's, field by field.
   KDgram a sequence of whole datagrams (one batch or successive batches) through a real
          DatagramParser; compared: panic or the three counters parser.metrics_received /
          events_received / bad_lines_seen after the last one.  The same constructor carries
          the recv stream: the datagrams sent through real sockets (or a scripted PacketConn)
          to a real DatagramReceiver feeding the parser, in a child process.
   KHttp  one request to the real ingestion router; compared: the status the client saw
          (None = the connection died without a status) and the number of dispatches, against
          the trace of Model/WireStatus.handle under the library outcomes the harness computed
          by calling zlib / lz4 / proto.Unmarshal itself. *)
From GS Require Export Base.Bytes Base.CorrLib Model.Lexer Model.LexerLegacy Model.WireStatus
  Model.DatagramLines Corr.C02.
Local Open Scope N_scope.

Inductive c03case :=
| KLex (c : lexcase)
| KDgram (ns : str) (msgs : list str) (table : list (str * pfres)) (obs : dresult)
| KHttp (ep : endpoint) (enc : str) (o : wire_oracle) (status : option N) (ndispatch : N).

Definition dresult_eqb (a b : dresult) : bool :=
  match a, b with
  | DCounts m e x, DCounts m' e' x' => (m =? m') && (e =? e') && (x =? x')
  | DPanic, DPanic => true
  | _, _ => false
  end.

Definition is_miss (o : outcome) : bool :=
  match o with OReject EOracleMiss => true | _ => false end.

Definition dgram_model (ns : str) (msgs : list str) (table : list (str * pfres)) : dresult :=
  parse_stream (oracle table) ns msgs 0 0 0.

(* what the model computed for a case, for the failure report *)
Inductive explanation :=
| XLex (o : outcome)
| XDgram (r : dresult) (oracle_misses : N)
| XHttp (trace : list action).

Definition misses (ns : str) (msgs : list str) (table : list (str * pfres)) : N :=
  N.of_nat (length (filter (fun l => is_miss (lex (oracle table) ns l)) (flat_map lines msgs))).

Definition check_case (c : c03case) : bool :=
  match c with
  | KLex lc => C02.check_case lc
  | KDgram ns msgs table obs =>
      dresult_eqb obs (dgram_model ns msgs table) && (misses ns msgs table =? 0)
  | KHttp ep enc o status nd =>
      let t := handle ep enc o in
      match status with
      | Some s => list_eqb N.eqb (statuses t) [s] && (dispatches t =? nd)
      | None => false
      end
  end.

Definition explain_case (c : c03case) : explanation :=
  match c with
  | KLex lc => XLex (C02.model_of lc)
  | KDgram ns msgs table _ => XDgram (dgram_model ns msgs table) (misses ns msgs table)
  | KHttp ep enc o _ _ => XHttp (handle ep enc o)
  end.

(* development-time validation of Model/LexerLegacy.v against a tree with the D1 repair
   reverted (not used by the driver; see notes/C03.md) *)
Definition check_case_legacy (c : c03case) : bool :=
  match c with
  | KLex lc => obs_matches (lc_obs lc) (lex_legacy_u32 (oracle (lc_table lc)) (lc_ns lc) (lc_line lc))
  | _ => true
  end.
