(* C20 correspondence: is the event log recorded by the fakes of harness/cmd/c20 an observable
   trace of the LTS of Model/Lambda.v?

   The log is mutex-ordered.  Each entry is written by a fake at a point that is ordered
   consistently with the real action it stands for (request logged on arrival = after the real
   send; answer logged before it is written = before the real receipt; script actions logged
   before they are performed; acknowledgements after they were seen), so a real execution always
   has a linearisation in which the observable labels occur in log order.

   Acceptance: a set of model states is carried through the log; between two entries it is closed
   under the labels no fake can see (S_Start, H_Start, H_Flush0, H_Wait, T_Flush, F_Take,
   F_PostEnd Dropped, F_Notify, and ServerError in the start-up failure scripts); an
   entry maps every state to its successors under the matching label(s).  Accepted = the set is
   non-empty after the last entry.  The ordering monitor of the property is evaluated directly on
   the log as well ([order_ok]). *)
From GS Require Model.Forwarder.
From GS Require Export Base.Bytes Base.CorrLib Base.LTS Model.Lambda.
From Coq Require Import Arith.

Inductive obs :=
| ORegister (ok : bool)               (* fake runtime API: POST /register arrived, answered ok / 500 *)
| OSubscribe (ok : bool)              (* PUT /telemetry arrived *)
| OInitError                          (* POST /init/error arrived *)
| ONextCall                           (* GET /event/next arrived *)
| OInvoke (n : nat)                   (* the script starts invocation n *)
| ONextRet (e : event)                (* the pending GET /next is answered *)
| OSend (d : dp)                      (* the script writes datapoint d to the statsd socket *)
| OAck (d : dp)                       (* the parser's counter confirmed d *)
| ODone (n : nat)                     (* the script ends invocation n (runtimeDone record exists) *)
| OTelBatch (recs : list trec)        (* the script posts a telemetry batch *)
| OTelRet                             (* ... and the telemetry server answered it *)
| OUpReq (names : list dp)            (* fake upstream: POST /v2/raw arrived with these series *)
| OUpResp (names : list dp) (ok : bool).   (* ... and is answered 2xx / refused *)

(* mkCase: a log of the extension as deployed (no dynamic headers).
   mkDynCase: the `dynhdr` stream - the real extension with http-transport.dynamic-headers = hdr and
   init-phase datapoints [items] (id, tags key); observed: the non-empty POSTs (series ids per POST)
   and whether a GET /next was ever issued.  Compared with what the composed model (handler of
   Model/Forwarder.v in place of the forwarder actor; Props C20_dynamic_headers_refuted) predicts for
   the initial flush: one POST and one notification per part of SplitByTags, none for an empty flush. *)
Inductive c20case :=
| mkCase (c_srverr : bool) (c_log : list obs)
| mkDynCase (hdr : list str) (items : list (nat * str)) (posts : list (list nat)) (nexts : bool).
Definition c_srverr (c : c20case) : bool := match c with mkCase b _ => b | _ => false end.
Definition c_log (c : c20case) : list obs := match c with mkCase _ l => l | _ => [] end.

(* ---- state sets ---- *)

Definition job_eq_dec (a b : job) : {a = b} + {a <> b}.
Proof. decide equality; [apply jphase_eq_dec|apply dps_eq_dec|apply origin_eq_dec|apply Nat.eq_dec]. Defined.
Definition state_eq_dec (a b : state) : {a = b} + {a <> b}.
Proof.
  decide equality; try apply Bool.bool_dec; try apply Nat.eq_dec; try apply nats_eq_dec;
    try apply dps_eq_dec; try apply onat_eq_dec.
  - apply (list_eq_dec job_eq_dec).
  - apply offer_eq_dec.
  - apply rphase_eq_dec.
  - apply hphase_eq_dec.
  - apply mphase_eq_dec.
Defined.
Definition state_in (s : state) (l : list state) : bool :=
  existsb (fun x => if state_eq_dec s x then true else false) l.
Fixpoint add_new (seen new : list state) (cand : list state) : list state * list state :=
  match cand with
  | [] => (seen, new)
  | c :: r => if state_in c seen then add_new seen new r else add_new (seen ++ [c]) (new ++ [c]) r
  end.

Definition apply (s : state) (ls : list label) : list state :=
  flat_map (fun l => match step s l with Some s' => [s'] | None => [] end) ls.

(* Ingestion ([R_Data]) commutes with every label except the drains and reads nothing but
   [inflight] / [pending]; it is therefore explored lazily: a datapoint is accepted either
   immediately before a drain (any subset of what is in flight) or when its acknowledgement is
   seen.  This loses no behaviour (an acceptance can always be postponed to the next drain or to
   its acknowledgement: [offered] stays [None] in between) and keeps the state sets small. *)
Fixpoint sublists {A} (l : list A) : list (list A) :=
  match l with
  | [] => [[]]
  | x :: r => let t := sublists r in t ++ map (cons x) t
  end.
Definition accept_all (s : state) (ds : list dp) : option state :=
  fold_left (fun acc d => match acc with Some s' => step s' (R_Data d) | None => None end) ds (Some s).
Definition accept_subsets (s : state) : list state :=
  flat_map (fun ds => match accept_all s ds with Some s' => [s'] | None => [] end) (sublists (inflight s)).

Definition tau_labels (srverr : bool) (s : state) : list label :=
  [S_Start; H_Start; H_Wait]
  ++ (if srverr then [ServerError] else [])
  ++ match offered s with Some (o, d) => [F_Take (next_id s) o d] | None => [] end
  ++ flat_map (fun x => [F_PostEnd (j_id x) Dropped; F_Notify (j_id x)]) (jobs s).
Definition drain_labels (s : state) : list label := H_Flush0 :: map T_Flush (t_todo s).
Definition can_drain (s : state) : bool :=
  match hb s, t_todo s with HFlush0, _ => true | _, _ :: _ => true | _, _ => false end.
Definition tau_succ (srverr : bool) (s : state) : list state :=
  apply s (tau_labels srverr s)
  ++ (if can_drain s then flat_map (fun s' => apply s' (drain_labels s)) (accept_subsets s) else []).

Fixpoint closure (fuel : nat) (srverr : bool) (seen frontier : list state) : option (list state) :=
  match frontier with
  | [] => Some seen
  | _ =>
      match fuel with
      | O => None
      | S f =>
          let '(seen', new) := add_new seen [] (flat_map (tau_succ srverr) frontier) in
          closure f srverr seen' new
      end
  end.

Definition same_set (a b : list dp) : bool :=
  (length a =? length b)
  && forallb (fun x => existsb (N.eqb x) b) a && forallb (fun x => existsb (N.eqb x) a) b.

Definition obs_step (s : state) (o : obs) : list state :=
  match o with
  | ORegister ok => apply s [Register ok]
  | OSubscribe ok => apply s [Subscribe ok]
  | OInitError => apply s [InitError]
  | ONextCall => apply s [H_Next (S (nexts s))]
  | OInvoke n => apply s [R_Invoke n]
  | ONextRet e => apply s [H_NextReturns e]
  | OSend d => apply s [R_Send d]
  | OAck d => if existsb (N.eqb d) (inflight s) then apply s [R_Data d] else [s]
  | ODone n => apply s [R_Done n]
  | OTelBatch recs => apply s [T_Batch recs]
  | OTelRet =>    (* the batches are posted one after the other: every hook call has returned *)
      match t_todo s, offered s with
      | [], Some (OInv _, _) => []
      | [], _ => [s]
      | _, _ => []
      end
  | OUpReq names =>
      apply s (flat_map (fun x => if same_set (j_data x) names
                                  then [F_PostStart (j_id x); F_Reattempt (j_id x)] else []) (jobs s))
  | OUpResp names ok =>
      apply s (flat_map (fun x => if same_set (j_data x) names
                                  then [if ok then F_PostEnd (j_id x) Sent else F_AttemptFail (j_id x)]
                                  else []) (jobs s))
  end.

Inductive verdict :=
| Accepted (states : nat)
| Rejected (at_entry : nat) (o : obs) (before : list state)
| OutOfFuel (at_entry : nat).

Definition fuel0 : nat := 200.

Fixpoint walk (srverr : bool) (i : nat) (cur : list state) (log : list obs) : verdict :=
  match log with
  | [] => Accepted (length cur)
  | o :: r =>
      let '(nxt, _) := add_new [] [] (flat_map (fun s => obs_step s o) cur) in
      match nxt with
      | [] => Rejected i o cur
      | _ => match closure fuel0 srverr nxt nxt with
             | Some cl => walk srverr (S i) cl r
             | None => OutOfFuel i
             end
      end
  end.

Definition accepts (c : c20case) : verdict :=
  match closure fuel0 (c_srverr c) [init] [init] with
  | Some cl => walk (c_srverr c) 0 cl (c_log c)
  | None => OutOfFuel 0
  end.

(* ---- the ordering monitor, directly on the log ---- *)

Fixpoint number {A} (i : nat) (l : list A) : list (nat * A) :=
  match l with [] => [] | x :: r => (i, x) :: number (S i) r end.

Definition positions (p : obs -> bool) (log : list obs) : list nat :=
  map fst (filter (fun ix => p (snd ix)) (number 0 log)).

Definition is_nextcall o := match o with ONextCall => true | _ => false end.
Definition is_done n o := match o with ODone m => Nat.eqb n m | _ => false end.
Definition mentions d o :=
  match o with OUpReq ns | OUpResp ns _ => existsb (N.eqb d) ns | _ => false end.
Definition is_resp o := match o with OUpResp _ _ => true | _ => false end.

Definition acked_before (p : nat) (log : list obs) : list dp :=
  flat_map (fun ix => match snd ix with OAck d => if fst ix <? p then [d] else [] | _ => [] end) (number 0 log).

(* every upstream event carrying d lies before position p, there is at least one, and the last
   one is an answer *)
Definition attempt_finished_before (d : dp) (p : nat) (log : list obs) : bool :=
  let ups := filter (fun ix => mentions d (snd ix)) (number 0 log) in
  match rev ups with
  | [] => false
  | (i, o) :: _ => (i <? p) && is_resp o
  end.

Definition order_ok (log : list obs) : bool :=
  let nextpos := positions is_nextcall log in
  forallb (fun n =>
    match positions (is_done n) log, nth_error nextpos n with
    | pd :: _, Some pn => forallb (fun d => attempt_finished_before d pn log) (acked_before pd log)
    | _, _ => true
    end) (seq 1 (length nextpos)).

(* ---- the dynhdr stream: prediction of the composed model for the initial flush ---- *)
Definition dyn_parts (hdr : list str) (items : list (nat * str)) : list (list nat) :=
  map (fun p => map GS.Model.Forwarder.it_id (snd p))
      (GS.Model.Forwarder.bag_split (GS.Model.Forwarder.effective_dyn [] hdr)
         (map (fun ik => GS.Model.Forwarder.Item (fst ik) [] (snd ik) []) items)).
Definition same_nats (a b : list nat) : bool :=
  (length a =? length b) && forallb (fun x => existsb (Nat.eqb x) b) a && forallb (fun x => existsb (Nat.eqb x) a) b.
Definition same_groups (a b : list (list nat)) : bool :=
  (length a =? length b) && forallb (fun x => existsb (same_nats x) b) a && forallb (fun x => existsb (same_nats x) a) b.
Definition check_dyn hdr items posts (nexts : bool) : bool :=
  let parts := dyn_parts hdr items in
  same_groups parts posts && Bool.eqb nexts (negb (length parts =? 0)).

Definition check_case (c : c20case) : bool :=
  match c with
  | mkCase _ _ => match accepts c with Accepted _ => order_ok (c_log c) | _ => false end
  | mkDynCase hdr items posts nexts => check_dyn hdr items posts nexts
  end.

Inductive explanation :=
| ExTrace (v : verdict) (order : bool)
| ExDyn (predicted_posts : list (list nat)) (predicted_next : bool).
Definition explain_case (c : c20case) : explanation :=
  match c with
  | mkCase _ _ => ExTrace (accepts c) (order_ok (c_log c))
  | mkDynCase hdr items _ _ => let p := dyn_parts hdr items in ExDyn p (negb (length p =? 0))
  end.
