(* Correspondence for C18.  One case = configuration (start instant, interval, offset), a
   script of harness operations, and what the real code did under a mock clock:
     - the clock reading and the duration of the clck.NewTimer call (the initial wait),
     - the clock reading of the clck.NewTicker call,
     - scenario "ticker" (real AlignedTicker, the harness is the consumer): what each
       non-blocking read of C returned,
     - scenario "flusher" (real MetricFlusher.Run, aligned): for every flush the clock reading
       at which the aggregators were invoked and the interval handed to Aggregator.Flush
       (None for the first flush: it is measured from the real wall clock).
   The harness lets all goroutines park after every operation (except before an initial [OE], see
   below), so a script denotes exactly one label sequence of Model.Ticker: after each operation the ticker goroutine runs until it
   parks (a run of [Tick] labels), and in the flusher scenario the flusher then consumes if it is
   not held in a flush (one [Consume] label).  [check_case] runs that label sequence through [step] and compares. *)
From GS Require Export Base.Bytes Base.CorrLib Model.Ticker.
Local Open Scope Z_scope.

Inductive op :=
| OA (d : Z)   (* Mock.Add(d), then let the goroutines park *)
| OE (d : Z)   (* as the FIRST op: Mock.Add(d) immediately after construction, without first letting
                  the goroutines run (the harness constructs and advances on a single P without
                  yielding).  Which of the two orders really happened is read off the recorded
                  clck.NewTimer call: clock reading = start means the goroutine ran first.  Anywhere
                  else in a script (only the shrinker produces that): same as OA *)
| OC           (* ticker scenario: non-blocking read of C *)
| OH           (* flusher scenario: the next flush blocks inside AggregateProcesser.Process *)
| OR.          (* flusher scenario: disarm; release a blocked flush, then let the goroutines park *)

Record tcase := TC {
  tc_flusher : bool;
  tc_start : Z; tc_interval : Z; tc_offset : Z;
  tc_ops : list op;
  tc_arm : option (Z * Z);
  tc_newticker : option Z;
  tc_reads : list (option Z);
  tc_flushes : list (Z * option Z)
}.

Record drv := Drv {
  d_st : state;
  d_gate : bool;                 (* next flush will block *)
  d_busy : bool;                 (* flusher is blocked inside a flush *)
  d_reads : list (option Z);     (* newest first *)
  d_ok : bool                    (* script was executable and every settle reached quiescence *)
}.

Section Drive.
  Variable fl : bool.
  Variable i o : Z.

  Fixpoint ticks (fuel : nat) (s : state) : state :=
    match fuel with
    | O => s
    | S f => match step i o s Tick with Some s' => ticks f s' | None => s end
    end.

  Definition parked (s : state) : bool :=
    match step i o s Tick with None => true | Some _ => false end.

  Definition settle (d : drv) : drv :=
    let s := ticks 8 (d_st d) in
    let ok := d_ok d && parked s in
    if fl && negb (d_busy d) then
      match step i o s Consume with
      | Some s' => Drv s' false (d_gate d) (d_reads d) ok
      | None => Drv s (d_gate d) (d_busy d) (d_reads d) ok
      end
    else Drv s (d_gate d) (d_busy d) (d_reads d) ok.

  Definition apply_op (d : drv) (x : op) : drv :=
    match x with
    | OA dd =>
        match step i o (d_st d) (Advance dd) with
        | Some s' => settle (Drv s' (d_gate d) (d_busy d) (d_reads d) (d_ok d))
        | None => Drv (d_st d) (d_gate d) (d_busy d) (d_reads d) false
        end
    | OC =>
        if fl then d else
        match step i o (d_st d) Consume with
        | Some s' => Drv s' (d_gate d) (d_busy d) (Some (last s') :: d_reads d) (d_ok d)
        | None => Drv (d_st d) (d_gate d) (d_busy d) (None :: d_reads d) (d_ok d)
        end
    | OE dd =>
        match step i o (d_st d) (Advance dd) with
        | Some s' => settle (Drv s' (d_gate d) (d_busy d) (d_reads d) (d_ok d))
        | None => Drv (d_st d) (d_gate d) (d_busy d) (d_reads d) false
        end
    | OH => if fl then Drv (d_st d) true (d_busy d) (d_reads d) (d_ok d) else d
    | OR => if fl then settle (Drv (d_st d) false false (d_reads d) (d_ok d)) else d
    end.

  Definition run_ops (start : Z) (arm : option (Z * Z)) (ops : list op) : drv :=
    let dinit := Drv (init start 0) false false [] true in
    let d1 :=
      match ops with
      | OE dd :: rest =>
          let goroutine_first := match arm with Some (a, _) => a =? start | None => false end in
          if goroutine_first
          then fold_left apply_op ops (settle dinit)      (* park, then advance, park *)
          else fold_left apply_op ops dinit               (* advance, then park: the goroutine starts at start + dd *)
      | _ => fold_left apply_op ops (settle dinit)
      end in
    if fl then apply_op d1 OR else d1.
End Drive.

Definition run_case (c : tcase) : drv :=
  run_ops (tc_flusher c) (tc_interval c) (tc_offset c) (tc_start c) (tc_arm c) (tc_ops c).

Definition pair_eqb (a b : Z * Z) : bool := (fst a =? fst b) && (snd a =? snd b).

(* observed flushes against the model's, oldest first; the first flush's interval is not fixed
   by the model (wall clock), every later one must be reported and equal *)
Fixpoint flushes_match (first : bool) (obs : list (Z * option Z)) (m : list flush) : bool :=
  match obs, m with
  | [], [] => true
  | (a, od) :: obs', f :: m' =>
      (a =? f_at f)
      && (if first then match od with None => true | Some _ => false end
          else match od with Some dl => dl =? f_delta f | None => false end)
      && flushes_match false obs' m'
  | _, _ => false
  end.

Definition check_case (c : tcase) : bool :=
  let d := run_case c in
  let s := d_st d in
  d_ok d
  && option_eqb pair_eqb (tc_arm c) (armed s)
  && option_eqb Z.eqb (tc_newticker c) (ticker_at s)
  && list_eqb (option_eqb Z.eqb) (tc_reads c) (rev (d_reads d))
  && (if tc_flusher c then flushes_match true (tc_flushes c) (rev (flushes s)) else true).

(* what the model computed: (ok, NewTimer (clock, wait), NewTicker clock, reads, flushes as
   (clock, tick, interval)) *)
Definition explain_case (c : tcase) :=
  let d := run_case c in
  let s := d_st d in
  (d_ok d, armed s, ticker_at s, rev (d_reads d),
   map (fun f => (f_at f, f_tick f, f_delta f)) (rev (flushes s))).
