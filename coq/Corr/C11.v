(* Correspondence for C11: lock-step comparison of the LTS of Model/Cloud.v with a real CloudHandler whose
   real Run goroutine is driven one select arm at a time (DispatchMetricMap / DispatchEvent meet the receive
   arms, the harness plays the cache: it receives on IpSink() = SendLookup and sends on InfoSource() = Info)
   over a scripted Peek and a capturing downstream handler.  After every arm the harness pushes two
   statsers through emitChan (two Emit arms: when the second has been served, the loop iteration of the
   label - including the refill of the send register - is complete and Run is idle), then records the
   observation.  One case = a list of (label, observation after label; Emit; Emit).  Compared:
     - what reached the downstream handler during the label: the dispatched MetricMap against the merge of
       the series the model delivered, exactly except for what Go's map iteration order decides when series
       collide after re-keying (order of timer values; which of two gauges with equal newest timestamp
       wins), and the multiset of events;
     - the park slots: key sets, the parked MetricMap per source (exact dump against the merge of the
       series the model parked), the parked events per source in order;
     - toLookupIPs against the model's stack: bottom to top, group by group (LIFO between arms, any order
       inside the group one handleIncomingMetrics call pushed), minus the one element in the send register;
     - the three queue gauges reported by the two emits.
   The source received on IpSink() is carried by the label SendLookup s; the model must allow it. *)
From GS Require Export Base.Bytes Base.CorrLib Model.Series Model.MetricMap Model.Cloud Corr.MMLib.
From stdpp Require Import gmap.
Local Open Scope Z_scope.

(* the scripted cache at one arrival: association table; absent = miss *)
Definition peek_of (t : list (source * option instance)) : peekfn :=
  λ s, snd <$> List.find (λ kv, str_eqb (fst kv) s) t.

Record obs := Obs {
  o_mms : list (list entry);               (* downstream DispatchMetricMap calls during the label *)
  o_evs : list cevent;                      (* downstream DispatchEvent calls during the label *)
  o_awaitM : list (source * list entry);   (* awaitingMetrics after the label, one dump per source *)
  o_awaitE : list (source * list cevent);   (* awaitingEvents after the label *)
  o_lookup : list source;                  (* toLookupIPs after the label *)
  o_gauges : Z * Z * Z                     (* hosts_queued{metric}, hosts_queued{cevent}, items_queued *)
}.

Record c11case := Case { k_steps : list (label * obs) }.

(* insertion sort on Z, for comparing timer values as multisets *)
Fixpoint zinsert (x : Z) (l : list Z) : list Z :=
  match l with [] => [x] | y :: r => if (x <=? y)%Z then x :: l else y :: zinsert x r end.
Definition zsort (l : list Z) : list Z := fold_right zinsert [] l.

Definition event_eqb (a b : cevent) : bool :=
  str_eqb (ev_title a) (ev_title b) && str_eqb (ev_text a) (ev_text b) && (ev_date a =? ev_date b)
  && str_eqb (ev_agg a) (ev_agg b) && str_eqb (ev_stn a) (ev_stn b) && strs_eqb (ev_tags a) (ev_tags b)
  && str_eqb (ev_src a) (ev_src b) && (ev_prio a =? ev_prio b) && (ev_alert a =? ev_alert b).

Fixpoint remove_first {A} (eqb : A -> A -> bool) (x : A) (l : list A) : option (list A) :=
  match l with
  | [] => None
  | y :: r => if eqb x y then Some r else cons y <$> remove_first eqb x r
  end.
Fixpoint perm_eqb {A} (eqb : A -> A -> bool) (a b : list A) : bool :=
  match a with
  | [] => match b with [] => true | _ => false end
  | x :: a' => match remove_first eqb x b with Some b' => perm_eqb eqb a' b' | None => false end
  end.

Definition new_batch (st st' : state) : list item := delivered <$> drop (length (down st)) (down st').
Definition batch_metrics (b : list item) : list entry :=
  omap (λ x, match x with IM e => Some e | IE _ => None end) b.
Definition batch_events (b : list item) : list cevent :=
  omap (λ x, match x with IE e => Some e | IM _ => None end) b.

(* a gauge of the batch that may have won the merge: same series, the merged (newest) timestamp, this value *)
Definition gauge_candidate (batch : list entry) (n k : str) (ts v : Z) : bool :=
  existsb (λ e, match e with
                | EG n2 k2 v2 ts2 _ _ => str_eqb n n2 && str_eqb k k2 && (ts2 =? ts) && (v2 =? v)
                | _ => false
                end) batch.

(* observed series [a] against the model's [b]: exact, except timer values as a multiset and a gauge
   value that may be any candidate *)
Definition entry_rel (batch : list entry) (a b : entry) : bool :=
  match a, b with
  | ET n k vs sn sd ts s tg, ET n' k' vs' sn' sd' ts' s' tg' =>
      entry_eqb (ET n k (zsort vs) sn sd ts s tg) (ET n' k' (zsort vs') sn' sd' ts' s' tg')
  | EG n k v ts s tg, EG n' k' v' ts' s' tg' =>
      entry_eqb (EG n k 0 ts s tg) (EG n' k' 0 ts' s' tg') && ((v =? v') || gauge_candidate batch n k ts v)
  | _, _ => entry_eqb a b
  end.

Definition dispatch_matches (es : list entry) (batch : list entry) : bool :=
  let m := abs_entries batch in
  (length es =? length (entries m))%nat
  && list_eqb (entry_rel batch) (entries (map_of_entries es)) (entries m).

Definition down_ok (st st' : state) (o : obs) : bool :=
  let b := new_batch st st' in
  match batch_metrics b, o_mms o with
  | [], [] => true
  | _ :: _, [d] => dispatch_matches d (batch_metrics b)
  | _, _ => false
  end
  && perm_eqb event_eqb (batch_events b) (o_evs o).

Definition slotsM_ok (st : state) (l : list (source * list entry)) : bool :=
  (length l =? size (awaitM st))%nat && bool_decide (NoDup l.*1)
  && forallb (λ kd, match awaitM st !! kd.1 with
                    | Some q => dump_matches kd.2 (abs_entries q)
                    | None => false
                    end) l.
Definition slotsE_ok (st : state) (l : list (source * list cevent)) : bool :=
  (length l =? size (awaitE st))%nat && bool_decide (NoDup l.*1)
  && forallb (λ kd, match awaitE st !! kd.1 with
                    | Some q => list_eqb event_eqb kd.2 q
                    | None => false
                    end) l.

Definition gauges_ok (st : state) (g : Z * Z * Z) : bool :=
  let '(a, b, c) := g in (a =? hostsM st) && (b =? hostsE st) && (c =? itemsE st).

Definition emit_ok (l : label) (st' : state) (g : Z * Z * Z) : bool :=
  match l with
  | Emit => match last (emitted st') with
            | Some (a, b, c) => let '(a', b', c') := g in (a =? a') && (b =? b') && (c =? c')
            | None => false
            end
  | _ => true
  end.

(* [taken] is [g] minus exactly [k] elements *)
Fixpoint remove_all (taken g : list source) : option (list source) :=
  match taken with
  | [] => Some g
  | x :: r => match remove_first str_eqb x g with Some g' => remove_all r g' | None => None end
  end.
(* toLookupIPs (bottom first) against the groups (bottom first) *)
Fixpoint lookup_ok (groups : list (bool * list source)) (obs : list source) : bool :=
  match groups with
  | [] => match obs with [] => true | _ => false end
  | (f, g) :: r =>
      let n := (length g - (if f then 1 else 0))%nat in
      match remove_all (take n obs) g with
      | Some rest => (length (take n obs) =? n)%nat && (length rest =? (if f then 1 else 0))%nat
                     && lookup_ok r (drop n obs)
      | None => false
      end
  end.

Definition obs_ok (st0 st1 st' : state) (o : obs) : bool :=
  down_ok st0 st1 o && slotsM_ok st' (o_awaitM o) && slotsE_ok st' (o_awaitE o)
  && lookup_ok (rev (stack (lk st'))) (o_lookup o) && gauges_ok st' (o_gauges o)
  && emit_ok Emit st' (o_gauges o).

(* one harness step: the label's arm, then the two barrier emits *)
Definition step3 (st : state) (l : label) : option (state * state) :=
  match step st l with
  | Some s1 => match step s1 Emit with
               | Some s2 => match step s2 Emit with Some s3 => Some (s1, s3) | None => None end
               | None => None
               end
  | None => None
  end.

(* index of the first step at which model and implementation differ; None = agree everywhere *)
Fixpoint first_bad (st : state) (n : N) (steps : list (label * obs)) : option (N * state * option (state * state)) :=
  match steps with
  | [] => None
  | (l, o) :: r =>
      match step3 st l with
      | None => Some (n, st, None)   (* the implementation took a step the model does not allow *)
      | Some (s1, s3) => if obs_ok st s1 s3 o then first_bad s3 (N.succ n) r else Some (n, st, Some (s1, s3))
      end
  end.

Definition check_case (k : c11case) : bool :=
  match first_bad init 0%N (k_steps k) with None => true | Some _ => false end.

(* for a failing case: the step index and the model's projection after that step *)
Record view := View {
  v_step : N;
  v_enabled : bool;
  v_down_metrics : list entry;     (* merged series the model dispatched during the step *)
  v_down_events : list cevent;
  v_awaitM : list (source * list entry);
  v_awaitE : list (source * list cevent);
  v_lookup : list (bool * list source);   (* the stack, bottom first; flag = register loaded from this group *)
  v_gauges : Z * Z * Z
}.

Definition explain_case (k : c11case) : option view :=
  match first_bad init 0%N (k_steps k) with
  | None => None
  | Some (n, _, None) => Some (View n false [] [] [] [] [] (0, 0, 0))
  | Some (n, st, Some (s1, st')) =>
      let b := new_batch st s1 in
      Some (View n true (entries (abs_entries (batch_metrics b))) (batch_events b)
                 (map (λ kq, (kq.1, entries (abs_entries kq.2))) (map_to_list (awaitM st')))
                 (map_to_list (awaitE st')) (rev (stack (lk st'))) (hostsM st', hostsE st', itemsE st'))
  end.
