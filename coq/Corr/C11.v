(* Correspondence for C11: lock-step comparison of the LTS of Model/Cloud.v with a real CloudHandler
   driven label by label (DispatchMetricMap / DispatchEvent for the caller side, then the verif step
   hooks for Run's arms) over a scripted CachedInstances and a capturing downstream handler.
   One case = a list of (label, observation after the label).  Compared after every label:
     - what reached the downstream handler during the label: the dispatched MetricMap (exact dump, against
       the merge of the series the model delivered) and the multiset of events;
     - the park slots: key sets, the parked MetricMap per source (exact dump against the merge of the
       series the model parked), the parked events per source in order;
     - toLookupIPs as a multiset (its order depends on Go's map iteration);
     - the three queue gauges, read through emit() into a capturing statser.
   The source popped by the real refill is carried by the label SendLookup s; the model must allow it. *)
From GS Require Export Base.Bytes Base.CorrLib Model.Series Model.MetricMap Model.Cloud Corr.MMLib.
From stdpp Require Import gmap.
Local Open Scope Z_scope.

(* the scripted cache at one arrival: association table; absent = miss *)
Definition peek_of (t : list (source * option instance)) : peekfn :=
  λ s, snd <$> List.find (λ kv, str_eqb (fst kv) s) t.

Record obs := Obs {
  o_mms : list (list entry);               (* downstream DispatchMetricMap calls during the label *)
  o_evs : list cevent;                      (* downstream DispatchEvent calls during the label *)
  o_awaitM : list (source * list entry);   (* awaitingMetrics after the label, one dump per source *)
  o_awaitE : list (source * list cevent);   (* awaitingEvents after the label *)
  o_lookup : list source;                  (* toLookupIPs after the label *)
  o_gauges : Z * Z * Z                     (* hosts_queued{metric}, hosts_queued{cevent}, items_queued *)
}.

Record c11case := Case { k_steps : list (label * obs) }.

Definition event_eqb (a b : cevent) : bool :=
  str_eqb (ev_title a) (ev_title b) && str_eqb (ev_text a) (ev_text b) && (ev_date a =? ev_date b)
  && str_eqb (ev_agg a) (ev_agg b) && str_eqb (ev_stn a) (ev_stn b) && strs_eqb (ev_tags a) (ev_tags b)
  && str_eqb (ev_src a) (ev_src b) && (ev_prio a =? ev_prio b) && (ev_alert a =? ev_alert b).

Fixpoint remove_first {A} (eqb : A -> A -> bool) (x : A) (l : list A) : option (list A) :=
  match l with
  | [] => None
  | y :: r => if eqb x y then Some r else cons y <$> remove_first eqb x r
  end.
Fixpoint perm_eqb {A} (eqb : A -> A -> bool) (a b : list A) : bool :=
  match a with
  | [] => match b with [] => true | _ => false end
  | x :: a' => match remove_first eqb x b with Some b' => perm_eqb eqb a' b' | None => false end
  end.

Definition new_batch (st st' : state) : list item := delivered <$> drop (length (down st)) (down st').
Definition batch_metrics (b : list item) : list entry :=
  omap (λ x, match x with IM e => Some e | IE _ => None end) b.
Definition batch_events (b : list item) : list cevent :=
  omap (λ x, match x with IE e => Some e | IM _ => None end) b.

Definition down_ok (st st' : state) (o : obs) : bool :=
  let b := new_batch st st' in
  match batch_metrics b, o_mms o with
  | [], [] => true
  | _ :: _, [d] => dump_matches d (abs_entries (batch_metrics b))
  | _, _ => false
  end
  && perm_eqb event_eqb (batch_events b) (o_evs o).

Definition slotsM_ok (st : state) (l : list (source * list entry)) : bool :=
  (length l =? size (awaitM st))%nat && bool_decide (NoDup l.*1)
  && forallb (λ kd, match awaitM st !! kd.1 with
                    | Some q => dump_matches kd.2 (abs_entries q)
                    | None => false
                    end) l.
Definition slotsE_ok (st : state) (l : list (source * list cevent)) : bool :=
  (length l =? size (awaitE st))%nat && bool_decide (NoDup l.*1)
  && forallb (λ kd, match awaitE st !! kd.1 with
                    | Some q => list_eqb event_eqb kd.2 q
                    | None => false
                    end) l.

Definition gauges_ok (st : state) (g : Z * Z * Z) : bool :=
  let '(a, b, c) := g in (a =? hostsM st) && (b =? hostsE st) && (c =? itemsE st).

Definition emit_ok (l : label) (st' : state) (g : Z * Z * Z) : bool :=
  match l with
  | Emit => match last (emitted st') with
            | Some (a, b, c) => let '(a', b', c') := g in (a =? a') && (b =? b') && (c =? c')
            | None => false
            end
  | _ => true
  end.

Definition obs_ok (l : label) (st st' : state) (o : obs) : bool :=
  down_ok st st' o && slotsM_ok st' (o_awaitM o) && slotsE_ok st' (o_awaitE o)
  && perm_eqb str_eqb (o_lookup o) (toLookup st') && gauges_ok st' (o_gauges o)
  && emit_ok l st' (o_gauges o).

(* index of the first step at which model and implementation differ; None = agree everywhere *)
Fixpoint first_bad (st : state) (n : N) (steps : list (label * obs)) : option (N * state * option state) :=
  match steps with
  | [] => None
  | (l, o) :: r =>
      match step st l with
      | None => Some (n, st, None)   (* the implementation took a step the model does not allow *)
      | Some st' => if obs_ok l st st' o then first_bad st' (N.succ n) r else Some (n, st, Some st')
      end
  end.

Definition check_case (k : c11case) : bool :=
  match first_bad init 0%N (k_steps k) with None => true | Some _ => false end.

(* for a failing case: the step index and the model's projection after that step *)
Record view := View {
  v_step : N;
  v_enabled : bool;
  v_down_metrics : list entry;     (* merged series the model dispatched during the step *)
  v_down_events : list cevent;
  v_awaitM : list (source * list entry);
  v_awaitE : list (source * list cevent);
  v_lookup : list source;
  v_gauges : Z * Z * Z
}.

Definition explain_case (k : c11case) : option view :=
  match first_bad init 0%N (k_steps k) with
  | None => None
  | Some (n, _, None) => Some (View n false [] [] [] [] [] (0, 0, 0))
  | Some (n, st, Some st') =>
      let b := new_batch st st' in
      Some (View n true (entries (abs_entries (batch_metrics b))) (batch_events b)
                 (map (λ kq, (kq.1, entries (abs_entries kq.2))) (map_to_list (awaitM st')))
                 (map_to_list (awaitE st')) (toLookup st') (hostsM st', hostsE st', itemsE st'))
  end.
