(* Correspondence for C09: a history of datapoint batches and flushes is run through the real
   MetricAggregator (built through statsd.Server's standalone wiring, clock set by the verif
   hook) and through Model/Expiry.v; at every flush the set of series handed to the backends and
   their C09-relevant values are compared.  A second case shape compares the configuration
   precedence of cmd/gostatsd (expiry-interval-<type> > expiry-interval > default). *)
From stdpp Require Import gmap sorting.
From Coq Require Import QArith Qcanon.
From GS Require Export Base.Bytes Base.CorrLib Base.GoFloat Model.Lexer Model.Series Model.MetricMap Model.Expiry.
Local Open Scope Z_scope.

(* one series as the harness saw it in the map given to Process *)
Inductive obs_entry :=
| OC (name key : str) (val : Z) (per_second_bits : Z) (ts : Z)
| OG (name key : str) (bits : Z) (ts : Z)
| OT (name key : str) (vals : list Z) (count : Z) (samp_bits : Z) (per_second_bits : Z)
     (npct : Z) (hist_inf : option Z) (hist_finite_all_zero : bool) (ts : Z)
| OS (name key : str) (members : list str) (ts : Z).

Inductive c09case :=
| C09 (cfg : config) (lim : N) (h : list op) (obs : list (list obs_entry))
| C09Cfg (p : expiry_params) (obs : config).

Definition qc_bits_eqb (bits : Z) (q : Qc) : bool := f64_is_finite bits && Qc_eq_bool (Qc_of_bits bits) q.
Definition zsort (l : list Z) : list Z := merge_sort Z.le l.
Definition zlist_eqb := list_eqb Z.eqb.
Definition optz_eqb := option_eqb Z.eqb.

Definition entry_matches (r : report) (e : obs_entry) : bool :=
  match e with
  | OC n k v ps ts =>
      match r_counters r !! (n, k) with
      | Some c => (rc_val c =? v) && qc_bits_eqb ps (rc_per_second c) && (rc_ts c =? ts)
      | None => false
      end
  | OG n k b ts =>
      match r_gauges r !! (n, k) with
      | Some g => (rg_val g =? b) && (rg_ts g =? ts)
      | None => false
      end
  | OT n k vs cnt samp ps npct hinf hzero ts =>
      match r_timers r !! (n, k) with
      | Some t =>
          zlist_eqb (zsort vs) (zsort (rt_vals t)) && (rt_count t =? cnt)
          && qc_bits_eqb samp (rt_samp t) && qc_bits_eqb ps (rt_per_second t)
          && Bool.eqb (rt_has_pct t) (0 <? npct) && optz_eqb (rt_hist_inf t) hinf
          && (negb (length (rt_vals t) =? 0)%nat || hzero) && (rt_ts t =? ts)
      | None => false
      end
  | OS n k ms ts =>
      match r_sets r !! (n, k) with
      | Some s => bool_decide (rs_vals s = list_to_set ms) && (length ms =? size (rs_vals s))%nat && (rs_ts s =? ts)
      | None => false
      end
  end.

Definition obs_key (e : obs_entry) : N * skey :=
  match e with
  | OC n k _ _ _ => (0%N, (n, k)) | OG n k _ _ => (1%N, (n, k))
  | OT n k _ _ _ _ _ _ _ _ => (2%N, (n, k)) | OS n k _ _ => (3%N, (n, k))
  end.

Definition report_size (r : report) : nat :=
  (size (r_counters r) + size (r_timers r) + size (r_gauges r) + size (r_sets r))%nat.

(* same set of series (no duplicates observed, same number, each observed one in the model)
   and equal values *)
Definition report_matches (es : list obs_entry) (r : report) : bool :=
  (length es =? report_size r)%nat
  && (size (list_to_set (obs_key <$> es) : gset (N * skey)) =? length es)%nat
  && forallb (entry_matches r) es.

Fixpoint all2 {A B} (f : A -> B -> bool) (l : list A) (m : list B) : bool :=
  match l, m with
  | [], [] => true
  | a :: l', b :: m' => f a b && all2 f l' m'
  | _, _ => false
  end.

Definition config_eqb (a b : config) : bool :=
  (exp_counter a =? exp_counter b) && (exp_gauge a =? exp_gauge b)
  && (exp_set a =? exp_set b) && (exp_timer a =? exp_timer b).

Definition check_case (c : c09case) : bool :=
  match c with
  | C09 cfg lim h obs => all2 report_matches obs (reports cfg lim h)
  | C09Cfg p obs => config_eqb (resolve p) obs
  end.

(* the model's reports, printable *)
Definition show_report (r : report) : list obs_entry :=
  ((fun '((n, k), c) => OC n k (rc_val c) (Qnum (this (rc_per_second c))) (rc_ts c)) <$> map_to_list (r_counters r))
  ++ ((fun '((n, k), g) => OG n k (rg_val g) (rg_ts g)) <$> map_to_list (r_gauges r))
  ++ ((fun '((n, k), t) => OT n k (zsort (rt_vals t)) (rt_count t) (Qnum (this (rt_samp t))) (Qnum (this (rt_per_second t)))
                              (if rt_has_pct t then 1 else 0) (rt_hist_inf t) true (rt_ts t)) <$> map_to_list (r_timers r))
  ++ ((fun '((n, k), s) => OS n k (elements (rs_vals s)) (rs_ts s)) <$> map_to_list (r_sets r)).

Definition explain_case (c : c09case) : list (list obs_entry) + config :=
  match c with
  | C09 cfg lim h _ => inl (show_report <$> reports cfg lim h)
  | C09Cfg p _ => inr (resolve p)
  end.
