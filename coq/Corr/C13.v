(* Correspondence for C13: one case = the two regexes as oracle tables (computed by the harness
   directly from Go's regexp for every label / annotation key of the case), and a history of
   deliveries and lookups made on a real Provider, each lookup with the answer the real code
   gave.  [check_case] replays the history on the model in lock-step and compares every lookup
   answer: nil / non-nil, the ID, and the tags as a multiset (Go builds them in map order).
   When several indexable pods share the looked-up IP (outside C13's hypothesis) Go's ByIndex
   picks one in map order: the answer must then be the instance of one of them, and the model
   continues with that one memoised. *)
From stdpp Require Import gmap.
From GS Require Export Base.Bytes Base.CorrLib Model.K8s.

Definition retable := list (str * option (str * list (str * str))).

Inductive ev :=
| EAdd (p : pod)
| EUpdate (old new : pod)
| EDelete (p : pod)
| ELookup (ip : str) (ans : option (str * list str)).

Record k8scase := KC { kc_label_re : option retable; kc_annot_re : option retable; kc_evs : list ev }.

Definition re_of (t : retable) : regex :=
  MkRe (fun k => match assoc_str k t with Some r => r | None => None end).

Definition cfg_of (c : k8scase) : config :=
  MkCfg (option_map re_of (kc_label_re c)) (option_map re_of (kc_annot_re c)).

(* the oracle tables must cover every key the model can ask about *)
Definition covered (t : option retable) (kvs : list (str * str)) : bool :=
  match t with
  | None => true
  | Some t => forallb (fun kv => match assoc_str (fst kv) t with Some _ => true | None => false end) kvs
  end.
Definition pod_covered (c : k8scase) (p : pod) : bool :=
  covered (kc_label_re c) (p_labels p) && covered (kc_annot_re c) (p_annots p).
Definition ev_covered (c : k8scase) (e : ev) : bool :=
  match e with
  | EAdd p | EDelete p => pod_covered c p
  | EUpdate o n => pod_covered c o && pod_covered c n
  | ELookup _ _ => true
  end.

(* multiset equality of tag lists *)
Fixpoint remove_one (x : str) (l : list str) : option (list str) :=
  match l with
  | [] => None
  | y :: r => if str_eqb x y then Some r
              else match remove_one x r with Some r' => Some (y :: r') | None => None end
  end.
Fixpoint perm_eqb (a b : list str) : bool :=
  match a with
  | [] => match b with [] => true | _ => false end
  | x :: a' => match remove_one x b with Some b' => perm_eqb a' b' | None => false end
  end.

Definition ans_matches (o : option (str * list str)) (m : option instance) : bool :=
  match o, m with
  | None, None => true
  | Some (id, tags), Some i => str_eqb id (i_id i) && perm_eqb tags (i_tags i)
  | _, _ => false
  end.

Fixpoint replay (cfg : config) (s : state) (evs : list ev) : bool :=
  match evs with
  | [] => true
  | EAdd p :: r => replay cfg (step cfg s (Add p)) r
  | EUpdate o n :: r => replay cfg (step cfg s (Update o n)) r
  | EDelete p :: r => replay cfg (step cfg s (Delete p)) r
  | ELookup ip ans :: r =>
      match candidates (store s) ip, memo s !! ip with
      | (_ :: _ :: _) as cs, (None | Some None) =>
          (* ambiguous index read: any of the candidates *)
          match List.find (fun c => ans_matches ans (Some (derive cfg c))) cs with
          | Some c => replay cfg (MkSt (store s) (<[ip := Some (derive cfg c)]> (memo s))) r
          | None => false
          end
      | _, _ => ans_matches ans (fst (lookup cfg s ip)) && replay cfg (step cfg s (Lookup ip)) r
      end
  end.

Definition check_case (c : k8scase) : bool :=
  forallb (ev_covered c) (kc_evs c) && replay (cfg_of c) init (kc_evs c).

(* for a failing case: whether the tables were complete, and the model's answer to every lookup
   of the history (deterministic run: first candidate) *)
Fixpoint answers (cfg : config) (s : state) (evs : list ev) : list (str * option instance) :=
  match evs with
  | [] => []
  | EAdd p :: r => answers cfg (step cfg s (Add p)) r
  | EUpdate o n :: r => answers cfg (step cfg s (Update o n)) r
  | EDelete p :: r => answers cfg (step cfg s (Delete p)) r
  | ELookup ip _ :: r => (ip, fst (lookup cfg s ip)) :: answers cfg (step cfg s (Lookup ip)) r
  end.

Definition explain_case (c : k8scase) : bool * list (str * option instance) :=
  (forallb (ev_covered c) (kc_evs c), answers (cfg_of c) init (kc_evs c)).
