(* Correspondence for C13: one case = the two regexes as oracle tables (computed by the harness
   directly from Go's regexp for every label / annotation key of the case), and a history of
   deliveries and lookups made on a real Provider, each lookup with the answer the real code
   gave.  [check_case] replays the history on the model in lock-step and compares every lookup
   answer: nil / non-nil, the ID, and the tags as a multiset (Go builds them in map order).
   When several indexable pods share the looked-up IP (outside C13's hypothesis) Go's ByIndex
   picks one in map order: the answer must then be the instance of one of them, and the model
   continues with that one memoised.
   Stream async: the history is a schedule of the finer labels of Model/K8sAsync.v (index update,
   handler call, the lock scopes of a lookup) realised on the real Provider through the
   AfterByIndex hook.  [areplay] requires every label to be enabled in the model (a lookup the
   implementation served from the memo must be a hit in the model and vice versa) and every
   returned answer to be the model's - stale ones included: agreement, not a violation. *)
From stdpp Require Import gmap.
From GS Require Export Base.Bytes Base.CorrLib Model.K8s Model.K8sAsync.

Definition retable := list (str * option (str * list (str * str))).

Inductive ev :=
| EAdd (p : pod)
| EUpdate (old new : pod)
| EDelete (p : pod)
| ELookup (ip : str) (ans : option (str * list str))
(* a lagging consumer of InfoSource: the IP is received by Provider.Run (which resolves the
   instance at that moment: a Lookup) but its InstanceInfo is read later, possibly after
   further IPs and deliveries, in an order the implementation chooses *)
| EPush (ip : str)
| EDrain (infos : list (str * option (str * list str))).

Definition answer := option (str * list str).

Inductive aev :=
| AIndexUpdate (d : delivery)
| AHandlerCall
| AReadMemo (t : N) (ip : str)
| AReturnHit (t : N) (ans : answer)
| AReadIndex (t : N)
| AWriteMemo (t : N) (ans : answer).

Record k8scase := KC { kc_label_re : option retable; kc_annot_re : option retable;
                       kc_evs : list ev;       (* streams unique / shared / offcontract *)
                       kc_aevs : list aev }.   (* stream async *)

Definition re_of (t : retable) : regex :=
  MkRe (fun k => match assoc_str k t with Some r => r | None => None end).

Definition cfg_of (c : k8scase) : config :=
  MkCfg (option_map re_of (kc_label_re c)) (option_map re_of (kc_annot_re c)).

(* the oracle tables must cover every key the model can ask about *)
Definition covered (t : option retable) (kvs : list (str * str)) : bool :=
  match t with
  | None => true
  | Some t => forallb (fun kv => match assoc_str (fst kv) t with Some _ => true | None => false end) kvs
  end.
Definition pod_covered (c : k8scase) (p : pod) : bool :=
  covered (kc_label_re c) (p_labels p) && covered (kc_annot_re c) (p_annots p).
Definition ev_covered (c : k8scase) (e : ev) : bool :=
  match e with
  | EAdd p | EDelete p => pod_covered c p
  | EUpdate o n => pod_covered c o && pod_covered c n
  | ELookup _ _ | EPush _ | EDrain _ => true
  end.

(* multiset equality of tag lists *)
Fixpoint remove_one (x : str) (l : list str) : option (list str) :=
  match l with
  | [] => None
  | y :: r => if str_eqb x y then Some r
              else match remove_one x r with Some r' => Some (y :: r') | None => None end
  end.
Fixpoint perm_eqb (a b : list str) : bool :=
  match a with
  | [] => match b with [] => true | _ => false end
  | x :: a' => match remove_one x b with Some b' => perm_eqb a' b' | None => false end
  end.

Definition ans_matches (o : option (str * list str)) (m : option instance) : bool :=
  match o, m with
  | None, None => true
  | Some (id, tags), Some i => str_eqb id (i_id i) && perm_eqb tags (i_tags i)
  | _, _ => false
  end.

(* the answers owed to the consumer: (ip, the model's answer when the ip was received) *)
Fixpoint settle_one (ip : str) (ans : option (str * list str)) (owed : list (str * option instance))
  : option (list (str * option instance)) :=
  match owed with
  | [] => None
  | (ip', m) :: r =>
      if str_eqb ip ip' && ans_matches ans m then Some r
      else match settle_one ip ans r with Some r' => Some ((ip', m) :: r') | None => None end
  end.
Fixpoint settle (infos : list (str * option (str * list str))) (owed : list (str * option instance))
  : option (list (str * option instance)) :=
  match infos with
  | [] => Some owed
  | (ip, ans) :: r => match settle_one ip ans owed with Some owed' => settle r owed' | None => None end
  end.

(* every InstanceInfo read must carry, for its own ip, the answer of one of the receipts still owed;
   at the end nothing is owed *)
Fixpoint replay (cfg : config) (s : state) (owed : list (str * option instance)) (evs : list ev) : bool :=
  match evs with
  | [] => match owed with [] => true | _ => false end
  | EAdd p :: r => replay cfg (step cfg s (Add p)) owed r
  | EUpdate o n :: r => replay cfg (step cfg s (Update o n)) owed r
  | EDelete p :: r => replay cfg (step cfg s (Delete p)) owed r
  | ELookup ip ans :: r =>
      match candidates (store s) ip, memo s !! ip with
      | (_ :: _ :: _) as cs, (None | Some None) =>
          (* ambiguous index read: any of the candidates *)
          match List.find (fun c => ans_matches ans (Some (derive cfg c))) cs with
          | Some c => replay cfg (MkSt (store s) (<[ip := Some (derive cfg c)]> (memo s))) owed r
          | None => false
          end
      | _, _ => ans_matches ans (fst (lookup cfg s ip)) && replay cfg (step cfg s (Lookup ip)) owed r
      end
  | EPush ip :: r =>
      match candidates (store s) ip, memo s !! ip with
      | _ :: _ :: _, (None | Some None) => true   (* ambiguous and not yet observable: not judged (never generated) *)
      | _, _ => replay cfg (step cfg s (Lookup ip)) (owed ++ [(ip, fst (lookup cfg s ip))]) r
      end
  | EDrain infos :: r =>
      match settle infos owed with Some owed' => replay cfg s owed' r | None => false end
  end.

(* ---- stream async *)
Definition dcovered (c : k8scase) (d : delivery) : bool :=
  match d with
  | DAdd p | DDelete p => pod_covered c p
  | DUpdate o n => pod_covered c o && pod_covered c n
  end.
Definition aev_covered (c : k8scase) (e : aev) : bool :=
  match e with AIndexUpdate d => dcovered c d | _ => true end.

Definition alabel_of (e : aev) : alabel :=
  match e with
  | AIndexUpdate d => IndexUpdate d
  | AHandlerCall => HandlerCall
  | AReadMemo t ip => LookupReadMemo t ip
  | AReturnHit t _ => LookupReturnHit t
  | AReadIndex t => LookupReadIndex t
  | AWriteMemo t _ => LookupWriteMemo t
  end.

(* the answer the model returns when lookup t finishes in state s *)
Definition returns (s : astate) (t : N) : option (option instance) :=
  match a_pending s !! t with
  | Some (PHit _ i) => Some (Some i)
  | Some (PComputed _ r) => Some r
  | _ => None
  end.

(* an index read that Go may resolve either way (several indexable pods on the IP): the async
   generator never produces it; if it happens the rest of the case is not judged *)
Definition ambiguous_read (s : astate) (e : aev) : bool :=
  match e with
  | AReadIndex t =>
      match a_pending s !! t with
      | Some (PMiss ip) => match candidates (a_store s) ip with _ :: _ :: _ => true | _ => false end
      | _ => false
      end
  | _ => false
  end.

Fixpoint areplay (cfg : config) (s : astate) (evs : list aev) : bool :=
  match evs with
  | [] => true
  | e :: r =>
      if ambiguous_read s e then true else
      match astep cfg s (alabel_of e) with
      | None => false
      | Some s' =>
          match e with
          | AReturnHit t ans | AWriteMemo t ans =>
              match returns s t with Some m => ans_matches ans m | None => false end
          | _ => true
          end && areplay cfg s' r
      end
  end.

Fixpoint aanswers (cfg : config) (s : astate) (evs : list aev) : list (str * option instance) :=
  match evs with
  | [] => map (fun o => (snd (fst o), snd o)) (a_out s)
  | e :: r => match astep cfg s (alabel_of e) with
              | Some s' => aanswers cfg s' r
              | None => map (fun o => (snd (fst o), snd o)) (a_out s) ++ [([], None)]  (* label not enabled *)
              end
  end.

Definition check_case (c : k8scase) : bool :=
  forallb (ev_covered c) (kc_evs c) && replay (cfg_of c) init [] (kc_evs c) &&
  forallb (aev_covered c) (kc_aevs c) && areplay (cfg_of c) ainit (kc_aevs c).

(* for a failing case: whether the tables were complete, and the model's answer to every lookup
   of the history (deterministic run: first candidate) *)
Fixpoint answers (cfg : config) (s : state) (evs : list ev) : list (str * option instance) :=
  match evs with
  | [] => []
  | EAdd p :: r => answers cfg (step cfg s (Add p)) r
  | EUpdate o n :: r => answers cfg (step cfg s (Update o n)) r
  | EDelete p :: r => answers cfg (step cfg s (Delete p)) r
  | ELookup ip _ :: r | EPush ip :: r => (ip, fst (lookup cfg s ip)) :: answers cfg (step cfg s (Lookup ip)) r
  | EDrain _ :: r => answers cfg s r
  end.

Definition explain_case (c : k8scase) : bool * list (str * option instance) :=
  (forallb (ev_covered c) (kc_evs c) && forallb (aev_covered c) (kc_aevs c),
   match kc_aevs c with
   | [] => answers (cfg_of c) init (kc_evs c)
   | aevs => aanswers (cfg_of c) ainit aevs
   end).
