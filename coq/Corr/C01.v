(* Correspondence for C01.

   SysCase: one run of the real pipeline (BackendHandler + workers + MetricFlusher.flushData +
   N DatagramParser goroutines + concurrent flusher), observed at the two points the property
   names: the datagram batches written to the parsers' input channel, and every MetricMap handed
   to Backend.SendMetricsAsync (flush number, worker, deep copy).  The run ends with quiescence
   and a final flush, so by C01_exact_at_quiescence the per-series totals over all captured
   flushes have exactly one admissible value: the content of the input.  The model computes
   that content from the same datagrams (Datagram.parse_all -> receive_all, equal to
   [input_total] by Proofs/PipelineAlgebra.cnt_receive_all) and compares in Coq:
     - totals: counter sums, timer value multisets, sampled-count sums, set members, and the
       set of reported series (of every type) = the set of sent series;
     - routing: every series of a map captured from worker i has bucket i (C01_routing_invariant);
     - once per flush: no (flush, worker) twice, no series twice within one flush.
   Which interleaving the run took is not observed (all of them are label sequences of the LTS).

   AggCase: lock-step on one real MetricAggregator: ReceiveMap / Flush+Process / Reset(now) vs
   merge / agg_flush / agg_reset, dumps compared after every Flush and Reset (timer values as
   multisets: Flush sorts them in place). *)
From stdpp Require Import gmap.
From GS Require Export Corr.MMLib Model.Content Model.Pipeline Model.PipelineBounded.
From Coq Require Import QArith Qcanon.
From GS Require Model.Datagram.

Inductive oentry :=
| OC (name key : str) (v : Z)
| OT (name key : str) (vals : list Z) (sn : Z) (sd : positive)
| OG (name key : str)
| OS (name key : str) (members : list str).

Record dgram := DG { dg_ip : str; dg_ts : Z; dg_msg : str }.

Inductive aop :=
| AMerge (ds : list datapoint)
| AFlush (obs : list entry)
| AReset (now : Z) (obs : list entry).

(* what one goroutine of the real pipeline was seen doing, in its own order *)
Inductive wev :=
| WM (b : nat)      (* worker: ReceiveMap of the split of batch b *)
| WC                (* worker: the process command starts (Flush is entered) *)
| WE.               (* worker: the process command ends (Reset has returned) *)

(* a proposed interleaving (computed by the harness from the per-goroutine logs; unobservable
   channel sends filled in); Coq checks that it is a run of Model/PipelineBounded.v *)
Inductive wlabel :=
| WParse (p b : nat) | WEnq (p : nat) | WRdv (p : nat) | WMerge (i : nat) | WTick | WCmd (i : nat) | WExec (i : nat).

Record strace := STrace {
  tr_parsers : nat; tr_qcap : nat;
  tr_exp_counter : Z; tr_exp_timer : Z; tr_exp_gauge : Z; tr_exp_set : Z;
  tr_wit : list wlabel;
  tr_plog : list (list nat);      (* per parser: the batches it dispatched *)
  tr_wlog : list (list wev);      (* per worker *)
  tr_ticks : nat                  (* flushData calls *)
}.

Inductive c01case :=
| SysCase (shards : nat) (ns : str) (ignore_host : bool)   (* workers; the parser's namespace and ignore-host *)
          (static : list str)                               (* TagHandler: static tags (no filters) *)
          (batches : list (list dgram)) (table : list (str * pfres))
          (flushes : list (nat * nat * list oentry))
          (tr : option strace)   (* None: the harness could not resolve the logs (a monitor reports why) *)
| AggCase (c : config) (ops : list aop).

(* ---------------------------------------------------------------------------------------- *)

Definition oracle (t : list (str * pfres)) (s : str) : pfres :=
  match assoc_str s t with Some r => r | None => PFMiss end.

(* the datapoints of all batches (parser.go through Model/Datagram.v); None = the datagram
   model reports a panic *)
(* The tag stage between the parsers and the BackendHandler (handler_tags.go TagHandler without
   filters: uniqueTags(tags, static)): the first occurrences of a metric's tags, then the static tags
   that are not among them.  The handler re-keys every value of the batch's map by the resulting tags
   and merges values whose keys now coincide; for counters, timers and sets that is the same as
   applying the rule to every datapoint before it is received (gauges are compared by presence only). *)
Fixpoint dedup_tags (seen : list str) (l : list str) : list str :=
  match l with
  | [] => []
  | x :: r => if existsb (str_eqb x) seen then dedup_tags seen r else x :: dedup_tags (x :: seen) r
  end.
Definition tag_stage (static : list str) (d : datapoint) : datapoint :=
  let u := dedup_tags [] (dp_tags d) in
  MkDp (dp_name d) (dp_type d) (dp_value d) (dp_strval d) (dp_rate d) (u ++ dedup_tags u static) (dp_src d) (dp_ts d).

Definition parse_each (ns : str) (ih : bool) (static : list str) (t : list (str * pfres)) (bs : list (list dgram))
    : option (list (list datapoint)) :=
  foldr (λ b acc,
           match acc, Datagram.parse_all (oracle t) (Datagram.Cfg ns ih)
                        (map (λ d, Datagram.Dg (dg_ip d) (dg_ts d) (dg_msg d)) b) with
           | Some ds, Datagram.DgOk r => Some ((tag_stage static <$> Datagram.dg_metrics r) :: ds)
           | _, _ => None
           end) (Some []) bs.

Definition okey (e : oentry) : skey :=
  match e with OC n k _ | OT n k _ _ _ | OG n k | OS n k _ => (n, k) end.
Definition otype (e : oentry) : nat :=
  match e with OC _ _ _ => 0 | OT _ _ _ _ _ => 1 | OG _ _ => 2 | OS _ _ _ => 3 end.

Definition add_oentry (m : mmap) (e : oentry) : mmap :=
  match e with
  | OC n k v => MkMap (<[(n, k) := MkCounter v 0 [] []]> (counters m)) (timers m) (gauges m) (sets m)
  | OT n k vs sn sd => MkMap (counters m) (<[(n, k) := MkTimer vs (Q2Qc (Qmake sn sd)) 0 [] []]> (timers m)) (gauges m) (sets m)
  | OG n k => MkMap (counters m) (timers m) (<[(n, k) := MkGauge 0 0 [] []]> (gauges m)) (sets m)
  | OS n k ms => MkMap (counters m) (timers m) (gauges m) (<[(n, k) := MkSet (list_to_set ms) 0 [] []]> (sets m))
  end.
Definition omap_of (es : list oentry) : mmap := fold_left add_oentry es empty_map.

(* canonical dump of what the property fixes *)
Fixpoint zinsert (x : Z) (l : list Z) : list Z :=
  match l with
  | [] => [x]
  | y :: r => if (x <=? y)%Z then x :: l else y :: zinsert x r
  end.
Definition zsort (l : list Z) : list Z := foldr zinsert [] l.

Inductive cd :=
| CDc (k : skey) (v : Z)
| CDt (k : skey) (vals : list Z) (sn : Z) (sd : positive)
| CDg (k : skey)
| CDs (k : skey) (members : list str).

Definition cdump (m : mmap) : list cd :=
  ((λ '(k, c), CDc k (c_val c)) <$> map_to_list (counters m))
  ++ ((λ '(k, t), CDt k (zsort (t_vals t)) (Qnum (this (t_samp t))) (Qden (this (t_samp t)))) <$> map_to_list (timers m))
  ++ ((λ '(k, _), CDg k) <$> map_to_list (gauges m))
  ++ ((λ '(k, s), CDs k (elements (s_vals s))) <$> map_to_list (sets m)).

Definition skey_eqb (a b : skey) : bool := str_eqb a.1 b.1 && str_eqb a.2 b.2.
Definition cd_eqb (a b : cd) : bool :=
  match a, b with
  | CDc k v, CDc k' v' => skey_eqb k k' && (v =? v')%Z
  | CDt k vs sn sd, CDt k' vs' sn' sd' => skey_eqb k k' && zlist_eqb vs vs' && (sn =? sn')%Z && (sd =? sd')%positive
  | CDg k, CDg k' => skey_eqb k k'
  | CDs k ms, CDs k' ms' => skey_eqb k k' && strs_eqb ms ms'
  | _, _ => false
  end.
Definition same_content (a b : mmap) : bool := list_eqb cd_eqb (cdump a) (cdump b).

(* every series at most once per flush: all entries of one flush id are accumulated in one map;
   no entry may overwrite another, i.e. the sizes add up *)
Definition mm_count (m : mmap) : nat :=
  size (counters m) + size (timers m) + size (gauges m) + size (sets m).
Fixpoint acc_flush (f : nat) (es : list oentry) (acc : list (nat * mmap)) : list (nat * mmap) :=
  match acc with
  | [] => [(f, fold_left add_oentry es empty_map)]
  | (g, m) :: r => if (f =? g)%nat then (g, fold_left add_oentry es m) :: r else (g, m) :: acc_flush f es r
  end.
Definition series_unique_per_flush (fl : list (nat * nat * list oentry)) : bool :=
  let acc := fold_left (λ a '(f, _, es), acc_flush f es a) fl [] in
  (foldr (λ x n, mm_count x.2 + n) 0 acc =? foldr (λ '(_, _, es) n, length es + n) 0 fl)%nat.

Fixpoint pairs_unique (l : list (nat * nat)) : bool :=
  match l with
  | [] => true
  | (a, b) :: r => negb (existsb (λ '(a', b'), (a =? a')%nat && (b =? b')%nat) r) && pairs_unique r
  end.

Definition routed (n : nat) (fl : list (nat * nat * list oentry)) : bool :=
  forallb (λ '(_, w, es),
             (w <? n)%nat && forallb (λ e, (shard_of_key (MkCfg n 0 0 0 0) (okey e) =? w)%nat) es) fl.

Record sys_view := SV { sv_in : list cd; sv_out : list cd }.

Definition sys_model (dps : list (list datapoint)) (fl : list (nat * nat * list oentry)) : mmap * mmap :=
  (receive_all empty_map (concat dps), merge_maps (map (λ x, omap_of x.2) fl)).

(* ---- the recorded run against Model/PipelineBounded.v ----
   The harness stamps the datagrams of batch b with 1000 + 100 b + (index in the batch), so the
   batch a split map belongs to can be read off the timestamp of any of its entries. *)
Definition first_ts (m : mmap) : option Z :=
  match map_to_list (counters m), map_to_list (timers m), map_to_list (gauges m), map_to_list (sets m) with
  | (_, x) :: _, _, _, _ => Some (c_ts x)
  | [], (_, x) :: _, _, _ => Some (t_ts x)
  | [], [], (_, x) :: _, _ => Some (g_ts x)
  | [], [], [], (_, x) :: _ => Some (s_ts x)
  | [], [], [], [] => None
  end.
Definition map_batch (m : mmap) : nat :=
  match first_ts m with Some ts => Z.to_nat ((ts - 1000) / 100) | None => 4999 end.

Inductive ev := EvP (p b : nat) | EvW (i : nat) (e : wev) | EvT.

Definition big_now : Z := 4611686018427387904.  (* the aggregators run on the wall clock; expiry is 0 or 1 ns *)

Fixpoint replay (bc : bconfig) (dps : list (list datapoint)) (b : bstate) (ws : list wlabel) (acc : list ev)
    : option (bstate * list ev) :=
  match ws with
  | [] => Some (b, rev acc)
  | w :: r =>
      let le : option (blabel * list ev) :=
        match w with
        | WParse p k => (λ ds, (BParse p ds, [EvP p k])) <$> dps !! k
        | WEnq p => Some (BEnq p, [])
        | WRdv p => match bs_pending b !! p with
                    | Some ((i, m) :: _) => Some (BRdv p, [EvW i (WM (map_batch m))])
                    | _ => None
                    end
        | WMerge i => match bs_queue b !! i with
                      | Some (m :: _) => Some (BMerge i, [EvW i (WM (map_batch m))])
                      | _ => None
                      end
        | WTick => Some (BTick (bs_nflush b), [EvT])
        | WCmd i => Some (BCmd i, [EvW i WC])
        | WExec i => Some (BExec i big_now, [EvW i WE])
        end in
      match le with
      | Some (l, e) => match bstep bc b l with Some b' => replay bc dps b' r (e ++ acc) | None => None end
      | None => None
      end
  end.

Definition wev_eqb (a b : wev) : bool :=
  match a, b with WM x, WM y => (x =? y)%nat | WC, WC => true | WE, WE => true | _, _ => false end.
Definition parser_events (p : nat) (evs : list ev) : list nat :=
  omap (λ e, match e with EvP p' b => if (p' =? p)%nat then Some b else None | _ => None end) evs.
Definition worker_events (i : nat) (evs : list ev) : list wev :=
  omap (λ e, match e with EvW i' x => if (i' =? i)%nat then Some x else None | _ => None end) evs.
Definition tick_events (evs : list ev) : nat :=
  length (List.filter (λ e, match e with EvT => true | _ => false end) evs).
Definition is_nil {A} (l : list A) : bool := match l with [] => true | _ => false end.

(* [run is a bounded run; parser logs; worker logs; ticks; ends idle; reported maps] *)
Definition check_trace (n : nat) (dps : list (list datapoint)) (fl : list (nat * nat * list oentry)) (tr : strace)
    : list bool :=
  let bc := MkBCfg (MkCfg n (tr_exp_counter tr) (tr_exp_timer tr) (tr_exp_gauge tr) (tr_exp_set tr))
                   (tr_parsers tr) (tr_qcap tr) in
  match replay bc dps (binit bc) (tr_wit tr) [] with
  | None => [false]
  | Some (b, evs) =>
      [ true;
        (length (tr_plog tr) =? tr_parsers tr)%nat
          && forallb (λ '(p, l), list_eqb Nat.eqb (parser_events p evs) l) (imap (λ p l, (p, l)) (tr_plog tr));
        (length (tr_wlog tr) =? n)%nat
          && forallb (λ '(i, l), list_eqb wev_eqb (worker_events i evs) l) (imap (λ i l, (i, l)) (tr_wlog tr));
        (tick_events evs =? tr_ticks tr)%nat;
        forallb is_nil (bs_pending b) && forallb is_nil (bs_queue b) && forallb negb (bs_busy b)
          && bflush_idle n (bs_busy b) (bs_flush b);
        (length (bs_out b) =? length fl)%nat
          && forallb (λ '(f, w, es),
                        match List.find (λ '(f', w', _), (S f' =? f)%nat && (w' =? w)%nat) (bs_out b) with
                        | Some (_, _, m) => same_content m (omap_of es)
                        | None => false
                        end) fl ]
  end.

Definition norm (m : mmap) : mmap :=
  MkMap (counters m) ((λ t, MkTimer (zsort (t_vals t)) (t_samp t) (t_ts t) (t_src t) (t_tags t)) <$> timers m)
        (gauges m) (sets m).
Definition dump_matches_norm (es : list entry) (m : mmap) : bool :=
  (length es =? length (entries m))%nat && mm_eqb (norm (map_of_entries es)) (norm m).

Fixpoint run_agg (c : config) (a : mmap) (ops : list aop) : bool :=
  match ops with
  | [] => true
  | AMerge ds :: r => run_agg c (merge a (receive_all empty_map ds)) r
  | AFlush obs :: r => let a' := agg_flush a in dump_matches_norm obs a' && run_agg c a' r
  | AReset now obs :: r => let a' := agg_reset c now a in dump_matches_norm obs a' && run_agg c a' r
  end.

Fixpoint trace_agg (c : config) (a : mmap) (ops : list aop) : list (list entry) :=
  match ops with
  | [] => []
  | AMerge ds :: r => trace_agg c (merge a (receive_all empty_map ds)) r
  | AFlush _ :: r => let a' := agg_flush a in entries (norm a') :: trace_agg c a' r
  | AReset now _ :: r => let a' := agg_reset c now a in entries (norm a') :: trace_agg c a' r
  end.

Definition check_case (c : c01case) : bool :=
  match c with
  | SysCase n ns ih static bs t fl tr =>
      match parse_each ns ih static t bs with
      | Some dps =>
          let '(m_in, m_out) := sys_model dps fl in
          same_content m_in m_out
          && routed n fl
          && pairs_unique (map (λ x, x.1) fl)
          && series_unique_per_flush fl
          && forallb id (from_option (check_trace n dps fl) [] tr)
      | None => false
      end
  | AggCase cfg ops => run_agg cfg empty_map ops
  end.

Inductive explain :=
| XSys (sent : list cd) (flushed_total : list cd) (routed : bool) (flush_worker_unique series_unique_per_flush : bool)
       (bounded_run__parser_logs__worker_logs__ticks__ends_idle__reported_maps : list bool)
| XSysPanic
| XAgg (dumps : list (list entry)).

Definition explain_case (c : c01case) : explain :=
  match c with
  | SysCase n ns ih static bs t fl tr =>
      match parse_each ns ih static t bs with
      | Some dps =>
          let '(m_in, m_out) := sys_model dps fl in
          XSys (cdump m_in) (cdump m_out) (routed n fl) (pairs_unique (map (λ x, x.1) fl)) (series_unique_per_flush fl)
               (from_option (check_trace n dps fl) [] tr)
      | None => XSysPanic
      end
  | AggCase cfg ops => XAgg (trace_agg cfg empty_map ops)
  end.
