(* Correspondence for C01.

   SysCase: one run of the real pipeline (BackendHandler + workers + MetricFlusher.flushData +
   N DatagramParser goroutines + concurrent flusher), observed at the two points the property
   names: the datagram batches written to the parsers' input channel, and every MetricMap handed
   to Backend.SendMetricsAsync (flush number, worker, deep copy).  The run ends with quiescence
   and a final flush, so by C01_exact_at_quiescence the per-series totals over all captured
   flushes have exactly one admissible value: the content of the input.  The model computes
   that content from the same datagrams (Datagram.parse_all -> receive_all, equal to
   [input_total] by Proofs/PipelineAlgebra.cnt_receive_all) and compares in Coq:
     - totals: counter sums, timer value multisets, sampled-count sums, set members, and the
       set of reported series (of every type) = the set of sent series;
     - routing: every series of a map captured from worker i has bucket i (C01_routing_invariant);
     - once per flush: no (flush, worker) twice, no series twice within one flush.
   Which interleaving the run took is not observed (all of them are label sequences of the LTS).

   AggCase: lock-step on one real MetricAggregator: ReceiveMap / Flush+Process / Reset(now) vs
   merge / agg_flush / agg_reset, dumps compared after every Flush and Reset (timer values as
   multisets: Flush sorts them in place). *)
From stdpp Require Import gmap.
From GS Require Export Corr.MMLib Model.Content Model.Pipeline.
From Coq Require Import QArith Qcanon.
From GS Require Model.Datagram.

Inductive oentry :=
| OC (name key : str) (v : Z)
| OT (name key : str) (vals : list Z) (sn : Z) (sd : positive)
| OG (name key : str)
| OS (name key : str) (members : list str).

Record dgram := DG { dg_ip : str; dg_ts : Z; dg_msg : str }.

Inductive aop :=
| AMerge (ds : list datapoint)
| AFlush (obs : list entry)
| AReset (now : Z) (obs : list entry).

Inductive c01case :=
| SysCase (shards : nat) (batches : list (list dgram)) (table : list (str * pfres))
          (flushes : list (nat * nat * list oentry))
| AggCase (c : config) (ops : list aop).

(* ---------------------------------------------------------------------------------------- *)

Definition oracle (t : list (str * pfres)) (s : str) : pfres :=
  match assoc_str s t with Some r => r | None => PFMiss end.

(* the datapoints of all batches (parser.go through Model/Datagram.v); None = the datagram
   model reports a panic *)
Definition parse_batches (t : list (str * pfres)) (bs : list (list dgram)) : option (list datapoint) :=
  foldr (λ b acc,
           match acc, Datagram.parse_all (oracle t) (Datagram.Cfg [] false)
                        (map (λ d, Datagram.Dg (dg_ip d) (dg_ts d) (dg_msg d)) b) with
           | Some ds, Datagram.DgOk r => Some (Datagram.dg_metrics r ++ ds)
           | _, _ => None
           end) (Some []) bs.

Definition okey (e : oentry) : skey :=
  match e with OC n k _ | OT n k _ _ _ | OG n k | OS n k _ => (n, k) end.
Definition otype (e : oentry) : nat :=
  match e with OC _ _ _ => 0 | OT _ _ _ _ _ => 1 | OG _ _ => 2 | OS _ _ _ => 3 end.

Definition add_oentry (m : mmap) (e : oentry) : mmap :=
  match e with
  | OC n k v => MkMap (<[(n, k) := MkCounter v 0 [] []]> (counters m)) (timers m) (gauges m) (sets m)
  | OT n k vs sn sd => MkMap (counters m) (<[(n, k) := MkTimer vs (Q2Qc (Qmake sn sd)) 0 [] []]> (timers m)) (gauges m) (sets m)
  | OG n k => MkMap (counters m) (timers m) (<[(n, k) := MkGauge 0 0 [] []]> (gauges m)) (sets m)
  | OS n k ms => MkMap (counters m) (timers m) (gauges m) (<[(n, k) := MkSet (list_to_set ms) 0 [] []]> (sets m))
  end.
Definition omap_of (es : list oentry) : mmap := fold_left add_oentry es empty_map.

(* canonical dump of what the property fixes *)
Fixpoint zinsert (x : Z) (l : list Z) : list Z :=
  match l with
  | [] => [x]
  | y :: r => if (x <=? y)%Z then x :: l else y :: zinsert x r
  end.
Definition zsort (l : list Z) : list Z := foldr zinsert [] l.

Inductive cd :=
| CDc (k : skey) (v : Z)
| CDt (k : skey) (vals : list Z) (sn : Z) (sd : positive)
| CDg (k : skey)
| CDs (k : skey) (members : list str).

Definition cdump (m : mmap) : list cd :=
  ((λ '(k, c), CDc k (c_val c)) <$> map_to_list (counters m))
  ++ ((λ '(k, t), CDt k (zsort (t_vals t)) (Qnum (this (t_samp t))) (Qden (this (t_samp t)))) <$> map_to_list (timers m))
  ++ ((λ '(k, _), CDg k) <$> map_to_list (gauges m))
  ++ ((λ '(k, s), CDs k (elements (s_vals s))) <$> map_to_list (sets m)).

Definition skey_eqb (a b : skey) : bool := str_eqb a.1 b.1 && str_eqb a.2 b.2.
Definition cd_eqb (a b : cd) : bool :=
  match a, b with
  | CDc k v, CDc k' v' => skey_eqb k k' && (v =? v')%Z
  | CDt k vs sn sd, CDt k' vs' sn' sd' => skey_eqb k k' && zlist_eqb vs vs' && (sn =? sn')%Z && (sd =? sd')%positive
  | CDg k, CDg k' => skey_eqb k k'
  | CDs k ms, CDs k' ms' => skey_eqb k k' && strs_eqb ms ms'
  | _, _ => false
  end.
Definition same_content (a b : mmap) : bool := list_eqb cd_eqb (cdump a) (cdump b).

(* every series at most once per flush: all entries of one flush id are accumulated in one map;
   no entry may overwrite another, i.e. the sizes add up *)
Definition mm_count (m : mmap) : nat :=
  size (counters m) + size (timers m) + size (gauges m) + size (sets m).
Fixpoint acc_flush (f : nat) (es : list oentry) (acc : list (nat * mmap)) : list (nat * mmap) :=
  match acc with
  | [] => [(f, fold_left add_oentry es empty_map)]
  | (g, m) :: r => if (f =? g)%nat then (g, fold_left add_oentry es m) :: r else (g, m) :: acc_flush f es r
  end.
Definition series_unique_per_flush (fl : list (nat * nat * list oentry)) : bool :=
  let acc := fold_left (λ a '(f, _, es), acc_flush f es a) fl [] in
  (foldr (λ x n, mm_count x.2 + n) 0 acc =? foldr (λ '(_, _, es) n, length es + n) 0 fl)%nat.

Fixpoint pairs_unique (l : list (nat * nat)) : bool :=
  match l with
  | [] => true
  | (a, b) :: r => negb (existsb (λ '(a', b'), (a =? a')%nat && (b =? b')%nat) r) && pairs_unique r
  end.

Definition routed (n : nat) (fl : list (nat * nat * list oentry)) : bool :=
  forallb (λ '(_, w, es),
             (w <? n)%nat && forallb (λ e, (shard_of_key (MkCfg n 0 0 0 0) (okey e) =? w)%nat) es) fl.

Record sys_view := SV { sv_in : list cd; sv_out : list cd }.

Definition sys_model (n : nat) (bs : list (list dgram)) (t : list (str * pfres))
    (fl : list (nat * nat * list oentry)) : option (mmap * mmap) :=
  match parse_batches t bs with
  | Some ds => Some (receive_all empty_map ds, merge_maps (map (λ x, omap_of x.2) fl))
  | None => None
  end.

Definition norm (m : mmap) : mmap :=
  MkMap (counters m) ((λ t, MkTimer (zsort (t_vals t)) (t_samp t) (t_ts t) (t_src t) (t_tags t)) <$> timers m)
        (gauges m) (sets m).
Definition dump_matches_norm (es : list entry) (m : mmap) : bool :=
  (length es =? length (entries m))%nat && mm_eqb (norm (map_of_entries es)) (norm m).

Fixpoint run_agg (c : config) (a : mmap) (ops : list aop) : bool :=
  match ops with
  | [] => true
  | AMerge ds :: r => run_agg c (merge a (receive_all empty_map ds)) r
  | AFlush obs :: r => let a' := agg_flush a in dump_matches_norm obs a' && run_agg c a' r
  | AReset now obs :: r => let a' := agg_reset c now a in dump_matches_norm obs a' && run_agg c a' r
  end.

Fixpoint trace_agg (c : config) (a : mmap) (ops : list aop) : list (list entry) :=
  match ops with
  | [] => []
  | AMerge ds :: r => trace_agg c (merge a (receive_all empty_map ds)) r
  | AFlush _ :: r => let a' := agg_flush a in entries (norm a') :: trace_agg c a' r
  | AReset now _ :: r => let a' := agg_reset c now a in entries (norm a') :: trace_agg c a' r
  end.

Definition check_case (c : c01case) : bool :=
  match c with
  | SysCase n bs t fl =>
      match sys_model n bs t fl with
      | Some (m_in, m_out) =>
          same_content m_in m_out
          && routed n fl
          && pairs_unique (map (λ x, x.1) fl)
          && series_unique_per_flush fl
      | None => false
      end
  | AggCase cfg ops => run_agg cfg empty_map ops
  end.

Inductive explain :=
| XSys (sent : list cd) (flushed_total : list cd) (routed : bool) (flush_worker_unique series_unique_per_flush : bool)
| XSysPanic
| XAgg (dumps : list (list entry)).

Definition explain_case (c : c01case) : explain :=
  match c with
  | SysCase n bs t fl =>
      match sys_model n bs t fl with
      | Some (m_in, m_out) => XSys (cdump m_in) (cdump m_out) (routed n fl) (pairs_unique (map (λ x, x.1) fl)) (series_unique_per_flush fl)
      | None => XSysPanic
      end
  | AggCase cfg ops => XAgg (trace_agg cfg empty_map ops)
  end.
