(* Correspondence for C14: a real HttpForwarderHandlerV2 posts to a real ingestion server whose
   pipeline handler captures.  Each case carries what the forwarder was given, the configuration,
   the Content-Encoding header and status seen on the wire, and what the server dispatched. *)
From stdpp Require Import gmap.
From GS Require Export Corr.MMLib Model.Wire Model.PbWire.
Local Open Scope Z_scope.

(* one request as the ingestion server saw it: status, whether something was dispatched, the
   receive time of a dispatched map, the dispatched map / event *)
Inductive attempt := Attempt (status : Z) (dispatched : bool) (now : Z) (obs_m : list entry) (obs_e : event).

Inductive c14case :=
(* one metric map through forwarder and server *)
| CMetrics (compress : bool) (ctype : str) (level : Z) (inp : list entry)
           (hdr : str) (raw : str) (status : Z) (now : Z) (obs : list entry)
(* one event *)
| CEvent (compress : bool) (ctype : str) (level : Z) (e : event)
         (hdr : str) (raw : str) (status : Z) (obs : event)
(* the constructor's verdict on (compression-type, compression-level) *)
| CConfig (ctype : str) (level : Z) (accepted : bool)
(* receiver alone: a message built by a foreign sender (any enum value, SourceIP different from
   Hostname, names with an empty TagMap, repeated set members), posted uncompressed *)
| CRxMetrics (hdr : str) (cs : list (str * list (str * pb_counter))) (gs : list (str * list (str * pb_gauge)))
             (ss : list (str * list (str * pb_set))) (ts : list (str * list (str * pb_timer)))
             (raw : str) (status : Z) (now : Z) (obs : list entry)
| CRxEvent (hdr : str) (p : pb_event) (raw : str) (status : Z) (obs : event)
(* receiver alone, arbitrary bytes (legal non-canonical encodings and malformed ones): the Coq
   decoder decides acceptance and the decoded message *)
| CRaw (is_event : bool) (hdr : str) (raw : str) (status : Z) (dispatched : bool) (now : Z)
       (obs_m : list entry) (obs_e : event)
(* K messages in flight at once on one forwarder (events, and one flush split into several
   requests by a dynamic header), possibly with scripted 503s so that retries overlap other
   posts: what was given, the statuses other than 202 and the scripted 503s, and everything the
   ingestion server dispatched.  Messages are independent: the dispatched multiset is the
   multiset of the model's per-message results, each exactly once *)
| CConc (exp_maps : list (list entry)) (exp_events : list event) (bad_statuses : list Z)
        (obs_maps : list (list entry)) (obs_events : list event)
(* a relay damaged the first attempt in transit: [body] is what reached the server, [lib] what
   the codec library itself makes of it (None = it rejects: checksum, end mark, framing ...).
   The first attempt must be decided as C14_bad_body's function decides it with the library as
   decompressor; after a refusal exactly one later attempt delivers what was given *)
| CTamper (is_event : bool) (hdr : str) (body : str) (lib : option str) (first : attempt)
          (given_m : list entry) (given_e : event) (later : list attempt)
(* every proper prefix (length k) of a body the real forwarder produced, posted with the same
   Content-Encoding: (k, what the codec library makes of the prefix, status, dispatched?) *)
| CPrefix (is_event : bool) (hdr : str) (body : str) (results : list (nat * option str * Z * bool)).


Definition mk_nested {A} (l : list (str * list (str * A))) : gmap str (gmap str A) :=
  list_to_map (map (fun '(n, tm) => (n, list_to_map tm)) l).
Definition rx_msg cs gs ss ts : pbmsg := MkPb (mk_nested cs) (mk_nested gs) (mk_nested ss) (mk_nested ts).
Definition plain_header (hdr : str) : bool :=
  match receiver_codec hdr with Some None => true | _ => false end.

Definition event_eqb (a b : event) : bool :=
  str_eqb (e_title a) (e_title b) && str_eqb (e_text a) (e_text b) && (e_date a =? e_date b)
  && str_eqb (e_aggkey a) (e_aggkey b) && str_eqb (e_srctype a) (e_srctype b)
  && strs_eqb (e_tags a) (e_tags b) && str_eqb (e_source a) (e_source b)
  && (e_priority a =? e_priority b)%N && (e_alert a =? e_alert b)%N.

(* the input dump with every timestamp replaced: the comparison "vs the input" that does not go
   through the model's translation functions *)
Definition entry_retime (now : Z) (e : entry) : entry :=
  match e with
  | EC n k v _ s t => EC n k v now s t
  | EG n k v _ s t => EG n k v now s t
  | ET n k vs sn sd _ s t => ET n k vs sn sd now s t
  | ES n k ms _ s t => ES n k ms now s t
  end.

Definition header_ok (compress : bool) (ctype : str) (level : Z) (hdr : str) : bool :=
  match new_forwarder compress ctype level with
  | Some c => str_eqb hdr (sender_header c)
              && match receiver_codec hdr with Some k => true | None => false end
  | None => false
  end.

(* the protobuf bytes seen on the wire (after undoing the compression with the library), decoded
   by Model/PbWire.v: they decode, re-encode to the same bytes (entries kept in wire order), are
   as long as the model's own marshalling of [to_pb m] (which may order map entries differently),
   and describe the message the model says was sent *)
Definition wire_metrics_ok (now : Z) (raw : str) (p : pbmsg) (obs : list entry) : bool :=
  match decode_msg raw with
  | Some w =>
      msg_ok w && list_eqb N.eqb (encode_msg w) raw
      && dump_matches obs (from_pb now (pb_of_wire w))
      && mm_eqb (from_pb now (pb_of_wire w)) (from_pb now p)
      && match pb_marshal p with Some b => (length b =? length raw)%nat | None => false end
  | None => false
  end.
Definition wire_event_ok (raw : str) (p : pb_event) (obs : event) : bool :=
  match decode_event raw with
  | Some q => event_ok q && list_eqb N.eqb (encode_event q) raw
              && event_eqb obs (event_from_pb q)
              && match event_marshal p with Some b => list_eqb N.eqb b raw | None => false end
  | None => false
  end.

Fixpoint remove_first {A} (same : A -> A -> bool) (x : A) (l : list A) : option (list A) :=
  match l with
  | [] => None
  | y :: r => if same x y then Some r
              else match remove_first same x r with Some r' => Some (y :: r') | None => None end
  end.
Fixpoint multiset_eqb {A} (same : A -> A -> bool) (a b : list A) : bool :=
  match a with
  | [] => match b with [] => true | _ => false end
  | x :: a' => match remove_first same x b with Some b' => multiset_eqb same a' b' | None => false end
  end.
(* given map vs dispatched map, timestamps set aside (each request has its own receive time) *)
Definition conc_map_same (given obs : list entry) : bool :=
  dump_matches (map (entry_retime 0) obs) (from_pb 0 (to_pb (map_of_entries given))).
Definition conc_event_same (given obs : event) : bool := event_eqb obs (event_from_pb (event_to_pb given)).

Definition check_case (c : c14case) : bool :=
  match c with
  | CMetrics compress ctype level inp hdr raw status now obs =>
      let m := map_of_entries inp in
      header_ok compress ctype level hdr
      && (status =? st_accepted)
      && dump_matches obs (from_pb now (to_pb m))
      && dump_matches obs (map_of_entries (map (entry_retime now) inp))
      && (length inp =? length obs)%nat
      && wire_metrics_ok now raw (to_pb m) obs
  | CEvent compress ctype level e hdr raw status obs =>
      header_ok compress ctype level hdr
      && (status =? st_accepted)
      && event_eqb obs (event_from_pb (event_to_pb e))
      && event_eqb obs (normalise_event e)
      && wire_event_ok raw (event_to_pb e) obs
  | CConfig ctype level accepted =>
      Bool.eqb (match new_forwarder true ctype level with Some _ => true | None => false end) accepted
  | CRxMetrics hdr cs gs ss ts raw status now obs =>
      plain_header hdr && (status =? st_accepted) && dump_matches obs (from_pb now (rx_msg cs gs ss ts))
      && wire_metrics_ok now raw (rx_msg cs gs ss ts) obs
  | CRxEvent hdr p raw status obs =>
      plain_header hdr && (status =? st_accepted) && event_eqb obs (event_from_pb p)
      && wire_event_ok raw p obs
  | CRaw is_event hdr raw status dispatched now obs_m obs_e =>
      plain_header hdr &&
      if is_event then
        match event_handler (fun _ b => Some b) event_unmarshal hdr (Some raw) with
        | (st, Some e) => (status =? st) && dispatched && event_eqb obs_e e
        | (st, None) => (status =? st) && negb dispatched
        end
      else
        match metric_handler (fun _ b => Some b) pb_unmarshal now hdr (Some raw) with
        | (st, Some m) => (status =? st) && dispatched && dump_matches obs_m m
        | (st, None) => (status =? st) && negb dispatched
        end
  | CTamper is_event hdr body lib (Attempt st1 disp1 now1 m1 e1) given_m given_e later =>
      let dec := fun (_ : codec) (_ : str) => lib in
      let delivered_later :=
        match later with
        | [Attempt st2 disp2 now2 m2 e2] =>
            (st2 =? st_accepted) && disp2 &&
            (if is_event then event_eqb e2 (event_from_pb (event_to_pb given_e))
             else dump_matches m2 (from_pb now2 (to_pb (map_of_entries given_m))))
        | _ => false
        end in
      match receiver_codec hdr with Some _ => true | None => false end &&
      if is_event then
        match event_handler dec event_unmarshal hdr (Some body) with
        | (st, Some e) => (st1 =? st) && disp1 && event_eqb e1 e && match later with [] => true | _ => false end
        | (st, None) => (st1 =? st) && negb disp1 && delivered_later
        end
      else
        match metric_handler dec pb_unmarshal now1 hdr (Some body) with
        | (st, Some m) => (st1 =? st) && disp1 && dump_matches m1 m && match later with [] => true | _ => false end
        | (st, None) => (st1 =? st) && negb disp1 && delivered_later
        end
  | CPrefix is_event hdr body results =>
      match receiver_codec hdr with Some _ => true | None => false end &&
      forallb (fun '(k, lib, st, disp) =>
        let dec := fun (_ : codec) (_ : str) => lib in
        let pre := firstn k body in
        (k <? length body)%nat &&
        if is_event then
          let r := event_handler dec event_unmarshal hdr (Some pre) in
          (st =? fst r) && Bool.eqb disp (match snd r with Some _ => true | None => false end)
        else
          let r := metric_handler dec pb_unmarshal 0 hdr (Some pre) in
          (st =? fst r) && Bool.eqb disp (match snd r with Some _ => true | None => false end)) results
  | CConc exp_maps exp_events bad obs_maps obs_events =>
      match bad with [] => true | _ => false end
      && multiset_eqb conc_map_same exp_maps obs_maps
      && multiset_eqb conc_event_same exp_events obs_events
  end.

Inductive explanation :=
| XMetrics (cfg : option fwd_cfg) (hdr : str) (out : list entry)
| XEvent (cfg : option fwd_cfg) (hdr : str) (out : event)
| XConfig (cfg : option fwd_cfg)
| XRaw (st : Z) (m : option (list entry)) (e : option event)
| XConc (maps : list (list entry)) (events : list event)
| XPrefix (expected_status : list (nat * Z)).

Definition explain_case (c : c14case) : explanation :=
  match c with
  | CMetrics compress ctype level inp _ _ _ now _ =>
      let cfg := new_forwarder compress ctype level in
      XMetrics cfg (from_option sender_header [] cfg) (entries (from_pb now (to_pb (map_of_entries inp))))
  | CEvent compress ctype level e _ _ _ _ =>
      let cfg := new_forwarder compress ctype level in
      XEvent cfg (from_option sender_header [] cfg) (event_from_pb (event_to_pb e))
  | CConfig ctype level _ => XConfig (new_forwarder true ctype level)
  | CRxMetrics hdr cs gs ss ts _ _ now _ => XMetrics None hdr (entries (from_pb now (rx_msg cs gs ss ts)))
  | CRxEvent hdr p _ _ _ => XEvent None hdr (event_from_pb p)
  | CRaw is_event hdr raw _ _ now _ _ =>
      if is_event then let r := event_handler (fun _ b => Some b) event_unmarshal hdr (Some raw) in XRaw (fst r) None (snd r)
      else let r := metric_handler (fun _ b => Some b) pb_unmarshal now hdr (Some raw) in XRaw (fst r) (option_map entries (snd r)) None
  | CTamper is_event hdr body lib (Attempt _ _ now1 _ _) _ _ _ =>
      let dec := fun (_ : codec) (_ : str) => lib in
      if is_event then let r := event_handler dec event_unmarshal hdr (Some body) in XRaw (fst r) None (snd r)
      else let r := metric_handler dec pb_unmarshal now1 hdr (Some body) in XRaw (fst r) (option_map entries (snd r)) None
  | CPrefix is_event hdr body results =>
      XPrefix (map (fun '(k, lib, _, _) =>
        let dec := fun (_ : codec) (_ : str) => lib in
        (k, if is_event then fst (event_handler dec event_unmarshal hdr (Some (firstn k body)))
            else fst (metric_handler dec pb_unmarshal 0 hdr (Some (firstn k body))))) results)
  | CConc exp_maps exp_events _ _ _ =>
      XConc (map (fun g => entries (from_pb 0 (to_pb (map_of_entries g)))) exp_maps)
            (map (fun e => event_from_pb (event_to_pb e)) exp_events)
  end.
