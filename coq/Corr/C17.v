(* Correspondence for C17.  One case = a flushed metric map (series in the harness's canonical
   order), the sub-metric mask, the printing oracle table (computed by the harness directly from
   fmt / strconv), a backend configuration and what the real backend put on the wire, decoded by
   the harness into batches of items.

   The backends iterate Go maps, so the order of series (and of histogram buckets and set
   members) is theirs to choose, and the HTTP backends post their batches concurrently.  What the
   property fixes and what is compared:
     * contents: the observed items are, as a multiset, exactly the model's items for the map
       (every series, each enabled sub-metric once, with the modelled name / tags / host / value);
     * structure: re-running the model's batching state machine on the observed item sequence
       reproduces the observed batches (relay, CloudWatch: in order; Datadog: after locating the
       per-series groups inside each batch and putting the one partial batch last; InfluxDB and
       OTLP, whose batch sizes do not depend on the order: the multiset of batch sizes);
     * relay round trip: every emitted line, given to the Coq lexer model, yields exactly the
       observation of the real lexer on that line, and the parsed datapoints are, as a multiset,
       the series of the map (name, type, sorted tags + s:source, value / member). *)
From Coq Require Import Floats Uint63.
From GS Require Export Base.Bytes Base.CorrLib Base.GoFloat Model.Lexer Model.Series
  Model.Batching Model.Relay Model.InfluxEsc Model.InfluxLine Model.GraphiteLine.
Local Open Scope N_scope.

(* ---- oracle tables *)
Definition ptab := list (Z * (str * str * str)).      (* bits -> (%f, %g, FormatFloat 'f' -1) *)
Definition miss : str := [63;63;63].
Fixpoint plookup (t : ptab) (b : Z) : option (str * str * str) :=
  match t with
  | [] => None
  | (k, v) :: r => if (k =? b)%Z then Some v else plookup r b
  end.
Definition o_f (t : ptab) (b : Z) : str := match plookup t b with Some (f, _, _) => f | None => miss end.
Definition o_g (t : ptab) (b : Z) : str := match plookup t b with Some (_, g, _) => g | None => miss end.
Definition o_s (t : ptab) (b : Z) : str := match plookup t b with Some (_, _, s) => s | None => miss end.
Definition pftab := list (str * pfres).
(* a string missing from the table parses to a value no test produces, so that it shows *)
Definition o_parse (t : pftab) (s : str) : option Z :=
  match assoc_str s t with Some (PFVal b) => Some b | Some PFErr => None | _ => Some 1%Z end.
Definition o_pf (t : pftab) (s : str) : pfres := match assoc_str s t with Some r => r | None => PFMiss end.

(* ---- comparisons *)
(* float64(int64) *)
Definition i2f_bits (z : Z) : Z :=
  if (z <? 0)%Z then bits_of_float (PrimFloat.opp (PrimFloat.of_uint63 (Uint63.of_Z (- z))))
  else bits_of_float (PrimFloat.of_uint63 (Uint63.of_Z z)).
Definition val_eqb (a b : val) : bool :=
  match a, b with
  | VI x, VI y => (x =? y)%Z
  | VF x, VF y => (x =? y)%Z
  | VS x, VS y => str_eqb x y
  | VI x, VF y | VF y, VI x => (i2f_bits x =? y)%Z     (* JSON carries only float64 *)
  | _, _ => false
  end.
Fixpoint remove_first {A} (eqb : A -> A -> bool) (x : A) (l : list A) : option (list A) :=
  match l with
  | [] => None
  | y :: r => if eqb x y then Some r
              else match remove_first eqb x r with Some r' => Some (y :: r') | None => None end
  end.
Fixpoint perm_eqb {A} (eqb : A -> A -> bool) (a b : list A) : bool :=
  match a with
  | [] => match b with [] => true | _ => false end
  | x :: r => match remove_first eqb x b with Some b' => perm_eqb eqb r b' | None => false end
  end.
Definition kv_eqb (a b : str * val) : bool := str_eqb (fst a) (fst b) && val_eqb (snd a) (snd b).
Definition item_eqb (a b : item) : bool :=
  str_eqb (it_name a) (it_name b) && str_eqb (it_kind a) (it_kind b) && str_eqb (it_host a) (it_host b)
  && list_eqb str_eqb (it_tags a) (it_tags b) && perm_eqb kv_eqb (it_vals a) (it_vals b).
Definition items_perm := perm_eqb item_eqb.
Fixpoint ins_nat (x : nat) (l : list nat) : list nat :=
  match l with [] => [x] | y :: r => if Nat.leb x y then x :: l else y :: ins_nat x r end.
Definition sizes {A} (bs : list (list A)) : list nat := fold_right ins_nat [] (map (@length A) bs).
Definition same_sizes {A B} (a : list (list A)) (b : list (list B)) : bool :=
  list_eqb Nat.eqb (sizes a) (sizes b).

(* ---- Datadog: find the per-series groups inside one observed batch.  [groups] = the model's
   groups not yet located.  Returns the batch cut into groups and the remaining model groups. *)
Fixpoint take_group (batch : list item) (seen groups : list (list item))
  : option (list item * list (list item)) :=
  match groups with
  | [] => None
  | g :: r =>
      let n := length g in
      if negb (Nat.eqb n 0) && Nat.leb n (length batch) && items_perm g (firstn n batch)
      then Some (g, rev_append seen r) else take_group batch (g :: seen) r
  end.
Fixpoint take_empty (seen groups : list (list item)) : option (list (list item)) :=
  match groups with
  | [] => None
  | [] :: r => Some (rev_append seen r)
  | g :: r => take_empty (g :: seen) r
  end.
Fixpoint cut_batch (fuel : nat) (batch : list item) (groups : list (list item))
  : option (list (list item) * list (list item)) :=
  match batch with
  | [] => Some ([], groups)
  | _ =>
      match fuel with
      | O => None
      | S f =>
          match take_group batch [] groups with
          | None => None
          | Some (g, rest) =>
              let n := length g in
              match cut_batch f (skipn n batch) rest with
              | Some (gs, rest') => Some (firstn n batch :: gs, rest')
              | None => None
              end
          end
      end
  end.
Definition cut_one (batch : list item) (groups : list (list item)) :=
  match batch with
  | [] => match take_empty [] groups with Some rest => Some ([[]], rest) | None => None end
  | _ => cut_batch (length batch) batch groups
  end.
(* all batches; result: per batch its groups *)
Fixpoint cut_all (obs : list (list item)) (groups : list (list item))
  : option (list (list (list item)) * list (list item)) :=
  match obs with
  | [] => Some ([], groups)
  | b :: r =>
      match cut_one b groups with
      | None => None
      | Some (gs, rest) =>
          match cut_all r rest with
          | Some (gss, rest') => Some (gs :: gss, rest')
          | None => None
          end
      end
  end.
Definition batch_eqb (a b : list item) : bool := list_eqb item_eqb a b.
Definition item_nonfinite (it : item) : bool :=
  existsb (fun kv => match snd kv with VF b => negb (f64_is_finite b) | _ => false end) (it_vals it).
(* [lossy]: the F3 stream -- batches may be missing, but only if a non-finite value is among
   the series that are missing *)
Definition dd_structure_gen (lossy : bool) (pb : N) (obs : list (list item)) (groups : list (list item)) : bool :=
  let full := filter (fun b => pb <=? len b + 20) obs in
  let part := filter (fun b => negb (pb <=? len b + 20)) obs in
  let ordered := full ++ part in
  match cut_all ordered groups with
  | None => false
  | Some (gss, rest) =>
      (forallb (fun g => match g with [] => true | _ => false end) rest
       || (lossy && existsb item_nonfinite (concat rest)))
      && list_eqb batch_eqb (dd_batches pb (concat gss)) ordered
  end.
Definition dd_structure := dd_structure_gen false.

(* ---- relay round trip *)
Inductive lexobs :=
| LM (name : str) (ty : mtype) (value : Z) (strval : str) (rate : Z) (tags : list str)
| LR | LP | LE.
Definition lexobs_matches (o : lexobs) (m : outcome) : bool :=
  match o, m with
  | LM name ty v sv rate tags, OMetric x =>
      str_eqb name (m_name x) && mtype_eqb ty (m_type x) && (v =? m_value x)%Z
      && str_eqb sv (m_strval x) && (rate =? m_rate x)%Z && list_eqb str_eqb tags (m_tags x)
  | LR, OReject EOracleMiss => false
  | LR, OReject _ => true
  | LP, OPanic => true
  | LE, OEvent _ => true
  | _, _ => false
  end.
(* a datapoint as the round trip must deliver it *)
Record rdp := MkR { r_name : str; r_ty : mtype; r_tags : list str; r_val : Z; r_str : str }.
Definition rdp_eqb (a b : rdp) : bool :=
  str_eqb (r_name a) (r_name b) && mtype_eqb (r_ty a) (r_ty b) && list_eqb str_eqb (r_tags a) (r_tags b)
  && (r_val a =? r_val b)%Z && str_eqb (r_str a) (r_str b).
Definition key_tags (tags : list str) (src : str) : list str :=
  sort_tags tags ++ match src with [] => [] | _ => [c_s :: c_colon :: src] end.
Definition expected_rdps (m : fmap) : list rdp :=
  concat (map (fun c => if has_prefix s_statsd_dot (fc_name c) then []
                        else [MkR (fc_name c) Counter (key_tags (fc_tags c) (fc_src c)) (i2f_bits (fc_value c)) []])
              (fm_counters m))
  ++ concat (map (fun t => map (fun v => MkR (ft_name t) Timer (key_tags (ft_tags t) (ft_src t)) v []) (ft_values t))
                 (fm_timers m))
  ++ map (fun g => MkR (fg_name g) Gauge (key_tags (fg_tags g) (fg_src g)) (fg_value g) []) (fm_gauges m)
  ++ concat (map (fun s => map (fun k => MkR (fs_name s) MSet (key_tags (fs_tags s) (fs_src s)) 0%Z k) (fs_members s))
                 (fm_sets m)).
Definition strip_nl (l : str) : str :=
  match rev l with b :: r => if b =? c_nl then rev r else l | [] => l end.
Definition rdp_of (o : outcome) : option rdp :=
  match o with
  | OMetric x => if (m_rate x =? f64_one)%Z
                 then Some (MkR (m_name x) (m_type x) (m_tags x) (m_value x) (m_strval x)) else None
  | _ => None
  end.
Fixpoint all_some {A} (l : list (option A)) : option (list A) :=
  match l with
  | [] => Some []
  | Some x :: r => match all_some r with Some r' => Some (x :: r') | None => None end
  | None :: _ => None
  end.
(* [f2]: the known-finding stream; a line starting with '_' must be rejected by model and
   implementation alike, all other lines must round-trip *)
Definition roundtrip (f2 : bool) (pft : pftab) (m : fmap) (lines : list str) (lexed : list lexobs) : bool :=
  let outs := map (fun l => lex (o_pf pft) [] (strip_nl l)) lines in
  (length lexed =? length outs)%nat
  && forallb (fun p => lexobs_matches (fst p) (snd p)) (combine lexed outs)
  && (if f2 then
        forallb (fun p => match fst p with
                          | b :: _ => if b =? c_us then match snd p with OReject _ => true | _ => false end
                                      else match snd p with OMetric _ => true | _ => false end
                          | [] => false end) (combine lines outs)
      else match all_some (map rdp_of outs) with
           | Some ds => perm_eqb rdp_eqb ds (expected_rdps m)
           | None => false
           end).

(* event round trip: the real relay's event line, the real lexer's view of it, the source event *)
Inductive evobs := EV (title text : str) (date : Z) (host key : str) (pri : N) (stype : str) (alert : N) (tags : list str) | EVR.
Definition ev_eqb (o : evobs) (x : event) : bool :=
  match o with
  | EV title text date host key pri stype alert tags =>
      str_eqb title (e_title x) && str_eqb text (e_text x) && (date =? e_date x)%Z
      && str_eqb host (e_host x) && str_eqb key (e_key x) && (pri =? e_pri x)
      && str_eqb stype (e_stype x) && (alert =? e_alert x) && list_eqb str_eqb tags (e_tags x)
  | EVR => false
  end.
Definition mk_event (o : evobs) : event :=
  match o with
  | EV title text date host key pri stype alert tags =>
      {| e_title := title; e_text := text; e_date := date; e_host := host; e_key := key; e_pri := pri;
         e_stype := stype; e_alert := alert; e_tags := tags |}
  | EVR => empty_event [] []
  end.

(* parsed records *)
Definition ss_eqb (a b : str * str) : bool := str_eqb (fst a) (fst b) && str_eqb (snd a) (snd b).
Definition lp_eqb (a b : lp_rec) : bool :=
  str_eqb (lp_name a) (lp_name b) && list_eqb ss_eqb (lp_tags a) (lp_tags b)
  && perm_eqb ss_eqb (lp_fields a) (lp_fields b)       (* histogram buckets: Go map order *)
  && (lp_ts a =? lp_ts b)%Z.
Definition gl_eqb (a b : gl_rec) : bool :=
  str_eqb (gl_name a) (gl_name b) && list_eqb ss_eqb (gl_tags a) (gl_tags b)
  && str_eqb (gl_value a) (gl_value b) && (gl_ts a =? gl_ts b)%Z.

(* ---- cases *)
Inductive bcase :=
| BRelay (ps : N) (dt f2 : bool) (obs : list (list str)) (pft : pftab) (lexed : list lexobs)
| BInflux (pb : N) (lossy : bool) (now : Z) (bodies : list str)     (* request bodies after gunzip *)
| BDatadog (pb : N) (obs : list (list item))
| BCloudwatch (obs : list (list item))
| BOtlp (bs : N) (obs : list (list item))
| BGraphite (cfg : gcfg) (lossy : bool) (now : Z) (raw : str)       (* the TCP stream *)
| BStdout (now : Z) (obs : list item)
| BEvent (src : evobs) (wire : str) (lexed : evobs)
| BNewRelic (pb mode : N) (f3 : bool) (prefix : str) (now interval : Z) (pft : pftab) (obs : list (list item)).
(* one flush: a map and what the backends emitted for it *)
Record c17flush := C17 { c_mask : mask; c_map : fmap; c_tab : ptab; c_backends : list bcase }.
(* a case: one flush, or -- stream "sequence" -- the successful flushes of several consecutive ones
   through ONE backend instance (others in between were made to fail): each is checked exactly like a
   single flush, so anything a failed or earlier flush leaves behind in a later payload shows *)
Definition c17case := list c17flush.

Definition check_b (mk : mask) (m : fmap) (t : ptab) (b : bcase) : bool :=
  match b with
  | BRelay ps dt f2 obs pft lexed =>
      let lines := concat obs in
      perm_eqb str_eqb lines (relay_lines (o_f t) dt m)
      && list_eqb (list_eqb str_eqb) (relay_batches ps lines) obs
      && (if dt then true else roundtrip f2 pft m lines lexed)
  | BInflux pb lossy now bodies =>
      (* the Gallina line-protocol reader on the captured bytes (strict unless the stream is F4 / F5) *)
      let batches := map (split_lines []) bodies in
      match all_some (map (influx_parse_gen (negb lossy)) (concat batches)) with
      | None => false
      | Some recs =>
          perm_eqb lp_eqb recs (map (lp_of now) (influx_pres (o_g t) (o_s t) mk m))
          && same_sizes batches (influx_payloads (o_g t) (o_s t) pb mk now m)
      end
  | BDatadog pb obs =>
      items_perm (concat obs) (concat (dd_groups (o_s t) mk m))
      && dd_structure pb obs (dd_groups (o_s t) mk m)
  | BCloudwatch obs =>
      items_perm (concat obs) (concat (cw_groups (o_s t) mk m))
      && match cw_batches 20 (concat obs) with
         | Some bs => list_eqb batch_eqb bs obs
         | None => false
         end
  | BOtlp bs obs =>
      items_perm (concat obs) (otlp_items (o_s t) mk m)
      && same_sizes obs (otlp_payloads (o_s t) bs mk m)
  | BGraphite cfg lossy now raw =>
      let lines := split_lines [] raw in
      perm_eqb str_eqb lines (map (gr_print (o_f t) cfg now) (graphite_entries (o_s t) cfg mk m))
      && match all_some (map (graphite_parse_gen (negb lossy)) lines) with
         | None => false
         | Some recs => perm_eqb gl_eqb recs (map (gl_of (o_f t) cfg now) (graphite_entries (o_s t) cfg mk m))
         end
  | BStdout now obs => items_perm obs (stdout_payload (o_f t) (o_s t) mk now m)
  | BEvent src wire lexed =>
      let e := mk_event src in
      str_eqb wire (relay_event e)
      && match lex (fun _ => PFMiss) [] wire with
         | OEvent x => ev_eqb src x && ev_eqb lexed x
         | _ => false
         end
  | BNewRelic pb mode f3 prefix now interval pft obs =>
      match nr_groups (o_s t) (o_parse pft) now interval prefix mode mk m with
      | None => false
      | Some groups =>
          (f3 || items_perm (concat obs) (concat groups)) && dd_structure_gen f3 pb obs groups
      end
  end.
Definition check_flush (c : c17flush) : bool :=
  forallb (check_b (c_mask c) (c_map c) (c_tab c)) (c_backends c).
Definition check_case (c : c17case) : bool := forallb check_flush c.

(* for a failing case: per failing backend a marker item naming it, then the model's payloads *)
Definition lines_items (bs : list (list str)) : list (list item) := map (map line_item) bs.
Definition marker (s : str) : list item := [MkItem s [] [] [] []].
Definition explain_b (mk : mask) (m : fmap) (t : ptab) (b : bcase) : list (list item) :=
  match b with
  | BRelay ps dt _ _ _ _ => marker [114;101;108;97;121] :: lines_items (relay_payloads (o_f t) ps dt m)
  | BInflux pb _ now _ => marker [105;110;102;108;117;120] :: influx_payloads (o_g t) (o_s t) pb mk now m
  | BDatadog pb _ => marker [100;97;116;97;100;111;103] :: datadog_payloads (o_s t) pb mk m
  | BCloudwatch _ => marker [99;108;111;117;100;119;97;116;99;104]
                     :: match cloudwatch_payloads (o_s t) mk m with Some b => b | None => [] end
  | BOtlp bs _ => marker [111;116;108;112] :: otlp_payloads (o_s t) bs mk m
  | BGraphite cfg _ now _ => [marker [103;114;97;112;104;105;116;101]; graphite_payload (o_f t) (o_s t) cfg mk now m]
  | BStdout now _ => [marker [115;116;100;111;117;116]; stdout_payload (o_f t) (o_s t) mk now m]
  | BEvent src _ _ => [marker [101;118;101;110;116]; [line_item (relay_event (mk_event src))]]
  | BNewRelic pb mode _ prefix now interval pft _ =>
      marker [110;101;119;114;101;108;105;99]
      :: match newrelic_payloads (o_s t) (o_parse pft) now interval prefix pb mode mk m with Some b => b | None => [] end
  end.
Definition explain_flush (c : c17flush) : list (list item) :=
  concat (map (explain_b (c_mask c) (c_map c) (c_tab c))
              (filter (fun b => negb (check_b (c_mask c) (c_map c) (c_tab c) b)) (c_backends c))).
Definition explain_case (c : c17case) : list (list item) :=
  concat (map explain_flush (filter (fun f => negb (check_flush f)) c)).
