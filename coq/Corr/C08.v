(* Correspondence for C08.  Two case shapes:
     Single   one timer series through Receive -> ReceiveMap -> Flush, compared with
              [Stats.flush_timer] in the exact and the general (1e-9) float regime: Corr/C08Single.v;
     Full     a history of ReceiveMap | Flush | Reset on one aggregator, the complete aggregate map
              compared with Model/Aggregator.v after every operation: Corr/C08Full.v.
   Theorems about the models: Props/C08.v. *)
From GS Require Export Corr.C08Single Corr.C08Full.

Inductive c08case := Single (c : c08single) | Full (c : c08full).

Definition check_case (c : c08case) : bool :=
  match c with Single s => check_single s | Full f => check_full f end.

Definition explain_case (c : c08case) :=
  match c with
  | Single s => inl (explain_single s)
  | Full f => inr (explain_full f)
  end.
