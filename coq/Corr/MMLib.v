(* Boolean comparison of metric maps through their canonical dumps; shared by the map-level
   correspondence files. *)
From stdpp Require Import gmap.
From GS Require Export Base.Bytes Base.CorrLib Model.Lexer Model.Series Model.MetricMap.

Definition zlist_eqb := list_eqb Z.eqb.
Definition strs_eqb := list_eqb str_eqb.

Definition entry_eqb (a b : entry) : bool :=
  match a, b with
  | EC n k v ts s tg, EC n' k' v' ts' s' tg' =>
      str_eqb n n' && str_eqb k k' && (v =? v')%Z && (ts =? ts')%Z && str_eqb s s' && strs_eqb tg tg'
  | EG n k v ts s tg, EG n' k' v' ts' s' tg' =>
      str_eqb n n' && str_eqb k k' && (v =? v')%Z && (ts =? ts')%Z && str_eqb s s' && strs_eqb tg tg'
  | ET n k vs sn sd ts s tg, ET n' k' vs' sn' sd' ts' s' tg' =>
      str_eqb n n' && str_eqb k k' && zlist_eqb vs vs' && (sn =? sn')%Z && (sd =? sd')%positive
      && (ts =? ts')%Z && str_eqb s s' && strs_eqb tg tg'
  | ES n k ms ts s tg, ES n' k' ms' ts' s' tg' =>
      str_eqb n n' && str_eqb k k' && strs_eqb ms ms' && (ts =? ts')%Z && str_eqb s s' && strs_eqb tg tg'
  | _, _ => false
  end.

Definition mm_eqb (a b : mmap) : bool := list_eqb entry_eqb (entries a) (entries b).

(* the observed dump [es] describes exactly the model map [m] *)
Definition dump_matches (es : list entry) (m : mmap) : bool :=
  (length es =? length (entries m))%nat && mm_eqb (map_of_entries es) m.
