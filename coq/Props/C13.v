From stdpp Require Import gmap.
From GS Require Import Base.Bytes Model.K8s Proofs.K8s.

Theorem C13_memo_coherent_partial : forall cfg ls,
  history_ok cfg init ls ->
  forall ip i, memo (run cfg init ls) !! ip = Some (Some i) ->
  exists p, holds (store (run cfg init ls)) ip p /\ i = derive cfg p.
Proof. exact memo_coherent. Qed.
Print Assumptions C13_memo_coherent_partial.
