(* C13 — Kubernetes lookups reflect the current pod holding an IP.

   Model/K8s.v: a state is the informer's store (pod key -> pod) and the provider's memo
   (ip -> memoised instance or nil); a history is a list of labels
     Add p | Update old new | Delete p   (indexer change, then the invalidation handler)
     Lookup ip                           (Peek, or one IP taken from IpSink)
   and [run cfg init ls] is the state after the history [ls].  Vocabulary used below:
     holds st ip p        p is the stored (current) version of some pod, indexable p = true
                          (has an IP, phase not Succeeded/Failed, not being deleted, not host
                          network, IP <> host IP) and p_ip p = ip
     unique_holder st ip  at most one such p  (C13's "pods with distinct IPs", needed only for
                          the looked-up IP and only at the moment of the lookup)
     history_ok cfg s ls  every delivery of ls is one client-go's processDeltas can make in the
                          state where it is made: Add for a key that is not stored, Update old new
                          with old = the stored version of new's key, Delete of the stored version
     derive cfg p         MkInst (ns ++ "/" ++ name) (tags of labels ++ tags of annotations)
   Regexes are arbitrary functions [re_find : key -> option (whole match, [(group name, text)])]
   (oracle for regexp.FindStringSubmatch + SubexpNames): every theorem holds for all of them. *)
From stdpp Require Import gmap.
From GS Require Import Base.Bytes Model.K8s Proofs.K8s Model.K8sAsync Proofs.K8sAsync.

(* The memo invariant, after ANY history: a memoised instance is the one derived from a pod
   version that is stored now, is indexable and holds that IP (so never from a replaced or
   deleted version); with at most one indexable pod on the IP it is the instance of THE pod
   holding the IP. *)
Theorem C13_memo_coherent : forall cfg ls,
  history_ok cfg init ls ->
  let s := run cfg init ls in
  forall ip i, memo s !! ip = Some (Some i) ->
    (exists p, holds (store s) ip p /\ i = derive cfg p) /\
    (unique_holder (store s) ip -> forall p, holds (store s) ip p -> i = derive cfg p).
Proof. exact memo_coherent_full. Qed.
Print Assumptions C13_memo_coherent.

(* Every lookup in every history (whatever was looked up and memoised before, whatever comes
   after): it answers [derive p] for the one indexable pod p holding the IP at that moment, and
   nothing exactly when no indexable pod holds it. *)
Theorem C13_lookup_current : forall cfg before ip after,
  history_ok cfg init (before ++ Lookup ip :: after) ->
  let s := run cfg init before in
  unique_holder (store s) ip ->
  match fst (lookup cfg s ip) with
  | Some i => exists p, holds (store s) ip p /\ i = derive cfg p /\
                        forall q, holds (store s) ip q -> q = p
  | None => forall p, ~ holds (store s) ip p
  end.
Proof. exact lookup_current_full. Qed.
Print Assumptions C13_lookup_current.

(* "Answers never come from a pod version that has since been updated or deleted" needs no
   hypothesis on IPs at all. *)
Theorem C13_never_stale : forall cfg before ip after i,
  history_ok cfg init (before ++ Lookup ip :: after) ->
  let s := run cfg init before in
  fst (lookup cfg s ip) = Some i ->
  exists k p, store s !! k = Some p /\ indexable p = true /\ p_ip p = ip /\ i = derive cfg p.
Proof. exact lookup_never_stale. Qed.
Print Assumptions C13_never_stale.

(* Memoisation is unobservable: the answer equals the one computed from the index alone. *)
Theorem C13_memo_transparent : forall cfg before ip after,
  history_ok cfg init (before ++ Lookup ip :: after) ->
  let s := run cfg init before in
  unique_holder (store s) ip ->
  fst (lookup cfg s ip) = fst (lookup cfg (MkSt (store s) ∅) ip).
Proof. exact memo_transparent. Qed.
Print Assumptions C13_memo_transparent.

(* The invariant under the weakest contract the code needs from the informer
   ([delivery_safe], Model/K8s.v: the indexable stored version a delivery replaces or removes is
   announced as an indexable pod with the same IP; an Add does not overwrite an indexable one). *)
Theorem C13_memo_coherent_weak_contract : forall cfg ls,
  history_safe cfg init ls ->
  let s := run cfg init ls in
  forall ip i, memo s !! ip = Some (Some i) ->
    (exists p, holds (store s) ip p /\ i = derive cfg p) /\
    (unique_holder (store s) ip -> forall p, holds (store s) ip p -> i = derive cfg p).
Proof. exact memo_coherent_safe. Qed.
Print Assumptions C13_memo_coherent_weak_contract.

(* The three-way tag-name rule of getTagNameFromRegex, for every regex and key.
   [tag_capture groups t]: t is the text of the first group named "tag" that captured non-empty
   text; [no_tag_capture groups]: no group named "tag" captured any text.  "" = no tag. *)
Theorem C13_tag_rule : forall (re : regex) (key : str),
  match re_find re key with
  | None => tag_name re key = []
  | Some (whole, groups) =>
      (forall t, tag_capture groups t -> tag_name re key = t) /\
      (no_tag_capture groups -> whole <> [] -> tag_name re key = key) /\
      (no_tag_capture groups -> whole = [] -> tag_name re key = []) /\
      ((exists t, tag_capture groups t) \/ no_tag_capture groups)
  end.
Proof. exact tag_rule. Qed.
Print Assumptions C13_tag_rule.

(* The instance of a pod: identity ns/name; one tag "name:value" for every label whose key gets
   a tag name from the label regex and every annotation whose key gets one from the annotation
   regex, nothing else; a nil regex contributes nothing. *)
Theorem C13_instance_of_pod : forall cfg p,
  i_id (derive cfg p) = p_ns p ++ c_slash :: p_name p /\
  forall tag, In tag (i_tags (derive cfg p)) <->
    (exists r k v, c_label_re cfg = Some r /\ In (k, v) (p_labels p) /\ tag_name r k <> [] /\
                   tag = tag_name r k ++ c_colon :: v) \/
    (exists r k v, c_annot_re cfg = Some r /\ In (k, v) (p_annots p) /\ tag_name r k <> [] /\
                   tag = tag_name r k ++ c_colon :: v).
Proof. exact derive_spec. Qed.
Print Assumptions C13_instance_of_pod.

(* The hypothesis is used: without "at most one indexable pod per IP" the second half of
   C13_memo_coherent fails (two running pods share an IP; one is memoised, the other holds it). *)
Theorem C13_needs_unique_ip :
  exists cfg ls ip i p,
    history_ok cfg init ls /\
    memo (run cfg init ls) !! ip = Some (Some i) /\
    holds (store (run cfg init ls)) ip p /\
    i <> derive cfg p.
Proof. exact needs_unique_ip. Qed.
Print Assumptions C13_needs_unique_ip.

(* So is the informer contract: after a delivery outside it (a Delete announcing a version that
   is not the stored one) a lookup answers an instance although no pod holds the IP. *)
Theorem C13_needs_informer_contract :
  exists cfg ls ip i,
    ~ history_safe cfg init ls /\
    fst (lookup cfg (run cfg init ls) ip) = Some i /\
    forall p, ~ holds (store (run cfg init ls)) ip p.
Proof. exact needs_informer_contract_ex. Qed.
Print Assumptions C13_needs_informer_contract.

(* ------------------------------------------------------------------------------------------
   Where C13 ends.  Model/K8sAsync.v refines the labels to the critical sections of the Go code:
     IndexUpdate d      the informer changes its indexer and queues the notification
     HandlerCall        the listener runs OnAdd/OnUpdate/OnDelete for the oldest notification
     LookupReadMemo t ip | LookupReturnHit t | LookupReadIndex t | LookupWriteMemo t
                        the three lock scopes of instanceFromCache (no lock is held between them)
   [arun cfg ainit als] = Some s: the label sequence als is executable and leads to s;
   [a_out s]: the answers returned so far, (lookup id, ip, answer). *)

(* The synchronous model is the special case: a run in which every HandlerCall immediately
   follows its IndexUpdate and the sections of every lookup are adjacent ([serial als ls]) ends in
   the state of the synchronous history ls, nothing queued or in flight, with the same answers ...*)
Theorem C13_async_refines_sync : forall cfg als ls s',
  serial als ls -> arun cfg ainit als = Some s' ->
  a_store s' = store (run cfg init ls) /\ a_memo s' = memo (run cfg init ls) /\
  a_queue s' = [] /\ a_pending s' = ∅ /\
  map (fun o => (snd (fst o), snd o)) (a_out s') = sync_answers cfg init ls.
Proof. exact async_refines_sync. Qed.
Print Assumptions C13_async_refines_sync.

(* ... and every synchronous history is such a run, so the theorems above are about these runs. *)
Theorem C13_async_sync_runs_exist : forall cfg ls,
  exists als s', serial als ls /\ arun cfg ainit als = Some s'.
Proof. exact sync_is_async. Qed.
Print Assumptions C13_async_sync_runs_exist.

(* Outside that special case C13's conclusion is FALSE for the code as it is.  A schedule of
   informer deliveries (all within the informer contract) and one lookup, after which every
   handler has run, no lookup is in flight, no pod holds ip - and every lookup of ip, in every
   continuation without further informer activity, answers the deleted pod's instance i.
   (Witness: the delete lands between LookupReadIndex and LookupWriteMemo.) *)
Theorem C13_async_stale_refuted :
  exists cfg als ip i s,
    ahistory_ok cfg ainit als /\ arun cfg ainit als = Some s /\
    a_queue s = [] /\ a_pending s = ∅ /\
    (forall p, ~ holds (a_store s) ip p) /\
    (exists s1, arun cfg s [LookupReadMemo 1 ip; LookupReturnHit 1] = Some s1 /\
                a_out s1 = a_out s ++ [(1%N, ip, Some i)]) /\
    forall more s', no_index_update more -> arun cfg s more = Some s' ->
      a_memo s' !! ip = Some (Some i) /\
      exists new, a_out s' = a_out s ++ new /\ Forall (fun o => snd (fst o) = ip -> snd o = Some i) new.
Proof. exact async_stale_refuted. Qed.
Print Assumptions C13_async_stale_refuted.

(* The exact boundary.  [ainv]: every memoised instance, and every instance a lookup has read
   from the index and not yet memoised, is current (derived from a pod holding the IP now) or
   doomed (a queued notification will drop it).  Every step keeps ainv, except precisely a
   HandlerCall that is not [handler_safe]: it handles the oldest notification d while some
   lookup holds a computed instance that only d justifies. *)
Theorem C13_async_coherence_exact : forall cfg s l s',
  ainv cfg s ->
  match l with IndexUpdate d => informer_ok (a_store s) (label_of d) | _ => True end ->
  astep cfg s l = Some s' ->
  (ainv cfg s' <-> match l with HandlerCall => handler_safe cfg s | _ => True end).
Proof. exact astep_ainv_exact. Qed.
Print Assumptions C13_async_coherence_exact.

(* Hence on every schedule all of whose handler calls are harmless, staleness is bounded by the
   notification queue: a memoised instance is current or its invalidation is still queued, and
   whenever the queue is empty memo coherence holds as in C13_memo_coherent. *)
Theorem C13_async_safe_schedules : forall cfg als s',
  ahistory_ok cfg ainit als -> handlers_safe cfg ainit als -> arun cfg ainit als = Some s' ->
  (forall ip i, a_memo s' !! ip = Some (Some i) ->
     (exists p, holds (a_store s') ip p /\ i = derive cfg p) \/
     (exists d, In d (a_queue s') /\ invalidates d ip)) /\
  (a_queue s' = [] ->
   forall ip i, a_memo s' !! ip = Some (Some i) -> exists p, holds (a_store s') ip p /\ i = derive cfg p).
Proof. exact async_safe_schedules. Qed.
Print Assumptions C13_async_safe_schedules.

(* In particular when no handler call happens while a lookup is between its index read and its
   memo write ([handlers_calm]); lookups may overlap IndexUpdates and each other freely. *)
Theorem C13_async_bounded_staleness : forall cfg als s',
  ahistory_ok cfg ainit als -> handlers_calm cfg ainit als -> arun cfg ainit als = Some s' ->
  (forall ip i, a_memo s' !! ip = Some (Some i) ->
     (exists p, holds (a_store s') ip p /\ i = derive cfg p) \/
     (exists d, In d (a_queue s') /\ invalidates d ip)) /\
  (a_queue s' = [] ->
   forall ip i, a_memo s' !! ip = Some (Some i) -> exists p, holds (a_store s') ip p /\ i = derive cfg p).
Proof. exact async_bounded_staleness. Qed.
Print Assumptions C13_async_bounded_staleness.
