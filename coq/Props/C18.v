From Coq Require Import ZArith List.
From GS Require Import Base.LTS Model.Ticker Proofs.Ticker.
Local Open Scope Z_scope.

Theorem C18_initial_wait : forall start i o,
  0 < i <= max_dur ->
  0 < initial_wait start i o <= i /\ (start + initial_wait start i o - o) mod i = 0.
Proof. exact initial_wait_spec. Qed.
Print Assumptions C18_initial_wait.
