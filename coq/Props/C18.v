(* C18 — aligned flushing happens exactly on interval boundaries.

   Vocabulary (Model/Ticker.v; instants and durations are Z nanoseconds, instants counted from
   Go's zero time): [initial_wait now i o] is the duration AlignedTicker.start hands to
   clck.NewTimer; [round_tick t i o] is the value sendTick puts on C for a raw tick t;
   [step i o] is the transition function of the system {mock clock, ticker goroutine, flusher
   loop} with labels [Advance d] (the clock is advanced by d >= 0), [Tick] (the ticker goroutine
   performs its next atomic action) and [Consume] (MetricFlusher.Run receives from C and
   flushes); [init start wall0] is the state at creation with the clock at [start] and the
   flusher's lastFlush initialised from the wall clock reading [wall0].  A flush [f] records the
   clock reading [f_at f], the tick value [f_tick f] received from C and the interval
   [f_delta f] handed to Aggregator.Flush; [flushes s] is the history, newest first;
   [flush_times s = map f_tick (rev (flushes s))].  [max_dur] = math.MaxInt64: the hypothesis
   [i <= max_dur] says only that the interval is a time.Duration. *)
From Coq Require Import ZArith List Sorted.
From GS Require Import Base.LTS Model.Ticker Proofs.Ticker Proofs.TickerLTS.
Import ListNotations.
Local Open Scope Z_scope.

(* The first timer is armed for a wait in (0, interval] that ends on a boundary. *)
Theorem C18_initial_wait : forall start i o,
  0 < i <= max_dur ->
  0 < initial_wait start i o <= i /\ (start + initial_wait start i o - o) mod i = 0.
Proof. exact initial_wait_spec. Qed.
Print Assumptions C18_initial_wait.

(* Whatever raw value the clock delivers, the value sent on C is the latest boundary <= it. *)
Theorem C18_tick_aligned : forall t i o,
  0 < i ->
  (round_tick t i o - o) mod i = 0 /\ round_tick t i o <= t < round_tick t i o + i.
Proof. exact round_tick_aligned. Qed.
Print Assumptions C18_tick_aligned.

(* Along every label sequence every flush is triggered by a tick value on a boundary, and
   never before the clock has reached that boundary. *)
Theorem C18_flush_aligned : forall i o start wall0 ls s,
  0 < i ->
  run (step i o) (init start wall0) ls = Some s ->
  forall f, In f (flushes s) -> (f_tick f - o) mod i = 0 /\ f_tick f <= f_at f.
Proof. exact run_flush_aligned. Qed.
Print Assumptions C18_flush_aligned.

(* Along every label sequence the values delivered on C strictly increase. *)
Theorem C18_strictly_increasing : forall i o start wall0 ls s,
  0 < i ->
  run (step i o) (init start wall0) ls = Some s ->
  StronglySorted Z.lt (flush_times s).
Proof. exact run_strictly_increasing. Qed.
Print Assumptions C18_strictly_increasing.

(* Along every label sequence, for every flush f after the first (p is the flush before it):
   the ticks are k > 0 intervals apart and the interval handed to the aggregators is that
   distance as computed by Time.Sub, i.e. k * i unless k * i exceeds the largest Duration (then
   Time.Sub saturates at max_dur). *)
Theorem C18_delta_multiple : forall i o start wall0 ls s,
  0 < i ->
  run (step i o) (init start wall0) ls = Some s ->
  forall pre p f post, rev (flushes s) = pre ++ p :: f :: post ->
    exists k, 0 < k /\ f_tick f = f_tick p + k * i
              /\ f_delta f = sat_dur (k * i) /\ (k * i <= max_dur -> f_delta f = k * i).
Proof. exact run_delta_multiple. Qed.
Print Assumptions C18_delta_multiple.

(* Along every label sequence the first flush: [started s = Some st] is the clock reading the
   ticker goroutine obtained from clck.Now() when it started, [armed s = Some (a, w)] the clock
   reading at its clck.NewTimer call and the wait it passed.  The first tick is the boundary
   reached by that timer: strictly after st, at most one interval after a; and exactly
   st + initial wait (<= st + i, C18_initial_wait) when the clock did not move between the two
   calls. *)
Theorem C18_first_flush : forall i o start wall0 ls s,
  0 < i <= max_dur ->
  run (step i o) (init start wall0) ls = Some s ->
  forall t0 rest, flush_times s = t0 :: rest ->
    exists st a, started s = Some st /\ armed s = Some (a, initial_wait st i o) /\ st <= a
      /\ t0 = round_tick (a + initial_wait st i o) i o
      /\ st < t0 <= a + i
      /\ (a = st -> t0 = st + initial_wait st i o).
Proof. exact run_first_flush. Qed.
Print Assumptions C18_first_flush.
