(* C11 - cloud enrichment forwards every item exactly once, correctly tagged.

   Statements only.  The model is the labelled transition system of Model/Cloud.v (one label = one
   atomic action of CloudHandler: ArriveMetrics es peek | ArriveEvent e peek | SendLookup s | Info s io |
   Emit, with [peek] an arbitrary function per arrival); all theorems quantify over every label sequence
   [ls] and so over every interleaving of arrivals, lookups leaving, lookup results and stats emissions.
   Vocabulary (Model/Cloud.v):
     items_in ls      every series / event carried by an arrival label of ls, as it entered
     down st          log of what was handed downstream: d_orig r = the item as it entered, d_inst r = the
                      instance applied (None = none), delivered r = what the downstream handler received
     parked st        everything in awaitingMetrics / awaitingEvents; parked_for st s = the slots of source s
     label_answer l s the answer label l gives for source s: the cache hit of an arrival (the empty source is
                      a hit without instance), the instance of Info s; None = the label does not release s
     waiting st s     something is parked for s
     pending st       sources queued for lookup and not yet handed to the cache (toLookupIPs and Run's send
                      register); pushed / popped / sent (lk st): every push, every send, outstanding lookups
     abs m            the contents of a MetricMap per series key (Model/Content.v): counter total, multiset of
                      timer values, sampled count, set members; entry_cmap e = the contents of one series;
                      dispatch_of b m: m is a map the code may dispatch for the batch b of downstream records
                      (its re-keyed series merged into a fresh map in ANY order - Go's map iteration order)
   Proofs: Proofs/Cloud.v (accounting), CloudInv.v (invariant, gauges), CloudSteps.v (per-label clauses,
   tagging), CloudLookup.v (stack, lookups), CloudMaps.v (merged maps, collisions), CloudD7.v (witnesses and
   non-vacuity examples). *)
From stdpp Require Import gmap.
From GS Require Import Base.Bytes Base.LTS Model.Series Model.MetricMap Model.Content Model.Cloud
  Model.CloudMaps Proofs.Cloud Proofs.CloudInv Proofs.CloudSteps Proofs.CloudLookup Proofs.CloudMaps
  Proofs.CloudD7.
Local Open Scope Z_scope.

(* Nothing is ever duplicated or dropped: in every reachable state the multiset of items that entered is
   the multiset of items handed downstream (as they entered) plus the multiset of parked items. *)
Theorem C11_exactly_once : forall ls st,
  run step init ls = Some st ->
  items_in ls ≡ₚ (d_orig <$> down st) ++ parked st.
Proof. exact exactly_once. Qed.
Print Assumptions C11_exactly_once.

(* The same on the MetricMaps the code really builds.  Series that become equal after the update (two
   addresses of one instance, tags that differ only in what the instance adds) are MERGED by the dispatch
   paths, in the order Go's map iteration meets them; whatever those orders are ([maps] is any list of maps the
   code may dispatch for the run's batches), the dispatched maps hold in total, per series key, exactly the
   contents of the metric series in the downstream log - and the log plus the parked items is what entered. *)
Theorem C11_exactly_once_contents : forall ls st maps,
  run step init ls = Some st -> Forall2 dispatch_of (batches init ls) maps ->
  items_in ls ≡ₚ (d_orig <$> down st) ++ parked st
  /\ cmap_sum (abs <$> maps) = cmap_sum (entry_cmap <$> delivered_metrics (down st)).
Proof. exact exactly_once_contents. Qed.
Print Assumptions C11_exactly_once_contents.

(* One merged map (a dispatch, or a park slot): in whatever order [ord] the series [es] are merged into a
   fresh map, its contents are the sum of the series' contents (colliding series add up: counters sum, timer
   values and sampled counts accumulate, set members unite) ... *)
Theorem C11_merge_contents : forall es ord,
  ord ≡ₚ es -> abs (abs_entries ord) = cmap_sum (entry_cmap <$> es).
Proof. exact merge_contents. Qed.
Print Assumptions C11_merge_contents.

(* ... and its gauge for a key is one of the merged gauges of that key with the newest timestamp. *)
Theorem C11_merge_gauges : forall es ord k,
  ord ≡ₚ es -> gauge_newest (entry_map <$> es) k (MetricMap.gauges (abs_entries ord) !! k).
Proof. exact merge_gauges. Qed.
Print Assumptions C11_merge_gauges.

(* ... and when: a label only appends to the downstream log; an arriving item whose source is empty or
   cached goes downstream within the same label, any other is parked under its own source; Info s moves
   exactly the items parked for s downstream and touches no other source. *)
Theorem C11_exactly_once_per_label : forall st l st',
  step st l = Some st' ->
  exists batch, down st' = down st ++ batch
    /\ (forall x, x ∈ items_of l ->
          match label_answer l (item_src x) with
          | Some io => Drec x io ∈ batch
          | None => x ∈ parked_for st' (item_src x)
          end)
    /\ (forall s io, l = Info s io ->
          batch = (fun x => Drec x io) <$> parked_for st s
          /\ parked_for st' s = []
          /\ forall s', s' <> s -> parked_for st' s' = parked_for st s').
Proof. exact exactly_once_step. Qed.
Print Assumptions C11_exactly_once_per_label.

(* Every item a label hands downstream was released by that label's answer for the item's own source, and
   leaves with the instance's tags added and the instance id as source if that answer carries an instance
   (Info s (Some i) or a positive cache hit), unchanged otherwise (Info s None, negative hit, empty source).
   Name, type, values, timestamp and all other event fields ([item_body]) never change.  A metric series is
   re-keyed under FormatTagsKey(source, tags), which sorts its tag slice in place: its tags are the stated
   tags up to order; an event's tags are exactly tags ++ instance tags. *)
Theorem C11_tagging : forall ls st l st',
  run step init ls = Some st -> step st l = Some st' ->
  exists batch, down st' = down st ++ batch /\
    forall r, r ∈ batch ->
      label_answer l (item_src (d_orig r)) = Some (d_inst r)
      /\ item_body (delivered r) = item_body (d_orig r)
      /\ match d_inst r with
         | Some i =>
             item_src (delivered r) = inst_id i
             /\ item_tags (delivered r) ≡ₚ item_tags (d_orig r) ++ inst_tags i
             /\ (forall e, d_orig r = IE e -> item_tags (delivered r) = ev_tags e ++ inst_tags i)
             /\ (forall e, delivered r = IM e ->
                   entry_key e = tags_key (inst_id i) (item_tags (d_orig r) ++ inst_tags i))
         | None =>
             item_src (delivered r) = item_src (d_orig r)
             /\ item_tags (delivered r) ≡ₚ item_tags (d_orig r)
             /\ (forall e, d_orig r = IE e -> delivered r = IE e)
             /\ (forall e, delivered r = IM e ->
                   entry_key e = tags_key (item_src (d_orig r)) (item_tags (d_orig r)))
         end.
Proof. exact tagging. Qed.
Print Assumptions C11_tagging.

(* At most one lookup per source is pending or outstanding - under the environment hypothesis, built into
   [step_env], that a result Info s arrives only for a source whose lookup has left and is unanswered
   (s ∈ sent (lk st)).  The composite with the real cache also delivers refresh results; those release parked
   items early, which the theorems above allow, and are why the hypothesis is explicit
   (Proofs/CloudD7.v, one_lookup_needs_env: without it the count reaches 2). *)
Theorem C11_one_lookup : forall ls st s,
  run step_env init ls = Some st ->
  (count s (pending st ++ sent (lk st)) <= 1)%nat.
Proof. exact one_lookup. Qed.
Print Assumptions C11_one_lookup.

(* ... more precisely: a lookup for s is pending or outstanding exactly when something is parked for s,
   so nothing waits without a lookup on its way and no lookup is issued for nothing. *)
Theorem C11_lookup_iff_waiting : forall ls st s,
  run step_env init ls = Some st ->
  count s (pending st ++ sent (lk st)) = if waiting st s then 1%nat else 0%nat.
Proof. exact lookup_iff_waiting. Qed.
Print Assumptions C11_lookup_iff_waiting.

(* Every source pushed on toLookupIPs is handed to the cache exactly once or is still pending: as multisets,
   pushes = sends + pending, in every reachable state (so once nothing is pending, every pushed source has been
   sent exactly once).  No hypothesis on the environment. *)
Theorem C11_every_pending_looked_up : forall ls st,
  run step init ls = Some st -> pushed (lk st) ≡ₚ popped (lk st) ++ pending st.
Proof. exact every_pending_looked_up. Qed.
Print Assumptions C11_every_pending_looked_up.

(* The send arm removes exactly the source it sends - one that sits in the group the register was loaded from -
   and pushes nothing; every other label sends nothing and only adds what it pushes. *)
Theorem C11_lookup_per_label : forall st l st',
  step st l = Some st' ->
  match l with
  | SendLookup s =>
      popped (lk st') = popped (lk st) ++ [s] /\ pushed (lk st') = pushed (lk st)
      /\ pending st ≡ₚ s :: pending st'
      /\ exists g, (true, g) ∈ stack (lk st) /\ s ∈ g
  | _ => popped (lk st') = popped (lk st)
         /\ exists new, pushed (lk st') = pushed (lk st) ++ new /\ pending st' ≡ₚ new ++ pending st
  end.
Proof. exact lookup_step. Qed.
Print Assumptions C11_lookup_per_label.

(* No pending source can be shut out (safety form of "no starvation"): whenever something is pending, Run's
   send register is loaded, i.e. the send arm is enabled for some pending source. *)
Theorem C11_pending_can_leave : forall ls st,
  run step init ls = Some st -> pending st <> [] ->
  exists s st', s ∈ pending st /\ step st (SendLookup s) = Some st'.
Proof. exact pending_can_leave. Qed.
Print Assumptions C11_pending_can_leave.

(* every run under the environment hypothesis is a run of the unrestricted system *)
Theorem C11_env_runs_are_runs : forall ls s0 st,
  run step_env s0 ls = Some st -> run step s0 ls = Some st.
Proof. exact run_env_run. Qed.
Print Assumptions C11_env_runs_are_runs.

(* The reported numbers are the true numbers (after fix 0b11cb1): in every reachable state
   hosts_queued{type:metric} = number of sources with parked metrics, hosts_queued{type:event} = number of
   sources with parked events, items_queued = number of parked events - as uint64, i.e. modulo 2^64
   ([u64]); a decrement therefore never takes a gauge below the true number (no underflow). *)
Theorem C11_gauges : forall ls st,
  run step init ls = Some st ->
  hostsM st = u64 (Z.of_nat (size (awaitM st)))
  /\ hostsE st = u64 (Z.of_nat (size (awaitE st)))
  /\ itemsE st = u64 (Z.of_nat (length (parked_events st))).
Proof. exact gauges_true. Qed.
Print Assumptions C11_gauges.

(* ... exactly, whenever the true numbers fit a uint64 *)
Theorem C11_gauges_exact : forall ls st,
  run step init ls = Some st ->
  Z.of_nat (size (awaitM st)) < 2 ^ 64 -> Z.of_nat (size (awaitE st)) < 2 ^ 64 ->
  Z.of_nat (length (parked_events st)) < 2 ^ 64 ->
  hostsM st = Z.of_nat (size (awaitM st))
  /\ hostsE st = Z.of_nat (size (awaitE st))
  /\ itemsE st = Z.of_nat (length (parked_events st)).
Proof. exact gauges_exact. Qed.
Print Assumptions C11_gauges_exact.

(* ... and these are the numbers a stats emission reports *)
Theorem C11_gauges_emitted : forall ls st st',
  run step init ls = Some st -> step st Emit = Some st' ->
  emitted st' = emitted st ++ [(u64 (Z.of_nat (size (awaitM st))), u64 (Z.of_nat (size (awaitE st))),
                                u64 (Z.of_nat (length (parked_events st))))].
Proof. exact gauges_emit. Qed.
Print Assumptions C11_gauges_emitted.

(* Defect D7 (repaired in /repo by fix 0b11cb1): with the gauge accounting as it was before the fix
   ([step_legacy]), an event from an unknown source, then metrics from the same source, then the lookup
   result leave nothing parked and hosts_queued{type:metric} = 2^64-1. *)
Theorem C11_legacy_refuted_D7 :
  exists st, run step_legacy init
               [ArriveEvent d7_event d7_miss; ArriveMetrics [d7_counter] d7_miss; Info d7_src None] = Some st
             /\ parked st = [] /\ hostsM st = 2 ^ 64 - 1.
Proof. exact legacy_refuted_D7. Qed.
Print Assumptions C11_legacy_refuted_D7.
