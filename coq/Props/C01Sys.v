(* C01, end to end: the standalone server from the bytes read off the socket to the statistics
   handed to the backends, as ONE theorem over the composition of the component models
   (Model/System.v):

     Receiver.v (b-c03)  ->  Datagram.v + Lexer.v (b-c05, C02)  ->  PipelineBounded.v (C01)  ->  Aggregator.v (b-c08)
     C03_receiver_conserves   C05: a datagram is its lines         C01_bounded_exact_at_quiescence   C08_full_flush_spec

   Vocabulary (Model/System.v):
     sstep pf hpf rank sc        the system: SRead r / SDone b (the receiver's labels: any ReadBatch result -
                                 datagrams from any senders, zero-length datagrams, read errors - and DoneFuncs),
                                 SParse p (parser p takes the NEXT batch the receiver handed over), SEnq / SRdv /
                                 SMerge / STick / SCmd / SExec (PipelineBounded's labels; SExec = Flush(dt);
                                 Process; Reset at clock now on a full Aggregator.v state).  [SCrash] = a Go panic.
     sc : sysconfig              parsers, shards, queue size, aggregator configuration (percentile thresholds,
                                 disabled subtypes, histogram limit, expiry intervals), namespace, ignore-host,
                                 unix socket or not, receive batch size.
     pf / hpf / rank             strconv.ParseFloat for the lexer / for histogram bucket items; the rank function.
     accepted_lines pf sc ls     the metric lines the lexer accepts, of all datagrams read in ls, in order, as the
                                 datapoints they denote (source = sender or host: tag, timestamp = receive time)
     rejected_lines pf sc ls     the number of lines the lexer rejects
     ss_out s'                   every aggregate handed to the backends: flush id, worker, the Aggregator.v state
                                 after Flush, and (ghost) the history [fl_ops] and interval [fl_dt] it came from
     received_since_reset ops k  the values and sampled count ReceiveMap handed to timer k since the last Reset
     timer_spec                  Model/Stats.v: count, per-second, mean, median, min, max, deviation, sum, sum of
                                 squares, percentiles, histogram buckets of a list of values (Props/C08.v)
     histories_within bound s'   the hypotheses of C08_full_flush_spec on the recorded histories: fewer than
                                 [bound] timer values handed to one aggregator, tags shorter than 2^32 bytes (both
                                 follow from fewer than 2^52 lines read in datagrams of at most 65535 bytes; that
                                 derivation from the bytes is not mechanised). *)
From stdpp Require Import gmap gmultiset.
From Coq Require Import QArith Qcanon.
From GS Require Import Base.Bytes Base.LTS Model.Lexer Model.Series Model.MetricMap Model.Content.
From GS Require Import Model.GoPartial Model.Histogram Model.Stats Model.Aggregator.
From GS Require Import Model.Pipeline Model.PipelineBounded Model.System.
From GS Require Model.Receiver Model.Datagram.
From GS Require Import Proofs.System Proofs.SystemEndToEnd.
Local Open Scope nat_scope.

(* For every read script, every configuration and every schedule: once every batch the receiver
   handed over has been parsed, nothing is held by a parser or queued, and a complete flush f has
   followed,
   (i)   summed over all flushes each counter series reports the sum of int64(value/rate) over exactly
         the accepted counter lines of that series in the bytes read;
   (ii)  each timer series' reported values are exactly the multiset of its accepted lines' values, its
         sampled counts sum to the sum of 1/rate, and the statistics of every single flush are
         [timer_spec] of the values that flush carried;
   (iii) each set series' members are exactly those of its accepted lines;
   (iv)  nothing is reported for a series no accepted line named, and the rejected lines have
         contributed nothing but the bad-line count. *)
Theorem C01_system_end_to_end :
  ∀ (pf : str → pfres) (hpf : str → option bound) (rank : Z → Z → Z) (sc : sysconfig) (bound : Z)
    (ls : list slabel) (s : sstate) (ls' : list slabel) (s' : sstate) (f : nat),
    sy_shards sc ≠ 0 →
    (∀ p n, (-100 ≤ p ≤ 100)%Z → (0 ≤ n < bound)%Z → (0 ≤ rank p n ≤ n)%Z) →
    (Forall (λ p, (-100 ≤ p ≤ 100)%Z) (ak_pcts (sy_acfg sc)) ∧ (0 ≤ ak_limit (sy_acfg sc))%Z) →
    Forall (Receiver.wf_label (sy_batch sc)) (recv_labels ls) →
    run (sstep pf hpf rank sc) (SRun (sinit sc)) ls = Some (SRun s) →
    (ss_taken s = length (Receiver.r_handed (ss_recv s))
     ∧ (∀ l, l ∈ ss_pending s → l = []) ∧ (∀ q, q ∈ ss_queue s → q = [])) →
    run (sstep pf hpf rank sc) (SRun s) ls' = Some (SRun s') →
    (∃ pre post, ls' = pre ++ STick f :: post ∧ Forall is_sflush_label pre ∧ Forall is_sshard_label post) →
    (∃ nx, ss_flush s' = Some (f, nx) ∧ sy_shards sc ≤ nx ∧ ∀ x, x ∈ ss_busy s' → x = false) →
    histories_within bound s' →
    let accepted := accepted_lines pf sc ls in
    let flushed := (λ x, to_mmap (fl_agg x)) <$> ss_out s' in
    (∀ k : skey,
       zsum ((λ m, counter_at m k) <$> flushed) = zsum (counter_increment <$> samples_of Counter k accepted)
       ∧ msum ((λ m, timer_values_at m k) <$> flushed) = list_to_set_disj (dp_value <$> samples_of Timer k accepted)
       ∧ qsum ((λ m, sampled_at m k) <$> flushed) = qsum (sample_weight <$> samples_of Timer k accepted)
       ∧ ⋃ ((λ m, members_at m k) <$> flushed) = list_to_set (dp_strval <$> samples_of MSet k accepted))
    ∧ (∀ x k t', x ∈ ss_out s' → a_timers (fl_agg x) !! k = Some t' →
         let got := received_since_reset (fl_ops x) k in
         let spec := timer_spec rank hpf (stats_config (sy_acfg sc) (fl_dt x)) got.1 got.2 (Stats.t_tags (at_t t')) HNil in
         with_pcts (at_t t') [] = with_pcts spec [] ∧ t_pcts (at_t t') = t_pcts spec)
    ∧ (∀ x ty k, x ∈ ss_out s' → holds (to_mmap (fl_agg x)) ty k →
         ∃ d, d ∈ accepted ∧ dp_type d = ty ∧ dp_key d = k)
    ∧ ss_bad s' = rejected_lines pf sc ls.
Proof. exact system_end_to_end. Qed.
Print Assumptions C01_system_end_to_end.

(* The pipeline inside the system IS the configured pipeline of Props/C01.v: every run of the system
   that does not crash projects ([sproj]: aggregators through b-c08's [to_mmap]) to a run of
   Model/PipelineBounded.v, its receiver part is a run of Model/Receiver.v on the read labels, and
   every aggregator is the outcome of its recorded history. *)
Theorem C01_system_refines_components :
  ∀ (pf : str → pfres) (hpf : str → option bound) (rank : Z → Z → Z) (sc : sysconfig) (ls : list slabel) (s : sstate),
    run (sstep pf hpf rank sc) (SRun (sinit sc)) ls = Some (SRun s) →
    (∃ bls, run (bstep (sy_bc sc)) (binit (sy_bc sc)) bls = Some (sproj s))
    ∧ Receiver.receive (sy_rcfg sc) (sy_batch sc) (recv_labels ls) = Some (Receiver.Running (ss_recv s))
    ∧ (∀ i h a, ss_hist s !! i = Some h → ss_aggr s !! i = Some a → arun hpf rank (sy_acfg sc) h = GoPartial.Ok a).
Proof. exact system_refines_components. Qed.
Print Assumptions C01_system_refines_components.
