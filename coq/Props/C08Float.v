(* Soundness of the general-regime tolerance of Corr/C08.v (DESIGN 3.1) for the accumulated
   statistics: statements only (proofs: Proofs/FloatSum*.v, written by the C04 builder); part of property C08 (props_extra in tools/props.d/C08.json).

   Model/FloatSum.v: the Go loops of MetricAggregator.Flush on binary64 (round to nearest even):
   go_sum / go_sumsq = cumulativeValues[n-1] / cumulSumSquaresValues[n-1], go_cumulative the whole
   array, go_sum_top xs k = cumulative[n-1] - cumulative[n-k-1], go_mean = sum / float64(n).
   [FR f] = the real value of the float f (Flocq's B2R (Prim2B f)), [fin f] = f is finite
   (equivalently PrimFloat.is_finite f = true, FloatSumOps.fin_prim), u = 2^-53,
   Rsum / Rsumabs / Rsumsq = SUM x, SUM |x|, SUM x^2 over the real values, tol = 1e-9.
   "Partial sums do not overflow" = every element of the cumulative array is finite. *)
From Coq Require Import List ZArith Reals Floats.
From Flocq Require Import Core.Core.
From GS Require Import Model.FloatSum.
From GS Require Import Proofs.FloatSumOps.
From GS Require Import Proofs.FloatSum.
Import ListNotations.
Local Open Scope R_scope.

(* |fl_sum - SUM x| <= ((1+u)^(n-1) - 1) SUM |x|  for every non-empty list of finite doubles *)
Theorem C08_float_sum_error : forall (x : PrimFloat.float) (r : list PrimFloat.float),
  Forall fin (x :: r) -> Forall fin (go_cumulative (x :: r)) ->
  Rabs (FR (go_sum (x :: r)) - Rsum (x :: r)) <= ((1 + u) ^ length r - 1) * Rsumabs (x :: r).
Proof. exact go_sum_bound. Qed.
Print Assumptions C08_float_sum_error.

(* |fl_sumsq - SUM x^2| <= ((1+u)^n - 1) SUM x^2  (each square rounded once); values whose
   square would underflow (0 < |x| < 2^-511) are excluded: for them the bound is false *)
Theorem C08_float_sumsq_error : forall (x : PrimFloat.float) (r : list PrimFloat.float),
  Forall (fun y => fin y /\ fin (square y) /\ (FR y = 0 \/ bpow radix2 (-511) <= Rabs (FR y))) (x :: r) ->
  Forall fin (go_cumul_squares (x :: r)) ->
  Rabs (FR (go_sumsq (x :: r)) - Rsumsq (x :: r)) <= ((1 + u) ^ length (x :: r) - 1) * Rsumsq (x :: r).
Proof. exact go_sumsq_bound. Qed.
Print Assumptions C08_float_sumsq_error.

(* mean = sum / float64(n): one more rounding (quotient not subnormal) *)
Theorem C08_float_mean_error : forall (xs : list PrimFloat.float) (count : PrimFloat.float),
  fin (go_sum xs) -> fin count -> fin (go_mean xs count) -> FR count <> 0 ->
  FR (go_sum xs) / FR count = 0 \/ bpow radix2 (-1022) <= Rabs (FR (go_sum xs) / FR count) ->
  Rabs (FR (go_mean xs count) - FR (go_sum xs) / FR count) <= u * Rabs (FR (go_sum xs) / FR count).
Proof. exact go_mean_bound. Qed.
Print Assumptions C08_float_mean_error.

(* what Flush reads at cumulativeValues[k] is the go_sum of the first k+1 values *)
Theorem C08_float_cumulative_nth : forall (xs : list PrimFloat.float) (k : nat),
  (k < length xs)%nat -> nth_error (go_cumulative xs) k = Some (go_sum (firstn (S k) xs)).
Proof. exact cumulative_nth. Qed.
Print Assumptions C08_float_cumulative_nth.

(* The tolerance 1e-9 * SUM |x| (Corr/C08.v: cmp/near with scale1) can never flag a sum computed as
   the Go code computes it, up to 10^6 values *)
Theorem C08_tolerance_sound_sum : forall xs : list PrimFloat.float,
  (Z.of_nat (length xs) <= 1000000)%Z -> Forall fin xs -> Forall fin (go_cumulative xs) ->
  Rabs (FR (go_sum xs) - Rsum xs) <= / 1000000000 * Rsumabs xs.
Proof. exact tolerance_sound_sum. Qed.
Print Assumptions C08_tolerance_sound_sum.

(* the same for the sum of squares against 1e-9 * SUM x^2 (scale2) *)
Theorem C08_tolerance_sound_sumsq : forall xs : list PrimFloat.float,
  (Z.of_nat (length xs) <= 1000000)%Z ->
  Forall (fun y => fin y /\ fin (square y) /\ (FR y = 0 \/ bpow radix2 (-511) <= Rabs (FR y))) xs ->
  Forall fin (go_cumul_squares xs) ->
  Rabs (FR (go_sumsq xs) - Rsumsq xs) <= / 1000000000 * Rsumsq xs.
Proof. exact tolerance_sound_sumsq. Qed.
Print Assumptions C08_tolerance_sound_sumsq.

(* percentile sums: pct > 0 reads cumulativeValues[j-1] (the j lowest values) ... *)
Theorem C08_tolerance_sound_sum_pct_lower : forall (xs : list PrimFloat.float) (j : nat),
  (Z.of_nat (length xs) <= 1000000)%Z -> (0 < j <= length xs)%nat ->
  Forall fin xs -> Forall fin (go_cumulative xs) ->
  Rabs (FR (go_sum (firstn j xs)) - Rsum (firstn j xs)) <= / 1000000000 * Rsumabs xs.
Proof. exact tolerance_sound_sum_prefix. Qed.
Print Assumptions C08_tolerance_sound_sum_pct_lower.

(* ... pct < 0 subtracts two accumulated sums (the k highest values): error of both plus one
   rounding, still below 1e-9 * SUM |x| of the whole timer (the scale Corr/C08.v uses) *)
Theorem C08_tolerance_sound_sum_pct_upper : forall (xs : list PrimFloat.float) (k : nat),
  (Z.of_nat (length xs) <= 1000000)%Z -> (0 < k < length xs)%nat ->
  Forall fin xs -> Forall fin (go_cumulative xs) -> fin (go_sum_top xs k) ->
  Rabs (FR (go_sum_top xs k) - Rsum (skipn (length xs - k) xs)) <= / 1000000000 * Rsumabs xs.
Proof. exact tolerance_sound_sum_top. Qed.
Print Assumptions C08_tolerance_sound_sum_pct_upper.
