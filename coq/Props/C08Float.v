(* Soundness of the general-regime tolerance of Corr/C08.v (DESIGN 3.1) for the accumulated
   statistics: statements only (proofs: Proofs/FloatSum*.v, written by the C04 builder); part of property C08 (props_extra in tools/props.d/C08.json).

   Model/FloatSum.v: the Go loops of MetricAggregator.Flush on binary64 (round to nearest even):
   go_sum / go_sumsq = cumulativeValues[n-1] / cumulSumSquaresValues[n-1], go_cumulative the whole
   array, go_sum_top xs k = cumulative[n-1] - cumulative[n-k-1], go_mean = sum / float64(n).
   [FR f] = the real value of the float f (Flocq's B2R (Prim2B f)), [fin f] = f is finite
   (equivalently PrimFloat.is_finite f = true, FloatSumOps.fin_prim), u = 2^-53,
   Rsum / Rsumabs / Rsumsq = SUM x, SUM |x|, SUM x^2 over the real values, tol = 1e-9.
   "Partial sums do not overflow" = every element of the cumulative array is finite. *)
From Coq Require Import List ZArith QArith Qcanon Reals Floats Permutation.
From Flocq Require Import Core.Core.
From GS Require Import Model.FloatSum.
From GS Require Import Proofs.FloatSumOps.
From GS Require Import Proofs.FloatSum.
From GS Require Import Base.GoFloat.
From GS Require Import Model.Stats.
From GS Require Corr.C08Single.
From GS Require Import Proofs.FloatSumQc.
From GS Require Import Proofs.FloatVar.
From GS Require Import Proofs.FloatVarQc.
Import ListNotations.
Local Open Scope R_scope.

(* |fl_sum - SUM x| <= ((1+u)^(n-1) - 1) SUM |x|  for every non-empty list of finite doubles *)
Theorem C08_float_sum_error : forall (x : PrimFloat.float) (r : list PrimFloat.float),
  Forall fin (x :: r) -> Forall fin (go_cumulative (x :: r)) ->
  Rabs (FR (go_sum (x :: r)) - Rsum (x :: r)) <= ((1 + u) ^ length r - 1) * Rsumabs (x :: r).
Proof. exact go_sum_bound. Qed.
Print Assumptions C08_float_sum_error.

(* |fl_sumsq - SUM x^2| <= ((1+u)^n - 1) SUM x^2  (each square rounded once); values whose
   square would underflow (0 < |x| < 2^-511) are excluded: for them the bound is false *)
Theorem C08_float_sumsq_error : forall (x : PrimFloat.float) (r : list PrimFloat.float),
  Forall (fun y => fin y /\ fin (square y) /\ (FR y = 0 \/ bpow radix2 (-511) <= Rabs (FR y))) (x :: r) ->
  Forall fin (go_cumul_squares (x :: r)) ->
  Rabs (FR (go_sumsq (x :: r)) - Rsumsq (x :: r)) <= ((1 + u) ^ length (x :: r) - 1) * Rsumsq (x :: r).
Proof. exact go_sumsq_bound. Qed.
Print Assumptions C08_float_sumsq_error.

(* mean = sum / float64(n): one more rounding (quotient not subnormal) *)
Theorem C08_float_mean_error : forall (xs : list PrimFloat.float) (count : PrimFloat.float),
  fin (go_sum xs) -> fin count -> fin (go_mean xs count) -> FR count <> 0 ->
  FR (go_sum xs) / FR count = 0 \/ bpow radix2 (-1022) <= Rabs (FR (go_sum xs) / FR count) ->
  Rabs (FR (go_mean xs count) - FR (go_sum xs) / FR count) <= u * Rabs (FR (go_sum xs) / FR count).
Proof. exact go_mean_bound. Qed.
Print Assumptions C08_float_mean_error.

(* what Flush reads at cumulativeValues[k] is the go_sum of the first k+1 values *)
Theorem C08_float_cumulative_nth : forall (xs : list PrimFloat.float) (k : nat),
  (k < length xs)%nat -> nth_error (go_cumulative xs) k = Some (go_sum (firstn (S k) xs)).
Proof. exact cumulative_nth. Qed.
Print Assumptions C08_float_cumulative_nth.

(* The tolerance 1e-9 * SUM |x| (Corr/C08.v: cmp/near with scale1) can never flag a sum computed as
   the Go code computes it, up to 10^6 values *)
Theorem C08_tolerance_sound_sum : forall xs : list PrimFloat.float,
  (Z.of_nat (length xs) <= 1000000)%Z -> Forall fin xs -> Forall fin (go_cumulative xs) ->
  Rabs (FR (go_sum xs) - Rsum xs) <= / 1000000000 * Rsumabs xs.
Proof. exact tolerance_sound_sum. Qed.
Print Assumptions C08_tolerance_sound_sum.

(* the same for the sum of squares against 1e-9 * SUM x^2 (scale2) *)
Theorem C08_tolerance_sound_sumsq : forall xs : list PrimFloat.float,
  (Z.of_nat (length xs) <= 1000000)%Z ->
  Forall (fun y => fin y /\ fin (square y) /\ (FR y = 0 \/ bpow radix2 (-511) <= Rabs (FR y))) xs ->
  Forall fin (go_cumul_squares xs) ->
  Rabs (FR (go_sumsq xs) - Rsumsq xs) <= / 1000000000 * Rsumsq xs.
Proof. exact tolerance_sound_sumsq. Qed.
Print Assumptions C08_tolerance_sound_sumsq.

(* percentile sums: pct > 0 reads cumulativeValues[j-1] (the j lowest values) ... *)
Theorem C08_tolerance_sound_sum_pct_lower : forall (xs : list PrimFloat.float) (j : nat),
  (Z.of_nat (length xs) <= 1000000)%Z -> (0 < j <= length xs)%nat ->
  Forall fin xs -> Forall fin (go_cumulative xs) ->
  Rabs (FR (go_sum (firstn j xs)) - Rsum (firstn j xs)) <= / 1000000000 * Rsumabs xs.
Proof. exact tolerance_sound_sum_prefix. Qed.
Print Assumptions C08_tolerance_sound_sum_pct_lower.

(* ... pct < 0 subtracts two accumulated sums (the k highest values): error of both plus one
   rounding, still below 1e-9 * SUM |x| of the whole timer (the scale Corr/C08.v uses) *)
Theorem C08_tolerance_sound_sum_pct_upper : forall (xs : list PrimFloat.float) (k : nat),
  (Z.of_nat (length xs) <= 1000000)%Z -> (0 < k < length xs)%nat ->
  Forall fin xs -> Forall fin (go_cumulative xs) -> fin (go_sum_top xs k) ->
  Rabs (FR (go_sum_top xs k) - Rsum (skipn (length xs - k) xs)) <= / 1000000000 * Rsumabs xs.
Proof. exact tolerance_sound_sum_top. Qed.
Print Assumptions C08_tolerance_sound_sum_pct_upper.

(* ---------------------------------------------------------------------------------------------
   The same, with the conclusion LITERALLY the boolean that Corr/C08Single.check_single evaluates in
   the general regime (exact rationals Qc over Qc_of_bits of the float64 bit patterns).
   bs = the bit patterns of the timer's values in arrival order (Corr: xs_of), bs' = the same values
   in the order the Go loops add them (sorted), o = the bit pattern Go reported.  The exact
   statistics and scales do not depend on the order (qsum_perm). *)

Theorem C08_tolerance_sound_sum_qc : forall (bs bs' : list Z) (o : Z),
  Permutation bs bs' -> (Z.of_nat (length bs) <= 1000000)%Z ->
  Forall fin (map float_of_bits bs') -> Forall fin (go_cumulative (map float_of_bits bs')) ->
  float_of_bits o = go_sum (map float_of_bits bs') -> C08Single.fin o = true ->
  C08Single.near (C08Single.scale1 (map Qc_of_bits bs)) (qsum (map Qc_of_bits bs)) o = true.
Proof. exact (fun bs bs' o Hp Hn => tolerance_sound_sum_qc bs bs' Hp Hn o). Qed.
Print Assumptions C08_tolerance_sound_sum_qc.

Theorem C08_tolerance_sound_sumsq_qc : forall (bs bs' : list Z) (o : Z),
  Permutation bs bs' -> (Z.of_nat (length bs) <= 1000000)%Z ->
  Forall (fun y => fin y /\ fin (square y) /\ sq_normal y) (map float_of_bits bs') ->
  Forall fin (go_cumul_squares (map float_of_bits bs')) ->
  float_of_bits o = go_sumsq (map float_of_bits bs') -> C08Single.fin o = true ->
  C08Single.near (C08Single.scale2 (map Qc_of_bits bs)) (qsumsq (map Qc_of_bits bs)) o = true.
Proof. exact (fun bs bs' o Hp Hn => tolerance_sound_sumsq_qc bs bs' Hp Hn o). Qed.
Print Assumptions C08_tolerance_sound_sumsq_qc.

(* percentile sums: the model value is the exact sum of the j lowest / k highest sorted values *)
Theorem C08_tolerance_sound_sum_pct_lower_qc : forall (bs bs' : list Z) (o : Z) (j : nat),
  Permutation bs bs' -> (Z.of_nat (length bs) <= 1000000)%Z -> (0 < j <= length bs')%nat ->
  Forall fin (map float_of_bits bs') -> Forall fin (go_cumulative (map float_of_bits bs')) ->
  float_of_bits o = go_sum (firstn j (map float_of_bits bs')) -> C08Single.fin o = true ->
  C08Single.near (C08Single.scale1 (map Qc_of_bits bs)) (qsum (map Qc_of_bits (firstn j bs'))) o = true.
Proof. exact (fun bs bs' o j Hp Hn => tolerance_sound_sum_pct_lower_qc bs bs' Hp Hn o j). Qed.
Print Assumptions C08_tolerance_sound_sum_pct_lower_qc.

Theorem C08_tolerance_sound_sum_pct_upper_qc : forall (bs bs' : list Z) (o : Z) (k : nat),
  Permutation bs bs' -> (Z.of_nat (length bs) <= 1000000)%Z -> (0 < k < length bs')%nat ->
  Forall fin (map float_of_bits bs') -> Forall fin (go_cumulative (map float_of_bits bs')) ->
  fin (go_sum_top (map float_of_bits bs') k) ->
  float_of_bits o = go_sum_top (map float_of_bits bs') k -> C08Single.fin o = true ->
  C08Single.near (C08Single.scale1 (map Qc_of_bits bs))
                 (qsum (map Qc_of_bits (skipn (length bs' - k) bs'))) o = true.
Proof. exact (fun bs bs' o k Hp Hn => tolerance_sound_sum_pct_upper_qc bs bs' Hp Hn o k). Qed.
Print Assumptions C08_tolerance_sound_sum_pct_upper_qc.

(* ---------------------------------------------------------------------------------------------
   Deviation.  Go computes it in a SECOND pass with the computed mean:
     sumOfDiffs += (x_i - mean) * (x_i - mean);  StdDev = math.Sqrt(sumOfDiffs / count)
   (Model/FloatSum.go_sum_of_diffs / go_variance / go_stddev).  The accumulated sum is accurate
   RELATIVE to SUM (x_i - c)^2 around the computed mean c ... *)
Theorem C08_float_sum_of_diffs_error : forall (xs : list PrimFloat.float) (mh : PrimFloat.float),
  fin mh -> Forall (dev_good mh) xs -> Forall fin (partials (dev_term mh) 0%float xs) ->
  Rabs (FR (go_sum_of_diffs xs mh) - rdev (FR mh) (map FR xs))
    <= ((1 + u) ^ (length xs + 3) - 1) * rdev (FR mh) (map FR xs).
Proof. exact sum_of_diffs_bound. Qed.
Print Assumptions C08_float_sum_of_diffs_error.

(* ... which is  n * variance + n * (m - c)^2: the error of the mean enters in second order only *)
Theorem C08_float_deviation_shift : forall (c : R) (l : list R), (0 < length l)%nat ->
  rdev c l = rdev (rsum l / INR (length l)) l
             + INR (length l) * ((rsum l / INR (length l) - c) * (rsum l / INR (length l) - c)).
Proof. exact rdev_shift. Qed.
Print Assumptions C08_float_deviation_shift.

(* ... but NO bound relative to the exact variance exists: three equal values have variance 0, the
   computed mean of 0.1, 0.1, 0.1 is not 0.1 and sumOfDiffs is > 0.  The bound is absolute, in units
   of max|x|^2 - the scale the correspondence uses. *)
Theorem C08_float_no_relative_variance_bound :
  PrimFloat.eqb (go_mean [0x1.999999999999ap-4; 0x1.999999999999ap-4; 0x1.999999999999ap-4]%float 3) 0x1.999999999999ap-4 = false
  /\ PrimFloat.ltb 0 (go_sum_of_diffs [0x1.999999999999ap-4; 0x1.999999999999ap-4; 0x1.999999999999ap-4]%float (go_mean [0x1.999999999999ap-4; 0x1.999999999999ap-4; 0x1.999999999999ap-4]%float 3)) = true.
Proof. exact no_relative_variance_bound. Qed.
Print Assumptions C08_float_no_relative_variance_bound.

(* stddev^2 against the exact population variance, up to 10^6 values with |x_i| <= M: accurate
   RELATIVE to the variance, plus the squared error of the mean (at most (2 n u M)^2).  The
   hypotheses say that nothing overflows and that no product or quotient on the way is subnormal *)
Theorem C08_tolerance_sound_variance :
  forall (xs : list PrimFloat.float) (count : PrimFloat.float) (M : R),
    (0 < length xs)%nat -> (Z.of_nat (length xs) <= 1000000)%Z ->
    fin count -> FR count = INR (length xs) ->
    Forall fin xs -> Forall fin (go_cumulative xs) -> fin (go_mean xs count) ->
    (FR (go_sum xs) / FR count = 0 \/ bpow radix2 (-1022) <= Rabs (FR (go_sum xs) / FR count)) ->
    Forall (dev_good (go_mean xs count)) xs ->
    Forall fin (partials (dev_term (go_mean xs count)) 0%float xs) ->
    fin (go_variance xs count) ->
    (FR (go_sum_of_diffs xs (go_mean xs count)) / FR count = 0
     \/ bpow radix2 (-1022) <= Rabs (FR (go_sum_of_diffs xs (go_mean xs count)) / FR count)) ->
    Forall (fun x => Rabs (FR x) <= M) xs ->
    Rabs (FR (go_stddev xs count) * FR (go_stddev xs count) - exact_variance xs)
      <= / 1000000000 * exact_variance xs + 5 * ((INR (length xs) * u) * (INR (length xs) * u)) * (M * M).
Proof. exact tolerance_sound_variance. Qed.
Print Assumptions C08_tolerance_sound_variance.

(* the boolean of check_single and of C08Full.timer_matches: var_close n smax (t_var t) (stddev * stddev),
   i.e. |Var - stddev^2| <= 1e-9 * Var + 5 * (n * 2^-53)^2 * smax^2 in exact rationals.  (A scale of
   smax^2 alone, as used before round 4, accepts the cancelling formula SUM x^2 - mean * SUM x.) *)
Theorem C08_tolerance_sound_variance_qc :
  forall (bs bs' : list Z) (count : PrimFloat.float) (o : Z),
    Permutation bs bs' -> (0 < length bs)%nat -> (Z.of_nat (length bs) <= 1000000)%Z ->
    fin count -> FR count = INR (length bs) ->
    let xs := map float_of_bits bs' in
    Forall fin xs -> Forall fin (go_cumulative xs) -> fin (go_mean xs count) ->
    (FR (go_sum xs) / FR count = 0 \/ bpow radix2 (-1022) <= Rabs (FR (go_sum xs) / FR count)) ->
    Forall (dev_good (go_mean xs count)) xs ->
    Forall fin (partials (dev_term (go_mean xs count)) 0%float xs) ->
    fin (go_variance xs count) ->
    (FR (go_sum_of_diffs xs (go_mean xs count)) / FR count = 0
     \/ bpow radix2 (-1022) <= Rabs (FR (go_sum_of_diffs xs (go_mean xs count)) / FR count)) ->
    float_of_bits o = go_stddev xs count ->
    C08Single.var_close (length bs) (C08Single.scale_max (map Qc_of_bits bs))
                        (qvariance (map Qc_of_bits bs)) (Qc_of_bits o * Qc_of_bits o)%Qc = true.
Proof. exact (fun bs bs' count o Hp => tolerance_sound_variance_qc bs bs' Hp count o). Qed.
Print Assumptions C08_tolerance_sound_variance_qc.
