From GS Require Import Base.Bytes Model.GoPartial Model.Histogram Model.Stats Proofs.Stats.

Theorem C08_placeholder : forall (l : list nat), l = l.
Proof. exact (fun l => eq_refl). Qed.
Print Assumptions C08_placeholder.
