(* C08 - timer statistics and histograms are those of the received multiset.

   Vocabulary (Model/Stats.v, Model/Histogram.v):
     flush_timer O pf rank legacy c t   the timer part of MetricAggregator.Flush, implementation-shaped: sort,
                                the two cumulative arrays, the percentile loop with its loop-carried
                                variables and the index arithmetic of aggregator.go, every index checked
                                (out of range = Panic); [qc_ops] = exact rationals, [legacy = false] = /repo
                                with the D3 repair;
     fresh O xs s tags h        the timer Receive/Merge build: values xs in arrival order, sampled count s;
     timer_spec rank pf c xs s tags h   the SPECIFICATION against the multiset xs: fold_right qmin / qmax,
                                qsum, qsumsq, qmean = sum/n, qmedian (middle of the sorted list),
                                qvariance = sum (x-mean)^2 / n, count = floor(s + 1/2), s / interval, and per
                                percentile p [pct_spec]: count, mean, sum, sum of squares of [selected p xs]
                                (the first k of the sorted list if p > 0, else the last k; k = 1 when n = 1,
                                else k = rank p n; nothing when k = 0) and its greatest (p > 0) or least value;
     rank p n                   int(round(|p|/100*n)) - ABSTRACT here: every theorem holds for every rank
                                function that stays within 0..n (Go computes it in float64: [go_rank], checked
                                to stay in range for n <= 1000 below; exact arithmetic: [exact_rank]);
     pf                         strconv.ParseFloat on a bucket item (oracle: any function);
     hist_spec / spec_bounds / count_le    buckets: the first [limit] items of the tag that parse; number of
                                values not greater than a bound.
   StdDev is stated as its square (math.Sqrt is not modelled). Float rounding is not modelled (Qc). *)
From Coq Require Import List ZArith QArith Qcanon Permutation.
From GS Require Import Base.Bytes Base.GoFloat Model.GoPartial Model.Histogram Model.Stats Proofs.Stats.
Import ListNotations.
Local Open Scope Z_scope.

(* The implementation-shaped flush computes exactly the specification and does not panic: for
   every list of values (n >= 0), percentile list, mask, interval, bucket limit, tags. *)
Theorem C08_refines_spec :
  forall (rank : Z -> Z -> Z) (pf : str -> option bound) (c : config Qc)
         (xs : list Qc) (sampled : Qc) (tags : list str) (h : hist),
    (forall p, In p (c_pcts c) -> 0 <= rank p (len xs) <= len xs) ->
    0 <= c_limit c ->
    (forall tag, In tag tags -> len tag < 2^32) ->
    flush_timer qc_ops pf rank false c (fresh qc_ops xs sampled tags h)
    = Ok (timer_spec rank pf c xs sampled tags h).
Proof. exact flush_timer_refines_spec. Qed.
Print Assumptions C08_refines_spec.

(* ... in particular for the rank in exact arithmetic, floor(|p|*n/100 + 1/2), with no hypothesis
   on the rank: integer percentiles with |p| <= 100 *)
Theorem C08_refines_spec_exact_rank :
  forall (pf : str -> option bound) (c : config Qc) (xs : list Qc) (sampled : Qc) (tags : list str) (h : hist),
    (forall p, In p (c_pcts c) -> -100 <= p <= 100) ->
    0 <= c_limit c ->
    (forall tag, In tag tags -> len tag < 2^32) ->
    flush_timer qc_ops pf exact_rank false c (fresh qc_ops xs sampled tags h)
    = Ok (timer_spec exact_rank pf c xs sampled tags h).
Proof. exact refines_spec_exact_rank. Qed.
Print Assumptions C08_refines_spec_exact_rank.

(* ... and for Go's float64 rank for every timer of at most 1000 values (the range of the rank is
   checked by a finite sweep on the kernel's binary64 floats; C04 owns the unbounded statement) *)
Theorem C08_refines_spec_go_rank_upto_1000 :
  forall (pf : str -> option bound) (c : config Qc) (xs : list Qc) (sampled : Qc) (tags : list str) (h : hist),
    (forall p, In p (c_pcts c) -> -100 <= p <= 100) ->
    len xs <= 1000 ->
    0 <= c_limit c ->
    (forall tag, In tag tags -> len tag < 2^32) ->
    flush_timer qc_ops pf go_rank false c (fresh qc_ops xs sampled tags h)
    = Ok (timer_spec go_rank pf c xs sampled tags h).
Proof. exact refines_spec_go_rank_1000. Qed.
Print Assumptions C08_refines_spec_go_rank_upto_1000.

(* Min and Max of the specification are least and greatest members of the multiset. *)
Theorem C08_min_max :
  forall (rank : Z -> Z -> Z) (pf : str -> option bound) (c : config Qc)
         (x : Qc) (r : list Qc) (sampled : Qc) (tags : list str) (h : hist),
    has_histogram_tag tags = false ->
    let xs := x :: r in
    let t := timer_spec rank pf c xs sampled tags h in
    (In (t_min t) xs /\ forall z, In z xs -> (t_min t <= z)%Qc) /\
    (In (t_max t) xs /\ forall z, In z xs -> (z <= t_max t)%Qc).
Proof. exact spec_min_max. Qed.
Print Assumptions C08_min_max.

(* The report depends on the multiset of values only.  A histogram timer keeps its values in
   arrival order, so reports are compared with their values sorted ([sorted_values]); for a
   plain timer the reports are equal as they are. *)
Theorem C08_order_independent :
  forall (rank : Z -> Z -> Z) (pf : str -> option bound) (c : config Qc)
         (xs ys : list Qc) (sampled : Qc) (tags : list str) (h : hist),
    Permutation xs ys ->
    sorted_values (timer_spec rank pf c xs sampled tags h)
    = sorted_values (timer_spec rank pf c ys sampled tags h)
    /\ (has_histogram_tag tags = false ->
        timer_spec rank pf c xs sampled tags h = timer_spec rank pf c ys sampled tags h).
Proof. exact timer_spec_perm. Qed.
Print Assumptions C08_order_independent.

(* ... hence so does the implementation-shaped flush *)
Theorem C08_flush_order_independent :
  forall (rank : Z -> Z -> Z) (pf : str -> option bound) (c : config Qc)
         (xs ys : list Qc) (sampled : Qc) (tags : list str) (h : hist),
    (forall p, In p (c_pcts c) -> 0 <= rank p (len xs) <= len xs) ->
    0 <= c_limit c ->
    (forall tag, In tag tags -> len tag < 2^32) ->
    Permutation xs ys -> has_histogram_tag tags = false ->
    flush_timer qc_ops pf rank false c (fresh qc_ops xs sampled tags h)
    = flush_timer qc_ops pf rank false c (fresh qc_ops ys sampled tags h).
Proof. exact flush_order_independent. Qed.
Print Assumptions C08_flush_order_independent.

(* "The k lowest (p > 0) or k highest values" is meant literally: the values a percentile
   aggregates are k of the received values, and each of them is <= (>=) every other value. *)
Theorem C08_k_lowest :
  forall (rank : Z -> Z -> Z) (p : Z) (xs : list Qc),
    let n := length xs in
    let k := if (n =? 1)%nat then 1%nat else Z.to_nat (rank p (Z.of_nat n)) in
    (k <= n)%nat ->
    exists rest,
      Permutation xs (selected rank p xs ++ rest) /\ length (selected rank p xs) = k /\
      forall a b, In a (selected rank p xs) -> In b rest -> if 0 <? p then (a <= b)%Qc else (b <= a)%Qc.
Proof. exact selected_k_lowest. Qed.
Print Assumptions C08_k_lowest.

(* The deviation is the POPULATION deviation of the values around their mean: variance * n is the
   sum of squared differences from the mean (not n - 1), mean * n is the sum, and equivalently
   variance = sum of squares / n - mean^2. *)
Theorem C08_stddev_is_population :
  forall (rank : Z -> Z -> Z) (pf : str -> option bound) (c : config Qc)
         (xs : list Qc) (sampled : Qc) (tags : list str) (h : hist),
    (forall p, In p (c_pcts c) -> 0 <= rank p (len xs) <= len xs) ->
    0 <= c_limit c ->
    (forall tag, In tag tags -> len tag < 2^32) ->
    xs <> [] -> has_histogram_tag tags = false ->
    exists t, flush_timer qc_ops pf rank false c (fresh qc_ops xs sampled tags h) = Ok t /\
      let n := qnat (length xs) in
      (t_mean t * n = qsum xs /\
       t_var t * n = qsum (map (fun x => (x - t_mean t) * (x - t_mean t)) xs) /\
       t_var t = t_sumsq t / n - t_mean t * t_mean t)%Qc.
Proof. exact stddev_is_population. Qed.
Print Assumptions C08_stddev_is_population.

(* A timer tagged gsd_histogram:... reports buckets and none of the summary statistics: nothing
   at all for limit 0; otherwise +Inf with the number of all values and the first [limit] bounds
   of the tag that parse, every bucket holding the number of values not greater than its bound,
   and no other bucket.  (NaN bounds make entries that no lookup finds; they hold 0.) *)
Theorem C08_histogram_spec :
  forall (rank : Z -> Z -> Z) (pf : str -> option bound) (c : config Qc)
         (xs : list Qc) (sampled : Qc) (tags : list str) (h : hist),
    0 <= c_limit c ->
    (forall tag, In tag tags -> len tag < 2^32) ->
    has_histogram_tag tags = true ->
    exists t, flush_timer qc_ops pf rank false c (fresh qc_ops xs sampled tags h) = Ok t /\
      (t_count t = 0 /\ t_persec t = 0%Qc /\ t_mean t = 0%Qc /\ t_median t = 0%Qc /\ t_min t = 0%Qc /\
       t_max t = 0%Qc /\ t_var t = 0%Qc /\ t_sum t = 0%Qc /\ t_sumsq t = 0%Qc /\ t_pcts t = [] /\
       t_values t = xs /\ t_sampled t = sampled) /\
      (c_limit c = 0 -> t_hist t = HMap []) /\
      (0 < c_limit c ->
       let bounds := spec_bounds pf tags (c_limit c) in
       exists l, t_hist t = HMap l /\
         (length l <= Z.to_nat (c_limit c) + 1)%nat /\
         (forall b n, In (b, n) l -> n = count_le qc_le_bound b xs /\ (b = BPInf \/ In b bounds)) /\
         hget BPInf l = Some (len xs) /\
         (forall b, In b bounds -> b <> BNaN -> hget b l = Some (count_le qc_le_bound b xs))).
Proof. exact histogram_spec. Qed.
Print Assumptions C08_histogram_spec.

(* Receiving datapoints (value, rate) in any order and flushing: the values are the received
   ones, the sampled count is the sum of 1/rate whatever the order, Count = floor(S + 1/2),
   PerSecond = S / interval; for unsampled datapoints Count is their number. *)
Theorem C08_sampled_count :
  forall (rank : Z -> Z -> Z) (pf : str -> option bound) (c : config Qc)
         (pts : list (Qc * Qc)) (tags : list str) (h : hist),
    let xs := fst (receive_all pts) in
    let s := snd (receive_all pts) in
    (forall p, In p (c_pcts c) -> 0 <= rank p (len xs) <= len xs) ->
    0 <= c_limit c ->
    (forall tag, In tag tags -> len tag < 2^32) ->
    pts <> [] -> has_histogram_tag tags = false ->
    xs = map fst pts /\
    s = qsum (map (fun vr => / snd vr)%Qc pts) /\
    (forall pts', Permutation pts pts' -> snd (receive_all pts') = s) /\
    exists t, flush_timer qc_ops pf rank false c (fresh qc_ops xs s tags h) = Ok t /\
      t_sampled t = s /\
      t_count t = Qcfloor (s + qhalf) /\
      t_persec t = (s / c_interval c)%Qc /\
      ((forall vr, In vr pts -> snd vr = 1%Qc) -> t_count t = len pts).
Proof. exact sampled_count_spec. Qed.
Print Assumptions C08_sampled_count.
