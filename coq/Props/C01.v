(* C01 — every datapoint lands in exactly one flush: no loss, no duplication.

   Model: Model/Pipeline.v, the labelled transition system of the standalone pipeline
   (labels Parse ds | Enq j | Merge i | Tick f | FlushShard i now; see the header there).  A
   theorem over all label sequences from [init c] covers every interleaving of datagram
   parsing, dispatch to shards, merging and flush ticks, for every parser count, shard count
   [cfg_shards c] >= 1, queue size and expiry configuration.

   Vocabulary (Model/Content.v, Model/Pipeline.v):
     content       = (ctr : Z, vals : multiset of timer values, samp : Qc, mem : set of members),
                     added componentwise by ⊕
     dp_cnt d k    = what the parsed sample d contributes to series k: for a counter
                     int64(value/rate) in ctr, for a timer the value in vals and 1/rate in samp,
                     for a set the member in mem; the unit if d is not of series k
     cnt m k       = what the map m holds for series k (the unit if absent)
     total f l k   = the ⊕-sum of f x k over the elements x of the list l
     holds m ty k  = the map m has an entry of metric type ty for (name, tags key) k
     st_out s      = every (flush id, shard, MetricMap) handed to the backends so far. *)
From stdpp Require Import gmap gmultiset.
From Coq Require Import QArith Qcanon.
From GS Require Import Base.Bytes Base.LTS Model.Lexer Model.Series Model.MetricMap Model.Content Model.Pipeline
  Model.PipelineBounded.
From GS Require Import Proofs.Pipeline Proofs.PipelineExplicit Proofs.PipelineReported Proofs.PipelineBounded.
Local Open Scope nat_scope.

(* At every moment, whatever was parsed is exactly what has been flushed plus what the
   aggregators, the shard queues and the parsers still hold. *)
Theorem C01_conservation :
  ∀ (c : config) (ls : list label) (s : state),
    cfg_shards c ≠ 0 →
    run (step c) (init c) ls = Some s →
    ∀ k : skey,
      total dp_cnt (st_input s) k
      = total cnt ((λ x, x.2) <$> st_out s) k
        ⊕ total cnt (st_aggr s) k
        ⊕ total cnt (concat (st_queue s)) k
        ⊕ total cnt ((λ x, x.2) <$> st_inflight s) k.
Proof. exact conservation. Qed.
Print Assumptions C01_conservation.

(* The property: once nothing is in flight or queued and a complete flush f follows (flush f
   starts after that moment, nothing else is parsed, and every shard has executed it), the
   flushes taken together contain exactly the input. *)
Theorem C01_exact_at_quiescence :
  ∀ (c : config) (ls : list label) (s : state) (ls' : list label) (s' : state) (f : nat),
    cfg_shards c ≠ 0 →
    run (step c) (init c) ls = Some s →
    st_inflight s = [] ∧ (∀ q, q ∈ st_queue s → q = []) →
    run (step c) s ls' = Some s' →
    (∃ pre post, ls' = pre ++ Tick f :: post ∧ Forall is_flush_label pre ∧ Forall is_shard_label post) →
    st_flushing s' = Some (f, []) →
    ∀ k : skey, total dp_cnt (st_input s) k = total cnt ((λ x, x.2) <$> st_out s') k.
Proof. exact exact_at_quiescence. Qed.
Print Assumptions C01_exact_at_quiescence.

(* The same, component by component, in the words of the property: summed over all flushes a
   counter's reported count equals the sum of int64(value/rate) over its samples, a timer's
   reported values are exactly the multiset received, its sampled counts sum to the sum of
   1/rate, and a set's members are exactly those received.
     samples_of ty k ds  = the datapoints of ds of metric type ty and series key k
     counter_at m k / timer_values_at m k / sampled_at m k / members_at m k
                         = what the map m reports for k: counter value (0 if absent), multiset
                           of timer values, sampled count, set members (empty if absent)
     counter_increment d = int64(value/rate), sample_weight d = 1/rate (Model/MetricMap.v). *)
Theorem C01_exact_at_quiescence_explicit :
  ∀ (c : config) (ls : list label) (s : state) (ls' : list label) (s' : state) (f : nat),
    cfg_shards c ≠ 0 →
    run (step c) (init c) ls = Some s →
    st_inflight s = [] ∧ (∀ q, q ∈ st_queue s → q = []) →
    run (step c) s ls' = Some s' →
    (∃ pre post, ls' = pre ++ Tick f :: post ∧ Forall is_flush_label pre ∧ Forall is_shard_label post) →
    st_flushing s' = Some (f, []) →
    ∀ k : skey,
      let flushed := (λ x : nat * nat * mmap, x.2) <$> st_out s' in
      zsum ((λ m, counter_at m k) <$> flushed)
        = zsum (counter_increment <$> samples_of Counter k (st_input s))
      ∧ msum ((λ m, timer_values_at m k) <$> flushed)
        = list_to_set_disj (dp_value <$> samples_of Timer k (st_input s))
      ∧ qsum ((λ m, sampled_at m k) <$> flushed)
        = qsum (sample_weight <$> samples_of Timer k (st_input s))
      ∧ ⋃ ((λ m, members_at m k) <$> flushed)
        = list_to_set (dp_strval <$> samples_of MSet k (st_input s)).
Proof. exact exact_at_quiescence_explicit. Qed.
Print Assumptions C01_exact_at_quiescence_explicit.

(* No series is lost, gauges included: under the hypotheses of C01_exact_at_quiescence every
   parsed datapoint's series has been reported by at least one flush. *)
Theorem C01_all_reported :
  ∀ (c : config) (ls : list label) (s : state) (ls' : list label) (s' : state) (f : nat),
    cfg_shards c ≠ 0 →
    run (step c) (init c) ls = Some s →
    st_inflight s = [] ∧ (∀ q, q ∈ st_queue s → q = []) →
    run (step c) s ls' = Some s' →
    (∃ pre post, ls' = pre ++ Tick f :: post ∧ Forall is_flush_label pre ∧ Forall is_shard_label post) →
    st_flushing s' = Some (f, []) →
    ∀ d, d ∈ st_input s → ∃ f' i m, (f', i, m) ∈ st_out s' ∧ holds m (dp_type d) (dp_key d).
Proof. exact all_reported. Qed.
Print Assumptions C01_all_reported.

(* Every series held anywhere for shard i — by a parser for that shard, in its queue, in its
   aggregator, in a map it flushed — has bucket i. *)
Theorem C01_routing_invariant :
  ∀ (c : config) (ls : list label) (s : state),
    run (step c) (init c) ls = Some s →
    (∀ i m ty k, (i, m) ∈ st_inflight s → holds m ty k → shard_of_key c k = i)
    ∧ (∀ i q m ty k, st_queue s !! i = Some q → m ∈ q → holds m ty k → shard_of_key c k = i)
    ∧ (∀ i a ty k, st_aggr s !! i = Some a → holds a ty k → shard_of_key c k = i)
    ∧ (∀ f i m ty k, (f, i, m) ∈ st_out s → holds m ty k → shard_of_key c k = i).
Proof. exact routing_invariant. Qed.
Print Assumptions C01_routing_invariant.

(* No series is reported twice within one flush: two different entries of the out log with the
   same flush id never hold the same (name, tags key), whatever the metric types. *)
Theorem C01_once_per_flush :
  ∀ (c : config) (ls : list label) (s : state) (j1 j2 f i1 i2 : nat) (m1 m2 : mmap) (ty1 ty2 : mtype) (k : skey),
    run (step c) (init c) ls = Some s →
    st_out s !! j1 = Some (f, i1, m1) →
    st_out s !! j2 = Some (f, i2, m2) →
    j1 ≠ j2 →
    holds m1 ty1 k → ¬ holds m2 ty2 k.
Proof. exact once_per_flush. Qed.
Print Assumptions C01_once_per_flush.

(* Nothing is reported for a series that was never sent. *)
Theorem C01_no_phantom :
  ∀ (c : config) (ls : list label) (s : state) (f i : nat) (m : mmap) (ty : mtype) (k : skey),
    run (step c) (init c) ls = Some s →
    (f, i, m) ∈ st_out s →
    holds m ty k →
    ∃ d, d ∈ st_input s ∧ dp_type d = ty ∧ dp_key d = k.
Proof. exact no_phantom. Qed.
Print Assumptions C01_no_phantom.

(* ---------------------------------------------------------------------------------------- *)
(* Every configuration.  Model/PipelineBounded.v is the pipeline with its configuration explicit:
   bc_parsers parser goroutines that each hold at most one batch and send its splits in worker
   order with blocking sends, queues of capacity bc_qcap (0 = rendezvous: send and merge are one
   step, BRdv), the flusher handing the command to worker 0, 1, ... in turn (BCmd, each waits for
   that worker's select) with fan-out execution (BExec), workers that are busy while executing.
   The theorems above are about Model/Pipeline.v, which drops all of these restrictions; that
   this loses no behaviour is the refinement below (no hypothesis on the configuration).
     label_image l ls : BParse -> [Parse], BEnq -> [Enq j], BRdv -> [Enq j; Merge i],
                        BMerge -> [Merge], BTick -> [Tick], BCmd -> [], BExec -> [FlushShard]
     related bc b s   : same input, queues, aggregates, flush counter and out log; the splits the
                        parsers hold are those in flight (up to order); the shards still to run
                        are those not yet handed the command or still executing it. *)
Theorem C01_bounded_refines :
  ∀ (bc : bconfig) (bls : list blabel) (b : bstate),
    run (bstep bc) (binit bc) bls = Some b →
    ∃ (segs : list (list label)) (s : state),
      Forall2 label_image bls segs
      ∧ run (step (bc_cfg bc)) (init (bc_cfg bc)) (concat segs) = Some s
      ∧ related bc b s.
Proof. exact bounded_refines. Qed.
Print Assumptions C01_bounded_refines.

(* hence, for every number of parsers, every queue capacity and every shard count >= 1: *)
Theorem C01_bounded_conservation :
  ∀ (bc : bconfig) (bls : list blabel) (b : bstate),
    cfg_shards (bc_cfg bc) ≠ 0 →
    run (bstep bc) (binit bc) bls = Some b →
    ∀ k : skey,
      total dp_cnt (bs_input b) k
      = total cnt ((λ x, x.2) <$> bs_out b) k
        ⊕ total cnt (bs_aggr b) k
        ⊕ total cnt (concat (bs_queue b)) k
        ⊕ total cnt ((λ x, x.2) <$> concat (bs_pending b)) k.
Proof. exact bounded_conservation. Qed.
Print Assumptions C01_bounded_conservation.

Theorem C01_bounded_exact_at_quiescence :
  ∀ (bc : bconfig) (bls : list blabel) (b : bstate) (bls' : list blabel) (b' : bstate) (f : nat),
    cfg_shards (bc_cfg bc) ≠ 0 →
    run (bstep bc) (binit bc) bls = Some b →
    (∀ l, l ∈ bs_pending b → l = []) ∧ (∀ q, q ∈ bs_queue b → q = []) →
    run (bstep bc) b bls' = Some b' →
    (∃ pre post, bls' = pre ++ BTick f :: post ∧ Forall is_bflush_label pre ∧ Forall is_bshard_label post) →
    (∃ nx, bs_flush b' = Some (f, nx) ∧ cfg_shards (bc_cfg bc) ≤ nx ∧ ∀ x, x ∈ bs_busy b' → x = false) →
    ∀ k : skey, total dp_cnt (bs_input b) k = total cnt ((λ x, x.2) <$> bs_out b') k.
Proof. exact bounded_exact_at_quiescence. Qed.
Print Assumptions C01_bounded_exact_at_quiescence.

(* The blocking sends and the hand-over of the flush command cannot wedge each other: in every
   reachable state of every configuration either nothing at all is going on (no split held, no
   map queued, no worker executing, no flush under way) or the pipeline can take a step by
   itself (a send, a rendezvous, a merge, a command hand-over or a command execution). *)
Theorem C01_bounded_no_deadlock :
  ∀ (bc : bconfig) (bls : list blabel) (b : bstate),
    run (bstep bc) (binit bc) bls = Some b →
    bidle bc b ∨ ∃ l b', is_internal l ∧ bstep bc b l = Some b'.
Proof. exact bounded_no_deadlock. Qed.
Print Assumptions C01_bounded_no_deadlock.
