(* C08, second statement file: the WHOLE MetricAggregator (Model/Aggregator.v: the four maps with
   every field, ReceiveMap, Flush, Reset) and how the four partial models of
   pkg/statsd/aggregator.go are tied to it.

   Vocabulary (Model/Aggregator.v): [agg] = the aggregate (a_counters, a_timers, a_gauges, a_sets);
   [receive_map a m], [flush pf rank cfg dt a], [reset pf cfg now a] = the three operations ([Panic]
   = a Go index / slice expression out of range); [arun pf rank cfg ops] = a history [ARecv m |
   AFlush dt | AReset now] from the empty aggregator; [received_since_reset ops k] = the values and
   the sampled count ReceiveMap handed to timer series k since the last Reset of the history;
   [flushed_since_reset ops] = some Flush has not been followed by a Reset; [ops_values ops] = the
   number of timer values the history carries; [sane_ops ops] = incoming timers without values
   have sampled count 0 and tags shorter than 2^32 bytes; [to_mmap a] = the aggregate as a plain
   MetricMap.  [timer_spec] / [with_pcts] : Model/Stats.v (see Props/C08.v). *)
From stdpp Require Import gmap.
From Coq Require Import QArith Qcanon.
From GS Require Import Base.Bytes Base.GoFloat Model.Lexer Model.Series Model.MetricMap.
From GS Require Model.Pipeline Model.Expiry Model.FlushPartial.
From GS Require Import Model.GoPartial Model.Histogram Model.Stats Model.Aggregator.
From GS Require Import Proofs.AggregatorRefine Proofs.AggregatorProj Proofs.AggregatorPartial Proofs.AggregatorHistory.
Local Open Scope Z_scope.

(* For any history of ReceiveMap | Flush | Reset from the empty aggregator (any interleaving, any
   expiry intervals and clocks): the history does not panic, a Flush of the state it reaches does
   not panic, and every timer that Flush reports carries, in every field, the statistics
   [timer_spec] of exactly the values received for that series since the last Reset, with their
   sampled count; its percentiles are those of the specification, behind the blocks that earlier
   Flushes since that Reset appended (none in the flusher's Flush; Process; Reset discipline). *)
Theorem C08_full_flush_spec :
  forall (pf : str -> option bound) (rank : Z -> Z -> Z) (cfg : aconfig) (bound : Z) (ops : list aop) (dt : Z),
    (forall p n, -100 <= p <= 100 -> 0 <= n < bound -> 0 <= rank p n <= n) ->
    (Forall (fun p => -100 <= p <= 100) (ak_pcts cfg) /\ 0 <= ak_limit cfg) ->
    ops_values ops < bound -> sane_ops ops ->
    exists a a', arun pf rank cfg ops = Ok a /\ flush pf rank cfg dt a = Ok a' /\
      forall k t', a_timers a' !! k = Some t' ->
        let vs := (received_since_reset ops k).1 in
        let s := (received_since_reset ops k).2 in
        let spec := timer_spec rank pf (stats_config cfg dt) vs s (Stats.t_tags (at_t t')) HNil in
        with_pcts (at_t t') [] = with_pcts spec [] /\
        exists earlier, t_pcts (at_t t') = earlier ++ t_pcts spec /\
                        (flushed_since_reset ops = false -> earlier = []).
Proof. exact full_flush_spec. Qed.
Print Assumptions C08_full_flush_spec.

(* ... with Go's float64 rank and no hypothesis about it (C04's range lemma, n < 2^52) *)
Theorem C08_full_flush_spec_go_rank :
  forall (pf : str -> option bound) (cfg : aconfig) (ops : list aop) (dt : Z),
    (Forall (fun p => -100 <= p <= 100) (ak_pcts cfg) /\ 0 <= ak_limit cfg) ->
    ops_values ops < 2^52 -> sane_ops ops ->
    exists a a', arun pf go_rank cfg ops = Ok a /\ flush pf go_rank cfg dt a = Ok a' /\
      forall k t', a_timers a' !! k = Some t' ->
        let vs := (received_since_reset ops k).1 in
        let s := (received_since_reset ops k).2 in
        let spec := timer_spec go_rank pf (stats_config cfg dt) vs s (Stats.t_tags (at_t t')) HNil in
        with_pcts (at_t t') [] = with_pcts spec [] /\
        exists earlier, t_pcts (at_t t') = earlier ++ t_pcts spec /\
                        (flushed_since_reset ops = false -> earlier = []).
Proof. exact full_flush_spec_go_rank. Qed.
Print Assumptions C08_full_flush_spec_go_rank.

(* The timer part of Flush IS Stats.flush_timer (C08's model): the flushed aggregate holds a timer
   at k iff the aggregate did, and it is the outcome of [Stats.flush_timer] on it. *)
Theorem C08_full_timer_part :
  forall pf rank cfg dt a a' k t',
    flush pf rank cfg dt a = Ok a' ->
    (a_timers a' !! k = Some t' <->
     exists t, a_timers a !! k = Some t /\
       Stats.flush_timer qc_ops pf rank false (stats_config cfg dt) (at_t t) = Ok (at_t t') /\
       at_bits t' = at_bits t /\ at_ts t' = at_ts t /\ at_src t' = at_src t).
Proof. exact flush_timer_part. Qed.
Print Assumptions C08_full_timer_part.

(* C01 (Model/Pipeline.v): projected to a plain MetricMap the three operations are
   MetricMap.merge, Pipeline.agg_flush and Pipeline.agg_reset, for ALL states (the ghost
   consistency [wf] holds in every state a history reaches: [C08_full_wf]). *)
Theorem C08_full_refines_pipeline :
  forall pf rank cfg shards,
    (forall a m, to_mmap (receive_map a m) = MetricMap.merge (to_mmap a) m) /\
    (forall dt a a', flush pf rank cfg dt a = Ok a' -> wf a -> to_mmap a' = Pipeline.agg_flush (to_mmap a)) /\
    (forall now a a', reset pf cfg now a = Ok a' ->
       to_mmap a' = Pipeline.agg_reset (pipeline_cfg shards cfg) now (to_mmap a)).
Proof.
  intros pf rank cfg shards.
  exact (conj to_mmap_receive (conj (to_mmap_flush pf rank cfg) (to_mmap_reset_pipeline pf cfg shards))).
Qed.
Print Assumptions C08_full_refines_pipeline.

Theorem C08_full_wf :
  forall pf rank cfg ops a, arun pf rank cfg ops = Ok a -> wf a.
Proof. intros pf rank cfg ops a. exact (wf_run pf rank cfg ops agg_empty a wf_empty). Qed.
Print Assumptions C08_full_wf.

(* C09 (Model/Expiry.v): Reset is Expiry.agg_reset; what a Flush hands to the backends is
   Expiry.flush_report - counters (value, per-second, timestamp), gauges, sets, and for every timer
   the fields C09 fixes: values, Count, SampledCount, PerSecond, the +Inf bucket, timestamp.
   [rt_has_pct] is the one field where Expiry.v is coarser than the code (it says true for every
   timer with values; the code writes percentiles only for configured, enabled thresholds of
   non-zero rank): what holds is that a report without percentiles (no values, histogram) is a
   flush that wrote none. *)
Theorem C08_full_refines_expiry :
  forall pf rank cfg (lim : N), ak_limit cfg = Z.of_N lim ->
    (forall now a a', reset pf cfg now a = Ok a' ->
       to_mmap a' = Expiry.agg_reset (expiry_cfg cfg) now (to_mmap a)) /\
    (forall dt a a', flush pf rank cfg (Zpos dt) a = Ok a' ->
       report_counter <$> a_counters a' = Expiry.r_counters (Expiry.flush_report lim dt (to_mmap a)) /\
       Expiry.flush_gauge <$> a_gauges a' = Expiry.r_gauges (Expiry.flush_report lim dt (to_mmap a)) /\
       Expiry.flush_set <$> a_sets a' = Expiry.r_sets (Expiry.flush_report lim dt (to_mmap a))) /\
    (forall dt a a' k, flush pf rank cfg (Zpos dt) a = Ok a' -> wf a ->
       match a_timers a !! k with
       | None => Expiry.r_timers (Expiry.flush_report lim dt (to_mmap a)) !! k = None /\ a_timers a' !! k = None
       | Some t =>
           exists t' rt, a_timers a' !! k = Some t' /\
             Expiry.r_timers (Expiry.flush_report lim dt (to_mmap a)) !! k = Some rt /\
             rt = report_timer (Expiry.rt_has_pct rt) t' /\
             (Expiry.rt_has_pct rt = false -> t_pcts (at_t t') = t_pcts (at_t t))
       end).
Proof.
  intros pf rank cfg lim Hlim.
  exact (conj (to_mmap_reset_expiry pf cfg)
          (conj (fun dt a a' H => conj (report_counters pf rank cfg lim dt a a' H) (report_gauges_sets pf rank cfg lim dt a a' H))
                (fun dt a a' k => report_timers pf rank cfg lim Hlim dt a a' k))).
Qed.
Print Assumptions C08_full_refines_expiry.

(* C04 (Model/FlushPartial.v): Flush and Reset of the whole aggregator panic exactly when
   FlushPartial's do on the timers of the aggregate; and (C04's theorem transferred) no history
   panics at all for a configuration the server accepts. *)
Theorem C08_full_panics_iff_partial :
  forall pf rank cfg dt now a,
    (flush pf rank cfg dt a = Panic <->
     FlushPartial.flush qc_ops pf rank false (stats_config cfg dt) (to_partial a) = Panic) /\
    (reset pf cfg now a = Panic <->
     FlushPartial.reset qc_ops pf (stats_config cfg dt) (gone cfg now a) (to_partial a) = Panic).
Proof.
  intros pf rank cfg dt now a.
  exact (conj (flush_panics_iff_partial pf rank cfg dt a) (reset_panics_iff_partial pf cfg dt now a)).
Qed.
Print Assumptions C08_full_panics_iff_partial.

Theorem C08_full_never_panics :
  forall pf rank cfg bound ops dt,
    (forall p n, -100 <= p <= 100 -> 0 <= n < bound -> 0 <= rank p n <= n) ->
    (Forall (fun p => -100 <= p <= 100) (ak_pcts cfg) /\ 0 <= ak_limit cfg) ->
    ops_values ops < bound ->
    exists a, arun pf rank cfg ops = Ok a /\ exists a', flush pf rank cfg dt a = Ok a'.
Proof. exact aggregator_never_panics. Qed.
Print Assumptions C08_full_never_panics.
