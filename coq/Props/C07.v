(* C07 — merging batches is independent of order and grouping.

   Vocabulary (Model/MetricMap.v, Model/Content.v):
     merge a b, receive m d, merge_maps ms     the model of MetricMap.Merge / Receive / MergeMaps
     singleton d = receive empty_map d         the batch holding one datapoint
     mtree := Leaf m | Node l r | Recv t d     any bracketing / order of pairwise merges, and
                                               Receive of a datapoint into an intermediate result
     eval t                                    the map the tree computes
     leaves t                                  its batches, left to right (Recv t d adds [singleton d])
     series_at fld ms k                        the entries the maps ms hold for series k in field fld
     merged_as ok hs r                         r exists iff hs is non-empty, and then [ok hs r]
     abs m : gmap skey content                 per series: counter total, multiset of timer values,
                                               sampled-count sum (Qc), set members;  ⊕ₘ adds them
   "Same batches in another order / grouping" is [leaves t1 ≡ₚ leaves t2] (Permutation). *)
From stdpp Require Import gmap gmultiset.
From Coq Require Import QArith Qcanon.
From GS Require Import Base.Bytes Base.LTS Model.Lexer Model.Series Model.MetricMap Model.Content
  Proofs.MetricMapMerge Proofs.MetricMapMergeTree.

(* ---- the reusable homomorphism (C01, C10, C11, C15) ---- *)
Theorem C07_abs_merge : ∀ a b, abs (merge a b) = abs a ⊕ₘ abs b.
Proof. exact abs_merge. Qed.
Print Assumptions C07_abs_merge.

Theorem C07_abs_receive : ∀ m d, abs (receive m d) = abs m ⊕ₘ abs_dp d.
Proof. exact abs_receive. Qed.
Print Assumptions C07_abs_receive.

Theorem C07_content : ∀ t1 t2, leaves t1 ≡ₚ leaves t2 → abs (eval t1) = abs (eval t2).
Proof. exact abs_eval_perm. Qed.
Print Assumptions C07_content.

(* ---- counters add ---- *)
Theorem C07_counters : ∀ t1 t2 k, leaves t1 ≡ₚ leaves t2 →
  c_val <$> counters (eval t1) !! k = c_val <$> counters (eval t2) !! k.
Proof. exact tree_counter_value_perm. Qed.
Print Assumptions C07_counters.

Theorem C07_counters_add : ∀ t k,
  merged_as (λ hs c, c_val c = zsum (c_val <$> hs))
    (series_at counters (leaves t) k) (counters (eval t) !! k).
Proof. exact tree_counter_value. Qed.
Print Assumptions C07_counters_add.

(* ---- timers: multiset union of the values, sampled counts added ---- *)
Theorem C07_timers : ∀ t1 t2 k, leaves t1 ≡ₚ leaves t2 →
  match timers (eval t1) !! k, timers (eval t2) !! k with
  | Some a, Some b => t_vals a ≡ₚ t_vals b ∧ t_samp a = t_samp b
  | None, None => True
  | _, _ => False
  end.
Proof. exact tree_timer_perm. Qed.
Print Assumptions C07_timers.

Theorem C07_timers_union : ∀ t k,
  merged_as (λ hs r, t_vals r ≡ₚ concat (t_vals <$> hs) ∧ t_samp r = qsum (t_samp <$> hs))
    (series_at timers (leaves t) k) (timers (eval t) !! k).
Proof. exact tree_timer_spec. Qed.
Print Assumptions C07_timers_union.

(* ---- sets unite ---- *)
Theorem C07_sets : ∀ t1 t2 k, leaves t1 ≡ₚ leaves t2 →
  s_vals <$> sets (eval t1) !! k = s_vals <$> sets (eval t2) !! k.
Proof. exact tree_set_perm. Qed.
Print Assumptions C07_sets.

Theorem C07_sets_union : ∀ t k,
  merged_as (λ hs r, s_vals r = ⋃ (s_vals <$> hs)) (series_at sets (leaves t) k) (sets (eval t) !! k).
Proof. exact tree_set_spec. Qed.
Print Assumptions C07_sets_union.

(* ---- every series (of each of the four types) keeps the newest timestamp seen ----
   is_newest xs r :=  match r with Some ts => In (Some ts) xs ∧ ∀ ts', In (Some ts') xs → ts' ≤ ts
                                 | None => ∀ x, In x xs → x = None end *)
Theorem C07_timestamps : ∀ t ty k,
  is_newest ((λ m, ts_at ty m k) <$> leaves t) (ts_at ty (eval t) k).
Proof. exact tree_timestamps. Qed.
Print Assumptions C07_timestamps.

Theorem C07_timestamps_order : ∀ t1 t2 ty k, leaves t1 ≡ₚ leaves t2 →
  ts_at ty (eval t1) k = ts_at ty (eval t2) k.
Proof. exact tree_timestamps_perm. Qed.
Print Assumptions C07_timestamps_order.

(* ---- a gauge ends with the value of a datapoint carrying the newest timestamp ----
   gauge_newest ms k r := match r with
     | Some g => (∃ m g', In m ms ∧ gauges m !! k = Some g' ∧ g_ts g' = g_ts g ∧ g_val g' = g_val g)
                 ∧ (∀ m g', In m ms → gauges m !! k = Some g' → g_ts g' ≤ g_ts g)
     | None => ∀ m, In m ms → gauges m !! k = None end *)
Theorem C07_gauges : ∀ t k, gauge_newest (leaves t) k (gauges (eval t) !! k).
Proof. exact tree_gauges. Qed.
Print Assumptions C07_gauges.

(* two orders: same timestamp; same value unless two batches tie for the newest timestamp with
   different values (the only freedom the property leaves) *)
Theorem C07_gauges_order : ∀ t1 t2 k, leaves t1 ≡ₚ leaves t2 →
  match gauges (eval t1) !! k, gauges (eval t2) !! k with
  | Some g1, Some g2 =>
      g_ts g1 = g_ts g2 ∧
      ((∀ m m' a b, In m (leaves t1) → In m' (leaves t1) → gauges m !! k = Some a →
          gauges m' !! k = Some b → g_ts a = g_ts b → g_val a = g_val b) → g_val g1 = g_val g2)
  | None, None => True
  | _, _ => False
  end.
Proof. exact tree_gauges_perm. Qed.
Print Assumptions C07_gauges_order.

(* ---- Receive is Merge of the one-datapoint batch, except who wins a gauge tie ---- *)
Theorem C07_receive_is_merge : ∀ m d,
  counters (receive m d) = counters (merge m (singleton d)) ∧
  timers (receive m d) = timers (merge m (singleton d)) ∧
  sets (receive m d) = sets (merge m (singleton d)) ∧
  ∀ k, match gauges (receive m d) !! k, gauges (merge m (singleton d)) !! k with
       | Some g1, Some g2 =>
           g_ts g1 = g_ts g2 ∧ g_src g1 = g_src g2 ∧ g_tags g1 = g_tags g2 ∧
           (g_val g1 = g_val g2 ∨
            ∃ g, gauges m !! k = Some g ∧ dp_type d = Gauge ∧ dp_key d = k ∧ g_ts g = dp_ts d ∧
                 g_val g1 = dp_value d ∧ g_val g2 = g_val g)
       | None, None => True
       | _, _ => False
       end.
Proof. exact receive_vs_merge. Qed.
Print Assumptions C07_receive_is_merge.

(* ---- MergeMaps is one particular tree: left-nested over a fresh empty map ---- *)
Theorem C07_merge_maps : ∀ ms,
  eval (fold_left Node (Leaf <$> ms) (Leaf empty_map)) = merge_maps ms
  ∧ leaves (fold_left Node (Leaf <$> ms) (Leaf empty_map)) = empty_map :: ms.
Proof. exact merge_maps_is_tree. Qed.
Print Assumptions C07_merge_maps.

(* ---- consolidator: any assignment of batches / datapoint slices to the n slots, drained in
   any order and passed to MergeMaps, is a merge tree over the delivered batches (plus the
   n+1 empty maps the slots and MergeMaps start from) ---- *)
Theorem C07_slots : ∀ n ops slots drained,
  run slot_step (slots_init n) ops = Some slots → drained ≡ₚ slots →
  ∃ t, eval t = merge_maps drained
     ∧ leaves t ≡ₚ replicate (S n) empty_map ++ concat (slot_batches <$> ops).
Proof. exact slots_tree. Qed.
Print Assumptions C07_slots.

Theorem C07_slots_content : ∀ n ops slots drained,
  run slot_step (slots_init n) ops = Some slots → drained ≡ₚ slots →
  abs (merge_maps drained) = cmap_sum (abs <$> concat (slot_batches <$> ops)).
Proof. exact slots_content. Qed.
Print Assumptions C07_slots_content.
