(* C20 - the Lambda extension asks for the next invocation only after flushing.

   Model: Model/Lambda.v - an LTS of manager start-up, heartbeat, telemetry server, forwarder,
   Lambda platform + function around the flush coordinator's capacity-1 channel.
   [run step init ls = Some s] says that the label sequence [ls] is an execution (any
   interleaving of the actors, any number of invocations, any number of datapoints per invocation
   accepted at any time, any upstream outcome and number of attempts per delivery, telemetry
   batches with other record types around the runtimeDone records); every theorem below
   quantifies over all of them.  A position in an execution is given by splitting it:
   [ls = pre ++ l :: post] is "label l fires after pre".

     H_Next k           the k-th GET /event/next leaves (it will be answered with invocation k)
     R_Done n           the function of invocation n returned: the platform emits runtimeDone n
     R_Data d           ingestion accepted datapoint d
     F_Take j o data    the forwarder received the maps [data] drained by the flush that [o]
                        asked for (OInit: the heartbeat's initial flush; OInv n: runtimeDone n)
     F_PostEnd j out    postMetrics of that flush returned: sent, dropped after its retries, or
                        not serialisable - the delivery attempt is finished
     flush_finished o tr  :=  exists j d, In (F_Take j o d) tr /\
                                          (d = [] \/ exists out, In (F_PostEnd j out) tr)

   Statements only; proofs are in Proofs/Lambda.v (state invariant "one credit circulates",
   start-up) and Proofs/LambdaHist.v (history invariant). *)
From Coq Require Import List NArith.
Import ListNotations.
From GS Require Model.Forwarder Proofs.LambdaForwarder.
From GS Require Import Base.LTS Model.Lambda Proofs.Lambda Proofs.LambdaHist.

(* Whenever the extension asks for invocation n+1 (n >= 1), the flush triggered by the
   runtimeDone record of invocation n has been handed to the forwarder and its delivery attempt
   has finished - with whatever outcome - or it carried no data. *)
Theorem C20_next_after_delivery :
  forall ls s pre post n,
    run step init ls = Some s ->
    ls = pre ++ H_Next (S (S n)) :: post ->
    flush_finished (OInv (S n)) pre.
Proof. exact next_after_delivery_thm. Qed.
Print Assumptions C20_next_after_delivery.

(* Every datapoint accepted before the function of invocation n returned is in the maps drained
   by flush n, unless an earlier flush already took it. *)
Theorem C20_data_covered :
  forall ls s l1 l2 l3 n d j data,
    run step init ls = Some s ->
    ls = l1 ++ R_Done n :: l2 ++ F_Take j (OInv n) data :: l3 ->
    In (R_Data d) l1 ->
    In d data \/ exists j' o' data', In (F_Take j' o' data') (l1 ++ R_Done n :: l2) /\ In d data'.
Proof. exact data_covered_thm. Qed.
Print Assumptions C20_data_covered.

(* The two together, i.e. the property as stated: when the extension asks for invocation n+1,
   every datapoint accepted before runtimeDone n is in a flush whose delivery attempt is finished
   (it reached the upstream server or was refused by it) - before the sandbox can be frozen. *)
Theorem C20_frozen_data_delivered :
  forall ls s l1 l2 post n d,
    run step init ls = Some s ->
    ls = (l1 ++ R_Done (S n) :: l2) ++ H_Next (S (S n)) :: post ->
    In (R_Data d) l1 ->
    exists j o data out,
      In (F_Take j o data) (l1 ++ R_Done (S n) :: l2) /\ In d data /\
      In (F_PostEnd j out) (l1 ++ R_Done (S n) :: l2).
Proof. exact frozen_data_delivered_thm. Qed.
Print Assumptions C20_frozen_data_delivered.

(* No GET /next - neither the first nor any later one - before the heartbeat's initial flush was
   taken by the forwarder and finished. *)
Theorem C20_initial_flush :
  forall ls s pre post k,
    run step init ls = Some s ->
    ls = pre ++ H_Next k :: post ->
    flush_finished OInit pre.
Proof. exact initial_flush_thm. Qed.
Print Assumptions C20_initial_flush.

(* A server error inside the start window (= before the heartbeat goroutine exists) is reported
   to /init/error and the runtime is never asked for an event: no GET /next occurs anywhere in
   the execution, the heartbeat is never started, and the manager either has posted InitError,
   or returned because the telemetry subscription failed, or is still subscribing, or sits in
   the window where InitError is its only enabled step. *)
Theorem C20_init_error :
  forall ls s pre post,
    run step init ls = Some s ->
    ls = pre ++ ServerError :: post -> ~ In H_Start pre ->
    (forall k, ~ In (H_Next k) ls) /\ ~ In H_Start ls /\
    (In InitError ls \/ In (Subscribe false) ls \/ mgr s = MRegistered \/
     (mgr s = MWindow /\ step s InitError <> None /\ step s H_Start = None)).
Proof. exact init_error_thm. Qed.
Print Assumptions C20_init_error.

(* ------------------------------------------------------------------------------------------
   C20 x C15.  The forwarder actor above notifies exactly once per flush; that was an assumption
   about pkg/statsd/handler_http_forwarder_v2.go.  Model/Forwarder.v (C15) models that handler itself:
   [Forwarder.hstep cm mr dyn utf8ok] with [dyn] = the effective dynamic-header names.  The theorems
   below (definitions and proofs: Proofs/LambdaForwarder.v) tie the two.

     LF.fwd_step            the forwarder actor cut out of [step]: the job table and the id counter
     LF.project org ...     hstep labels -> forwarder labels: SinkRecv = F_Take of the next job id (origin
                            [org id]); a request's Construct true = F_PostStart, Attempt Failed =
                            F_AttemptFail, Backoff = F_Reattempt, Attempt Ok2xx / Stop / Construct false =
                            F_PostEnd Sent / Dropped / Invalid; PartSkip and Release of a flush request =
                            F_Notify; LoopSpawn, MergeSplit, PartPost and the nop's Release are silent
     LF.cstep cm mr dyn ..  the composed system: [step] for every label that is not a forwarder label, the
                            handler instead of the forwarder actor (SinkRecv = the rendezvous on the sink,
                            every notifyFlush = a send on the capacity-1 channel)
   Context cancellation (ReqStep _ CtxDone) is outside C20 and excluded. *)
Module LF := GS.Proofs.LambdaForwarder.

(* [LF.fwd_step] is the forwarder component of the four-actor LTS. *)
Theorem C20_forwarder_actor_is_step :
  forall s l s',
    LF.is_fwd l = true -> step s l = Some s' -> LF.fwd_step (LF.fview s) l = Some (LF.fview s').
Proof. exact LF.fwd_step_actor. Qed.
Print Assumptions C20_forwarder_actor_is_step.

(* Without dynamic headers every run of C15's handler projects to a run of that actor, take for take
   and notification for notification; once the handler is at rest there is exactly one F_Notify per
   F_Take (in the actor F_Notify j is enabled only after job j's delivery attempt has finished). *)
Theorem C20_forwarder_actor_refines :
  forall (org : nat -> origin) (cm mr : nat) (utf8ok : list N -> bool)
         (ls : list GS.Model.Forwarder.hlabel) (hs : GS.Model.Forwarder.hstate),
    (forall k, org k <> ONop) ->
    run (GS.Model.Forwarder.hstep cm mr [] utf8ok) (GS.Model.Forwarder.hinit cm mr) ls = Some hs ->
    (forall l, In l ls -> LF.is_ctxdone l = false) ->
    exists out qm fs,
      LF.project org cm mr utf8ok (GS.Model.Forwarder.hinit cm mr) [0] ls = Some (out, hs, qm)
      /\ run LF.fwd_step LF.finit out = Some fs
      /\ LF.cnt LF.is_take out = length (GS.Model.Forwarder.received hs)
      /\ LF.cnt LF.is_notify out = GS.Model.Forwarder.notified hs
      /\ (GS.Model.Forwarder.at_rest hs = true -> LF.cnt LF.is_notify out = LF.cnt LF.is_take out).
Proof. exact LF.forwarder_actor_refines_thm. Qed.
Print Assumptions C20_forwarder_actor_refines.

(* Hence the composed system without dynamic headers refines the four-actor LTS: every execution
   projects (the other actors' labels unchanged) to an execution [out] of [step] ending in the same
   state up to the job table - so the five theorems above hold of [out], i.e. of the extension with
   the forwarder as C15 models it. *)
Theorem C20_composed_refines :
  forall (cm mr : nat) (utf8ok : list N -> bool) (tagkey : dp -> list N) (ls : list LF.clabel) (s : LF.cstate),
    run (LF.cstep cm mr [] utf8ok tagkey) LF.cinit ls = Some s ->
    (forall l, In l ls -> LF.is_cctxdone l = false) ->
    exists out qm sA,
      LF.cproject cm mr utf8ok tagkey LF.cinit [] ls = Some (out, s, qm)
      /\ run step init out = Some sA
      /\ set_jobs [] (set_next_id 0 sA) = set_jobs [] (set_next_id 0 (LF.c_l s)).
Proof. exact LF.composed_refines_thm. Qed.
Print Assumptions C20_composed_refines.

(* The boundary (README: dynamic-headers are not supported in Lambda mode; cmd/lambda-extension/
   main.go:105 sets the key "dynamic-header", which nothing reads).  With dynamic-headers = ["r"]:
   (a) [LF.run_a]: the empty initial flush splits into zero parts; the handler is at rest having
       notified nobody, and no continuation ever contains a GET /next;
   (b) [LF.run_b]: an initial flush with two header values is notified twice; the second token lets
       GET /next #2 go out while invocation 1 is running (no R_Done 1, datapoint 3 accepted and in no
       flush) - the state C20_next_after_delivery excludes. *)
Theorem C20_dynamic_headers_refuted :
  (exists s hs, LF.final LF.run_a = Some s /\ LF.c_h s = Some hs
     /\ nexts (LF.c_l s) = 0 /\ length (GS.Model.Forwarder.received hs) = 1
     /\ GS.Model.Forwarder.notified hs = 0 /\ GS.Model.Forwarder.at_rest hs = true
     /\ forall ls s', run (LF.cstep 1 4 LF.dynr LF.ok8 LF.tagk) s ls = Some s' ->
                      forall k, ~ In (LF.CL (H_Next k)) ls)
  /\
  (exists s hs, LF.final LF.run_b = Some s /\ LF.c_h s = Some hs
     /\ In (LF.CL (H_Next 2)) LF.run_b /\ ~ In (LF.CL (R_Done 1)) LF.run_b
     /\ nexts (LF.c_l s) = 2 /\ rt (LF.c_l s) = RRunning 1 /\ pending (LF.c_l s) = [3%N]
     /\ length (GS.Model.Forwarder.received hs) = 1 /\ GS.Model.Forwarder.notified hs = 2).
Proof. exact LF.dynamic_headers_refuted_thm. Qed.
Print Assumptions C20_dynamic_headers_refuted.
