(* C20 - the Lambda extension asks for the next invocation only after flushing.

   Model: Model/Lambda.v - an LTS of manager start-up, heartbeat, telemetry server, forwarder,
   Lambda platform + function around the flush coordinator's capacity-1 channel.
   [run step init ls = Some s] says that the label sequence [ls] is an execution (any
   interleaving of the actors, any number of invocations, any number of datapoints per invocation
   accepted at any time, any upstream outcome and number of attempts per delivery, telemetry
   batches with other record types around the runtimeDone records); every theorem below
   quantifies over all of them.  A position in an execution is given by splitting it:
   [ls = pre ++ l :: post] is "label l fires after pre".

     H_Next k           the k-th GET /event/next leaves (it will be answered with invocation k)
     R_Done n           the function of invocation n returned: the platform emits runtimeDone n
     R_Data d           ingestion accepted datapoint d
     F_Take j o data    the forwarder received the maps [data] drained by the flush that [o]
                        asked for (OInit: the heartbeat's initial flush; OInv n: runtimeDone n)
     F_PostEnd j out    postMetrics of that flush returned: sent, dropped after its retries, or
                        not serialisable - the delivery attempt is finished
     flush_finished o tr  :=  exists j d, In (F_Take j o d) tr /\
                                          (d = [] \/ exists out, In (F_PostEnd j out) tr)

   Statements only; proofs are in Proofs/Lambda.v (state invariant "one credit circulates",
   start-up) and Proofs/LambdaHist.v (history invariant). *)
From Coq Require Import List NArith.
Import ListNotations.
From GS Require Import Base.LTS Model.Lambda Proofs.Lambda Proofs.LambdaHist.

(* Whenever the extension asks for invocation n+1 (n >= 1), the flush triggered by the
   runtimeDone record of invocation n has been handed to the forwarder and its delivery attempt
   has finished - with whatever outcome - or it carried no data. *)
Theorem C20_next_after_delivery :
  forall ls s pre post n,
    run step init ls = Some s ->
    ls = pre ++ H_Next (S (S n)) :: post ->
    flush_finished (OInv (S n)) pre.
Proof. exact next_after_delivery_thm. Qed.
Print Assumptions C20_next_after_delivery.

(* Every datapoint accepted before the function of invocation n returned is in the maps drained
   by flush n, unless an earlier flush already took it. *)
Theorem C20_data_covered :
  forall ls s l1 l2 l3 n d j data,
    run step init ls = Some s ->
    ls = l1 ++ R_Done n :: l2 ++ F_Take j (OInv n) data :: l3 ->
    In (R_Data d) l1 ->
    In d data \/ exists j' o' data', In (F_Take j' o' data') (l1 ++ R_Done n :: l2) /\ In d data'.
Proof. exact data_covered_thm. Qed.
Print Assumptions C20_data_covered.

(* The two together, i.e. the property as stated: when the extension asks for invocation n+1,
   every datapoint accepted before runtimeDone n is in a flush whose delivery attempt is finished
   (it reached the upstream server or was refused by it) - before the sandbox can be frozen. *)
Theorem C20_frozen_data_delivered :
  forall ls s l1 l2 post n d,
    run step init ls = Some s ->
    ls = (l1 ++ R_Done (S n) :: l2) ++ H_Next (S (S n)) :: post ->
    In (R_Data d) l1 ->
    exists j o data out,
      In (F_Take j o data) (l1 ++ R_Done (S n) :: l2) /\ In d data /\
      In (F_PostEnd j out) (l1 ++ R_Done (S n) :: l2).
Proof. exact frozen_data_delivered_thm. Qed.
Print Assumptions C20_frozen_data_delivered.

(* No GET /next - neither the first nor any later one - before the heartbeat's initial flush was
   taken by the forwarder and finished. *)
Theorem C20_initial_flush :
  forall ls s pre post k,
    run step init ls = Some s ->
    ls = pre ++ H_Next k :: post ->
    flush_finished OInit pre.
Proof. exact initial_flush_thm. Qed.
Print Assumptions C20_initial_flush.

(* A server error inside the start window (= before the heartbeat goroutine exists) is reported
   to /init/error and the runtime is never asked for an event: no GET /next occurs anywhere in
   the execution, the heartbeat is never started, and the manager either has posted InitError,
   or returned because the telemetry subscription failed, or is still subscribing, or sits in
   the window where InitError is its only enabled step. *)
Theorem C20_init_error :
  forall ls s pre post,
    run step init ls = Some s ->
    ls = pre ++ ServerError :: post -> ~ In H_Start pre ->
    (forall k, ~ In (H_Next k) ls) /\ ~ In H_Start ls /\
    (In InitError ls \/ In (Subscribe false) ls \/ mgr s = MRegistered \/
     (mgr s = MWindow /\ step s InitError <> None /\ step s H_Start = None)).
Proof. exact init_error_thm. Qed.
Print Assumptions C20_init_error.
