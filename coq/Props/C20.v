(* C20 - the Lambda extension asks for the next invocation only after flushing.

   Model: Model/Lambda.v (LTS of manager start-up, heartbeat, telemetry server, forwarder, Lambda
   platform + function around the flush coordinator's capacity-1 channel).  [run step init ls =
   Some s] says that the label sequence [ls] is an execution; every theorem quantifies over all
   of them.  Statements only; proofs are in Proofs/Lambda*.v. *)
From Coq Require Import List.
Import ListNotations.
From GS Require Import Base.LTS Model.Lambda Proofs.Lambda.

(* A server error inside the start window (= before the heartbeat goroutine exists) is reported
   to /init/error and the runtime is never asked for an event:  no GET /next occurs anywhere in
   the execution, the heartbeat is never started, and the manager either has posted InitError,
   or returned because the telemetry subscription failed, or is still subscribing, or sits in
   the window where InitError is its only enabled step. *)
Theorem C20_init_error :
  forall ls s pre post,
    run step init ls = Some s ->
    ls = pre ++ ServerError :: post -> ~ In H_Start pre ->
    (forall k, ~ In (H_Next k) ls) /\ ~ In H_Start ls /\
    (In InitError ls \/ In (Subscribe false) ls \/ mgr s = MRegistered \/
     (mgr s = MWindow /\ step s InitError <> None /\ step s H_Start = None)).
Proof. exact init_error_thm. Qed.
Print Assumptions C20_init_error.
