From GS Require Import Base.Bytes Model.Series Proofs.Series.
Local Open Scope N_scope.

Theorem C06_bucket_range : forall name key n, n <> 0 -> bucket name key n < n.
Proof. exact bucket_range. Qed.
Print Assumptions C06_bucket_range.
