(* C06 — Shard routing is a deterministic partition of series.

   "For every batch and every shard count, splitting the batch assigns each series (name, tag
   set, source) to exactly one shard, chosen only by the series identity and the shard count,
   and the shards' contents together equal the batch.  Hence a series is always aggregated by
   the same shard and is reported at most once per flush."

   Model: Model/Series.v (tags_key = FormatTagsKey, adler32, bucket = Bucket) and
   Model/MetricMap.v (mmap = the four typed maps keyed by skey = (name, tags key); split n m =
   MetricMap.Split(n), a list of n maps; merge_maps = MergeMaps; receive = Receive).
   All theorems are over every map m (all four types, arbitrary byte strings incl. empty) and
   every shard count n >= 1 (n = 0 divides by zero in Go; see C06_split_loop_zero_panics).
   [l !! i] on a list is the partial lookup (None outside the list).  Vocabulary, fixed by the
   three *_def theorems below:  shard_index n k (the shard of series k among n),  series_in m k
   (m holds series k under some type),  cells m k (the four typed entries of k in m). *)
From stdpp Require Import gmap.
From GS Require Import Base.Bytes Model.Lexer Model.Series Model.MetricMap.
From GS Require Import Proofs.Series Proofs.MetricMapSplit.

Theorem C06_shard_index_def : forall (n : nat) (k : skey),
  shard_index n k = N.to_nat (bucket (fst k) (snd k) (N.of_nat n)).
Proof. exact shard_index_unfold. Qed.
Print Assumptions C06_shard_index_def.

Theorem C06_series_in_def : forall (m : mmap) (k : skey),
  series_in m k <->
  is_Some (counters m !! k) \/ is_Some (timers m !! k) \/ is_Some (gauges m !! k) \/ is_Some (sets m !! k).
Proof. exact series_in_unfold. Qed.
Print Assumptions C06_series_in_def.

Theorem C06_cells_def : forall (m : mmap) (k : skey),
  cells m k = (counters m !! k, timers m !! k, gauges m !! k, sets m !! k).
Proof. exact cells_unfold. Qed.
Print Assumptions C06_cells_def.

(* ---- the routing function ---- *)

Theorem C06_bucket_range : forall name key n, (n <> 0)%N -> (bucket name key n < n)%N.
Proof. exact bucket_range. Qed.
Print Assumptions C06_bucket_range.

(* The shard that holds a datapoint after Receive + Split is N.to_nat (bucket name key n): an
   expression in the datapoint's name, its tags key and the shard count only — type, value,
   rate, timestamp and the rest of the batch m do not occur in it. *)
Theorem C06_datapoint_shard : forall (n : nat) (m : mmap) (d : datapoint) (i : nat) (s : mmap),
  split n (receive m d) !! i = Some s ->
  (series_in s (dp_name d, tags_key (dp_src d) (dp_tags d))
   <-> i = N.to_nat (bucket (dp_name d) (tags_key (dp_src d) (dp_tags d)) (N.of_nat n))).
Proof. exact datapoint_shard. Qed.
Print Assumptions C06_datapoint_shard.

(* Two datapoints of the same series identity — same name, same source, same tags in any
   order — are routed to the same shard, whatever else differs (type, value, rate, timestamp,
   the batches m1 m2 they arrive in). *)
Theorem C06_bucket_deterministic :
  forall (n : nat) (m1 m2 : mmap) (d1 d2 : datapoint) (i1 i2 : nat) (s1 s2 : mmap),
    dp_name d1 = dp_name d2 -> dp_src d1 = dp_src d2 -> Permutation (dp_tags d1) (dp_tags d2) ->
    split n (receive m1 d1) !! i1 = Some s1 -> split n (receive m2 d2) !! i2 = Some s2 ->
    series_in s1 (dp_key d1) -> series_in s2 (dp_key d2) -> i1 = i2.
Proof. exact datapoint_routing_deterministic. Qed.
Print Assumptions C06_bucket_deterministic.

(* ---- series identity and the tags key ---- *)

(* the key does not depend on the order of the tags *)
Theorem C06_tags_key_order_invariant : forall (src : str) (tags tags' : list str),
  Permutation tags tags' -> tags_key src tags = tags_key src tags'.
Proof. exact tags_key_perm. Qed.
Print Assumptions C06_tags_key_order_invariant.

(* On plain identities (plain_tag: non-empty, no comma, not starting with s-colon; no_comma
   sources) the key identifies exactly (source, multiset of tags).  Outside that domain distinct
   pairs can share a key - tags [a; s:x] without source and tags [a] with source x - and are
   one series for gostatsd by design (Proofs/Series.v, Examples tags_key_collision_source,
   _comma, _empty). *)
Theorem C06_tags_key_identity : forall (src src' : str) (tags tags' : list str),
  Forall plain_tag tags -> Forall plain_tag tags' -> no_comma src -> no_comma src' ->
  (tags_key src tags = tags_key src' tags' <-> src = src' /\ Permutation tags tags').
Proof. exact tags_key_identity. Qed.
Print Assumptions C06_tags_key_identity.

(* ---- Split is a partition ---- *)

Theorem C06_split_length : forall (n : nat) (m : mmap), length (split n m) = n.
Proof. exact split_length. Qed.
Print Assumptions C06_split_length.

(* Shard i holds, for each of the four metric types, exactly the entries of m whose bucket is i,
   with the value found in m. *)
Theorem C06_split_lookup : forall (n : nat) (m : mmap) (i : nat) (k : skey),
  (i < n)%nat ->
  exists s, split n m !! i = Some s /\
    let here := bool_decide (N.to_nat (bucket (fst k) (snd k) (N.of_nat n)) = i) in
    counters s !! k = (if here then counters m !! k else None) /\
    timers s !! k = (if here then timers m !! k else None) /\
    gauges s !! k = (if here then gauges m !! k else None) /\
    sets s !! k = (if here then sets m !! k else None).
Proof. exact split_lookup_explicit. Qed.
Print Assumptions C06_split_lookup.

(* Every series of shard i came from m and has shard index i (used by C01). *)
Theorem C06_shard_keys : forall (n : nat) (m : mmap) (i : nat) (s : mmap) (k : skey),
  split n m !! i = Some s -> (series_in s k <-> series_in m k /\ shard_index n k = i).
Proof. exact split_series_in. Qed.
Print Assumptions C06_shard_keys.

(* The shards' contents together equal the batch: merging them with MergeMaps, in any order,
   gives back m — every counter value, timer value list and sampled count, gauge, set,
   timestamp, source and tag list untouched (Leibniz equality of the records). *)
Theorem C06_split_union : forall (n : nat) (m : mmap) (l : list mmap),
  n <> 0%nat -> Permutation l (split n m) -> merge_maps l = m.
Proof. exact merge_maps_split_perm. Qed.
Print Assumptions C06_split_union.

(* Exactly one shard: a series of m is in the shard of its index, with all its typed entries
   unchanged, and in no other shard. *)
Theorem C06_split_disjoint : forall (n : nat) (m : mmap) (k : skey),
  n <> 0%nat -> series_in m k ->
  exists s, split n m !! shard_index n k = Some s /\ cells s k = cells m k /\
    forall j s', split n m !! j = Some s' -> series_in s' k -> j = shard_index n k.
Proof. exact split_exactly_one. Qed.
Print Assumptions C06_split_disjoint.

(* The same series in two batches is routed to the same shard index. *)
Theorem C06_stable_across_batches :
  forall (n : nat) (m1 m2 : mmap) (i1 i2 : nat) (s1 s2 : mmap) (k : skey),
    split n m1 !! i1 = Some s1 -> split n m2 !! i2 = Some s2 ->
    series_in s1 k -> series_in s2 k -> i1 = i2.
Proof. exact split_stable. Qed.
Print Assumptions C06_stable_across_batches.

(* ---- the loop the Go code runs ---- *)

(* Split as written in metric_map.go: four loops over the typed maps in Go's unspecified
   iteration order, each entry stored into maps[Bucket(name, key, n)] (an index outside the
   slice would be a panic = None).  For every iteration order the loop yields [split n m]. *)
Theorem C06_split_loop_any_order :
  forall (n : nat) (m : mmap) (ec : list (skey * counter)) (et : list (skey * timer))
         (eg : list (skey * gauge)) (es : list (skey * mset)),
    n <> 0%nat ->
    Permutation ec (map_to_list (counters m)) -> Permutation et (map_to_list (timers m)) ->
    Permutation eg (map_to_list (gauges m)) -> Permutation es (map_to_list (sets m)) ->
    split_loop n ec et eg es = Some (split n m).
Proof. exact split_loop_any_order. Qed.
Print Assumptions C06_split_loop_any_order.

Theorem C06_split_loop_zero_panics : forall (V : Type) (kv : skey * V) (es : list (skey * V)),
  gsplit_loop 0 (kv :: es) = None.
Proof. exact @gsplit_loop_zero. Qed.
Print Assumptions C06_split_loop_zero_panics.
