(* C05: lines of a datagram are independent and parsed data never aliases the buffer.
   Statements only.

   Vocabulary
     Model/Lexer.v       lex pf ns line : outcome            Lexer.Run on one line (pf = strconv.ParseFloat oracle)
                         lex_key_sep, normalise              the key scan and the name normalisation it performs
     Model/LexMem.v      mem = list N (the receive buffer), slice = (off, len, cap) into it,
                         view m s = the len bytes of m at off, wf_slice = the slice lies inside the array,
                         mem_get m i = byte at address i
                         key_sep_mem                         lexKeySep with its in-place writes / append
                         parse_buffer pf ns m msg            handleDatagram's loop over the SHARED buffer: the
                                                             outcome of every line, and the buffer afterwards
     Model/Datagram.v    lines msg                           the lines by the code's counting rule
                         terminated ls                       every line of ls followed by '\n'
                         parse_line / parse_datagram         handleDatagram for one line / one datagram:
                                                             DgR metrics events #events #bad
                         dg_concat                           concatenation of such results
                         last_gauge k ds                     the last gauge datapoint of series k in ds
     Model/MetricMap.v   receive_all empty_map ds            MetricMap.Receive folded over ds (what Run does)
     Model/LexState.v    lexstate                            the fields of the reused Lexer struct
                         pmetric                             the fields of a pooled gostatsd.Metric
                         run_line pf ns pool st line         Lexer.Run on struct state st: reset() (exactly its six
                                                             assignments), Run's four assignments, the state functions
                                                             reading / writing fields; pool = what MetricPool.Get has
                                                             (Some stale = a recycled Metric with arbitrary fields)
                         parser_view r                       Run's result as handleDatagram inspects it
                         raw_of o                            the outcome o as Run's (metric, event, error) triple, the
                                                             metric's TagsKey / Source / Timestamp as Metric.Reset leaves them
                         run_lines_gen v resets st steps     one lexer over (namespace, pool, line) steps; v / resets
                                                             select a variant of reset() / a pool without Metric.Reset *)
From stdpp Require Import gmap.
From GS Require Import Base.Bytes Model.Lexer Model.MetricMap Model.Datagram Model.LexMem Model.LexState
  Proofs.Datagram Proofs.LexMem Proofs.DatagramMap Proofs.LexState.
Local Open Scope N_scope.

(* ---- the in-place write ---- *)

(* lexKeySep, run on a line slice s of the buffer m (whatever its capacity), never panics, never
   lets append allocate, ends exactly as Lexer.lex_key_sep says, and
   - changes no byte outside [off, off+len) (and not the array's length);
   - when it finds the ':' it leaves, at the line's offset, a slice shortened by the number of
     deleted bytes whose content is normalise(raw key) ++ ':' ++ the untouched rest of the line,
     with the read position just behind the ':'. *)
Theorem C05_frame : forall (m : mem) (s : slice),
  wf_slice m s ->
  lex_key_sep (view m s) <> Pan /\
  exists m' s',
    key_sep_mem (S (N.to_nat (s_len s))) m s 0 =
      match lex_key_sep (view m s) with
      | Ok (k, r) => KSColon m' s' (N.of_nat (length k) + 1)
      | Rej e => KSReject m' s' e
      | Pan => KSPanic
      end /\
    length m' = length m /\
    (forall i, i < s_off s \/ s_off s + s_len s <= i -> mem_get m' i = mem_get m i) /\
    s_off s' = s_off s /\ s_cap s' = s_cap s /\
    (forall k r, lex_key_sep (view m s) = Ok (k, r) ->
       s_len s' + N.of_nat (length (view m s)) = s_len s + N.of_nat (length (k ++ c_colon :: r)) /\
       view m' s' = k ++ c_colon :: r /\
       exists raw, view m s = raw ++ c_colon :: r /\ k = normalise raw).
Proof. exact key_sep_mem_frame. Qed.
Print Assumptions C05_frame.

(* ---- independence of lines ---- *)

(* Parsing a datagram slice of a buffer line by line WITH the in-place writes applied to the
   shared buffer terminates without panic and yields, for each line, exactly [lex] of that line
   in isolation; and no byte outside the datagram's region [off, off+len) is changed. *)
Theorem C05_lines_independent : forall pf ns (m : mem) (msg : slice),
  wf_slice m msg ->
  exists m',
    parse_buffer pf ns m msg = PMOk (map (lex pf ns) (lines (view m msg))) m' /\
    length m' = length m /\
    (forall i, i < s_off msg \/ s_off msg + s_len msg <= i -> mem_get m' i = mem_get m i).
Proof. exact parse_buffer_spec. Qed.
Print Assumptions C05_lines_independent.

(* Hence: a datagram written as newline-terminated lines [ls] followed by a newline-free rest [l]
   (every byte string has this form; [l = []] is "with trailing newline") parses to the
   concatenation of what each of its lines yields alone, in order ... *)
Theorem C05_lines_concat : forall pf cfg ip ts ls l,
  Forall (fun x => ~ In c_nl x) ls -> ~ In c_nl l ->
  lines (terminated ls ++ l) = ls ++ match l with [] => [] | _ => [l] end /\
  exists rs,
    Forall2 (fun line r => parse_line pf cfg ip ts line = Some r)
            (ls ++ match l with [] => [] | _ => [l] end) rs /\
    parse_datagram pf cfg ip ts (terminated ls ++ l) = DgOk (dg_concat rs).
Proof. exact parse_datagram_lines. Qed.
Print Assumptions C05_lines_concat.

(* ... where one line alone yields one metric, one event or one bad line ... *)
Theorem C05_line_alone : forall pf cfg ip ts line,
  parse_line pf cfg ip ts line =
  match lex pf (cf_ns cfg) line with
  | OMetric m => Some (DgR [stamp cfg ip ts m] [] 0 0)
  | OEvent e => Some (DgR [] [stamp_event ip e] 1 0)
  | OReject _ => Some (DgR [] [] 0 1)
  | OPanic => None
  end.
Proof. exact parse_line_unfold. Qed.
Print Assumptions C05_line_alone.

(* ... so the bad-line count is the number of rejected lines. *)
Theorem C05_bad_is_rejected : forall pf cfg ip ts msg r,
  parse_datagram pf cfg ip ts msg = DgOk r ->
  dg_bad r = N.of_nat (length (filter (fun l => match lex pf (cf_ns cfg) l with OReject _ => true | _ => false end)
                                      (lines msg))).
Proof. exact parse_datagram_bad. Qed.
Print Assumptions C05_bad_is_rejected.

(* Every byte string is parsed (no panic, the loop's fuel suffices), and
   metrics + events + bad lines = number of lines.  Referenced by C03. *)
Theorem C05_datagram_total : forall pf cfg ip ts msg,
  exists r, parse_datagram pf cfg ip ts msg = DgOk r /\
            N.of_nat (length (dg_metrics r)) + dg_nevents r + dg_bad r = N.of_nat (length (lines msg)) /\
            dg_nevents r = N.of_nat (length (dg_events r)).
Proof. exact parse_datagram_total. Qed.
Print Assumptions C05_datagram_total.

(* ---- the reused Lexer struct and the pooled Metric ---- *)

(* Whatever the fields of the Lexer struct hold from earlier lines (ALL states, reachable or not)
   and whatever stale values the pooled Metric carries, Run returns exactly what the stateless
   [lex] says for this line: never a metric together with an event, no inherited tags, error,
   sampling rate, lengths, positions, and a Metric whose remaining fields are clean. *)
Theorem C05_lexer_state_independent : forall pf ns (pool : option pmetric) (st : lexstate) line,
  snd (run_line pf ns pool st line) = raw_of (lex pf ns line).
Proof. exact run_line_independent. Qed.
Print Assumptions C05_lexer_state_independent.

(* Hence one lexer reused for any sequence of lines (any namespaces, any pool contents), started
   in any state, yields line by line what [lex] yields for each line alone. *)
Theorem C05_lexer_fold : forall pf steps st,
  run_lines pf st steps = map (fun '(ns, _, line) => raw_of (lex pf ns line)) steps.
Proof. exact run_lines_independent. Qed.
Print Assumptions C05_lexer_fold.

(* The seeded change `l.tags = nil` removed from reset(): in the datagram
   "a:1|c|#x\n_e{1,1}:t|x" the event, which alone has no tags, inherits the metric's tag. *)
Theorem C05_reset_legacy_refuted :
  let pf := fun _ : str => PFVal f64_one in
  let l1 := [97;58;49;124;99;124;35;120] in                      (* a:1|c|#x *)
  let l2 := [95;101;123;49;44;49;125;58;116;124;120] in          (* _e{1,1}:t|x *)
  let ev tags := {| e_title := [116]; e_text := [120]; e_date := 0%Z; e_host := []; e_key := [];
                    e_pri := 0; e_stype := []; e_alert := 0; e_tags := tags |} in
  lex pf [] l2 = OEvent (ev []) /\
  run_lines_gen pf ResetNoTags true zero_state [([], None, l1); ([], None, l2)]
  = [raw_of (lex pf [] l1); RR None (Some (ev [[120]])) None].
Proof. exact reset_no_tags_refuted. Qed.
Print Assumptions C05_reset_legacy_refuted.

(* Of the six assignments of reset(), `l.e = nil` is the only one the parser does not depend on:
   without it Run may hand back a stale event NEXT TO a metric, and handleDatagram tests the error,
   then the metric ([parser_view]).  (Dropping any of the other five -- start, pos, m, tags, err --
   is refuted in Proofs/LexState.v: reset_no_*_refuted.) *)
Theorem C05_reset_e_not_needed : forall pf ns (pool : option pmetric) (st : lexstate) line,
  parser_view (snd (run_line_gen pf ResetNoE true ns pool st line)) = raw_of (lex pf ns line).
Proof. exact run_line_no_e_harmless. Qed.
Print Assumptions C05_reset_e_not_needed.

(* MetricPool.Get without Metric.Reset: the lexer does not assign a set's Value, TagsKey, Source
   or Timestamp, so a recycled Metric's stale values would come back (set line "s:m|s"). *)
Theorem C05_pool_reset_legacy_refuted :
  let pf := fun _ : str => PFVal f64_one in
  let stale := PM [120] 77 f64_one [[116]] [107] [] [9] 5 (Some Counter) in
  exists m, snd (run_line_gen pf ResetCurrent false [] (Some stale) zero_state [115;58;109;124;115])
            = RR (Some m) None None /\
            pm_value m = 77%Z /\ pm_tagskey m = [107] /\ pm_src m = [9] /\ pm_ts m = 5%Z /\ pm_tags m = [[116]].
Proof. exact pool_no_reset_refuted. Qed.
Print Assumptions C05_pool_reset_legacy_refuted.

(* ---- source and receive time ---- *)

(* Every metric of a datagram comes from one of its lines, carries the datagram's receive time
   and, as source, the sender -- or with ignore-host the value of the first "host:" tag, which is
   removed (no such tag: empty source, tags untouched); nothing else of the line changes. *)
Theorem C05_source_time : forall pf cfg ip ts msg r d,
  parse_datagram pf cfg ip ts msg = DgOk r -> In d (dg_metrics r) ->
  exists line m,
    In line (lines msg) /\ lex pf (cf_ns cfg) line = OMetric m /\
    dp_ts d = ts /\
    (if cf_ignore_host cfg then
       (exists pre h post,
           m_tags m = pre ++ (host_prefix ++ h) :: post /\
           Forall (fun t => has_prefix host_prefix t = false) pre /\
           dp_src d = h /\ dp_tags d = pre ++ post)
       \/ (Forall (fun t => has_prefix host_prefix t = false) (m_tags m) /\
           dp_src d = [] /\ dp_tags d = m_tags m)
     else dp_src d = ip /\ dp_tags d = m_tags m) /\
    dp_name d = m_name m /\ dp_type d = m_type m /\ dp_value d = m_value m /\
    dp_strval d = m_strval m /\ dp_rate d = m_rate m.
Proof. exact parse_datagram_source_time. Qed.
Print Assumptions C05_source_time.

(* Every event of a datagram comes from one of its lines and carries the sender as source. *)
Theorem C05_event_source : forall pf cfg ip ts msg r e,
  parse_datagram pf cfg ip ts msg = DgOk r -> In e (dg_events r) ->
  exists line e0, In line (lines msg) /\ lex pf (cf_ns cfg) line = OEvent e0 /\ e = stamp_event ip e0.
Proof. exact parse_datagram_event_source. Qed.
Print Assumptions C05_event_source.

(* ---- gauges ---- *)

(* Folding the metrics of one datagram into a fresh map (what Run does with a batch of one
   datagram): the gauge of series k holds the value of the datagram's LAST accepted gauge line
   for k, stamped with the receive time; no such line, no such gauge. *)
Theorem C05_gauge_last_wins : forall pf cfg ip ts msg r (k : skey),
  parse_datagram pf cfg ip ts msg = DgOk r ->
  match last_gauge k (dg_metrics r) with
  | Some d => exists g, gauges (receive_all empty_map (dg_metrics r)) !! k = Some g /\
                        g_val g = dp_value d /\ g_ts g = ts
  | None => gauges (receive_all empty_map (dg_metrics r)) !! k = None
  end.
Proof. exact datagram_gauge_last_wins. Qed.
Print Assumptions C05_gauge_last_wins.

(* ---- aliasing ---- *)

(* Full statement (NOT provable about a Gallina model): after handleDatagram returns, no string
   or slice reachable from the dispatched MetricMap / events shares memory with the receive
   buffer or with a pooled Metric, so overwriting the buffer and reusing the pool changes
   nothing that was dispatched.  Sharing of memory between Go values is run-time behaviour a
   functional model cannot exhibit; it is watched by the harness's aliasing monitor.
   Proved part: what a parse produces is a function of the datagram's bytes alone -- not of the
   slice's position or capacity, of the bytes around it, or of what earlier parses (with their
   in-place writes) left in a recycled buffer. *)
Theorem C05_no_alias_partial : forall pf ns (m1 m2 : mem) (s1 s2 : slice),
  wf_slice m1 s1 -> wf_slice m2 s2 -> view m1 s1 = view m2 s2 ->
  exists outs m1' m2',
    parse_buffer pf ns m1 s1 = PMOk outs m1' /\ parse_buffer pf ns m2 s2 = PMOk outs m2' /\
    outs = map (lex pf ns) (lines (view m1 s1)).
Proof. exact parse_buffer_view_only. Qed.
Print Assumptions C05_no_alias_partial.
