(* C16 - each backend flush request completes exactly once under any transport fault.
   Statements only; the models are Model/Sender.v (socket backends: sender.Sender.Run / innerRun /
   cleanup) and Model/Collector.v (HTTP backends' collector goroutine, fixed-path backends, the
   flusher's WaitGroup).  All theorems quantify over every label sequence [ls] of the respective
   transition system, i.e. every interleaving of transport outcomes, cancellations and goroutine
   steps, of any length. *)
From Coq Require Import List Arith Bool ZArith Permutation.
From GS Require Import Base.LTS Model.Sender Model.Collector Model.PostLoop
                       Proofs.Sender Proofs.SenderLive Proofs.Collector Proofs.CollectorFlusher
                       Proofs.PostLoop Proofs.PostLoopCollector.
Import ListNotations.

(* Socket backends (graphite, statsdaemon).  After ANY finite script of connects (ok / fail), timer
   expiries, stream arrivals, writes (ok / error), stream cancellations and shutdown, run from the
   initial state of the repaired sender (legacy = false) with any per-connection stream limit:
   the sender has not dereferenced nil; every stream it accepted (numbers < next) that is no longer
   pending (held in `stream` or waiting in s.Sink) has received exactly one callback; a pending
   stream has received none; when Run has returned nothing is pending; and every callback made
   because the stream was cancelled while disconnected or because of shutdown carries a non-empty
   error list, as does the callback of any stream one of whose writes failed. *)
Theorem C16_sender_exactly_once :
  forall (maxs : nat) (ls : list label) (s : state),
    run (step false maxs) init ls = Some s ->
    ph s <> Panicked
    /\ (forall i, i < next s -> ~ pending i s -> callbacks i s = 1)
    /\ (forall i, pending i s -> i < next s /\ callbacks i s = 0)
    /\ (forall i, next s <= i -> callbacks i s = 0)
    /\ (ph s = Stopped -> forall i, ~ pending i s)
    /\ Forall (fun c : cb => (cb_why c <> Drained -> cb_errs c <> []) /\
                             (In (cb_id c) (wfail s) -> cb_errs c <> []))
              (out s).
Proof. exact sender_exactly_once. Qed.
Print Assumptions C16_sender_exactly_once.

(* ... and no reachable state is a dead end: every run can be extended by a shutdown script, after
   which every accepted stream has exactly one callback. *)
Theorem C16_sender_can_always_shut_down :
  forall (maxs : nat) (ls : list label) (s : state),
    run (step false maxs) init ls = Some s ->
    exists ls' s', run (step false maxs) init (ls ++ ls') = Some s' /\ ph s' = Stopped
                   /\ forall i, i < next s' -> callbacks i s' = 1.
Proof. exact sender_can_always_shut_down. Qed.
Print Assumptions C16_sender_can_always_shut_down.

(* The code before commit efb4dae (legacy = true) violates the property: a script after which the
   sender has stopped and an accepted stream has no callback (the flusher would wait for ever). *)
Theorem C16_legacy_refuted_stale_sink :
  exists (ls : list label) (s : state) (i : nat),
    run (step true 100) init ls = Some s /\ ph s = Stopped /\ i < next s /\ callbacks i s = 0.
Proof. exact legacy_refuted_stale_sink. Qed.
Print Assumptions C16_legacy_refuted_stale_sink.

(* ... and a script on which it dereferences a nil stream. *)
Theorem C16_legacy_refuted_stale_cancel :
  exists (ls : list label) (s : state), run (step true 100) init ls = Some s /\ ph s = Panicked.
Proof. exact legacy_refuted_stale_cancel. Qed.
Print Assumptions C16_legacy_refuted_stale_cancel.

(* HTTP backends with a collector goroutine (datadog, newrelic, influxdb).  After ANY script of
   batch creations (0, 1, many), post results, cancellation at any point, worker and collector
   steps: the callback has been invoked at most once, and exactly once iff the collector has
   finished; its error list has a non-nil entry if the post of any created batch returned an error;
   it contains ctx.Err() (and the context was indeed cancelled) if not every created batch's result
   was taken; and if the context was never cancelled it is exactly the multiset of the batches'
   results, one per created batch. *)
Theorem C16_collector_exactly_once :
  forall (ls : list clabel) (s : cstate),
    run cstep cinit ls = Some s ->
    length (cout s) <= 1 /\
    (cph s = Called <-> length (cout s) = 1) /\
    forall es, cout s = [es] ->
      (existsb failed_batch (workers s) = true -> has_err es = true) /\
      (all_sent (workers s) = false -> In ECtx es /\ cancelled s = true) /\
      (cancelled s = false ->
         all_sent (workers s) = true /\ Permutation es (sent_results (workers s))
         /\ length es = length (workers s)).
Proof. exact collector_exactly_once. Qed.
Print Assumptions C16_collector_exactly_once.

(* ... and from every reachable state the callback can still happen. *)
Theorem C16_collector_can_finish :
  forall (ls : list clabel) (s : cstate),
    run cstep cinit ls = Some s ->
    exists ls' s', run cstep cinit (ls ++ ls') = Some s' /\ cph s' = Called /\ length (cout s') = 1.
Proof. exact collector_can_finish. Qed.
Print Assumptions C16_collector_can_finish.

(* otlp, cloudwatch, stdout, null and the front half of graphite / statsdaemon call back on a fixed
   path: one invocation, with an error exactly when a request failed (rs: per batch, true = failed). *)
Theorem C16_sync_backends_exactly_once :
  (forall rs, exists es, otlp_callbacks rs = [es] /\ has_err es = existsb (fun b => b) rs) /\
  (forall rs, exists es, cloudwatch_callbacks rs = [es] /\ length es = length rs
                         /\ has_err es = existsb (fun b => b) rs) /\
  (forall w, exists es, stdout_callbacks w = [es] /\ has_err es = w) /\
  null_callbacks = [[]] /\
  (forall d, match socket_front d with
             | FrontCalledBack es => d = true /\ has_err es = true
             | FrontSubmitted => d = false
             end).
Proof. exact sync_backends_exactly_once. Qed.
Print Assumptions C16_sync_backends_exactly_once.

(* The flusher.  After ANY script of sendMetricsAsync calls, callbacks, end of processing, return of
   Wait and further flushes: if so far every callback belonged to a request of the current flush and
   no request called back twice, then the WaitGroup never went negative (no panic), its counter is
   the number of requests still owing their callback, it is 0 exactly when all have called back,
   sendWg.Wait() can return exactly then, and once it has returned the next flush starts from 0. *)
Theorem C16_flusher_returns :
  forall (ls : list flabel) (s : fstate),
    run fstep finit ls = Some s ->
    (NoDup (cbs s) /\ forall r, In r (cbs s) -> r < issued s) ->
    fph s <> FPanicked /\ (0 <= wg s)%Z /\
    wg s = (Z.of_nat (issued s) - Z.of_nat (length (cbs s)))%Z /\
    (wg s = 0%Z <-> forall r, r < issued s -> In r (cbs s)) /\
    (fph s = FWaiting ->
       ((exists s', fstep s FWaitReturns = Some s') <-> forall r, r < issued s -> In r (cbs s))) /\
    (fph s = FReturned ->
       (forall r, r < issued s -> In r (cbs s)) /\
       fstep s FNextFlush = Some (FS FProcessing 0 0 [] (S (flushes s)))).
Proof. exact flusher_returns. Qed.
Print Assumptions C16_flusher_returns.

(* ---------------------------------------------------------------------------------------- *)
(* The retry loops behind "the post of a batch returned e" (Model/PostLoop.v: datadog, influxdb,
   newrelic incl. Retry-After, otlp), over ALL answer scripts [srv], ALL back-off oracles [bo]
   (None = backoff.Stop) and ALL cancellation scripts [cx]; [fuel] only bounds the evaluation. *)

(* If the oracle says Stop at its n-th call (the retry window has ended), a loop as written makes
   at most n + 1 attempts and returns - whatever the server answers, 429 + Retry-After included. *)
Theorem C16_post_terminates :
  forall (b : backend) srv bo cx (n fuel : nat),
    as_written b -> bo n = None -> n < fuel ->
    exists r a sl, post b srv bo cx fuel = Done r a sl /\ a <= n + 1.
Proof. exact post_terminates. Qed.
Print Assumptions C16_post_terminates.

(* Without the conjunct `next != backoff.Stop` in newrelic's Retry-After handling the loop never
   ends against sustained 429 + Retry-After, even if the oracle says Stop at every call: for every
   fuel it is still running. *)
Theorem C16_post_legacy_refuted_retry_after :
  forall (window k : Z) (fuel : nat),
    (0 < k)%Z ->
    post (Newrelic false window) (fun _ => A429 (Some k)) (fun _ => None) (fun _ => false) fuel = OutOfFuel.
Proof. exact post_legacy_refuted_retry_after. Qed.
Print Assumptions C16_post_legacy_refuted_retry_after.

(* A finished run made >= 1 attempts; it returns nil iff its last attempt was a success; every
   earlier attempt got a retryable failure (so no attempt follows a success); one timer per retry. *)
Theorem C16_post_result :
  forall (b : backend) srv bo cx fuel r a sl,
    post b srv bo cx fuel = Done r a sl ->
    1 <= a /\
    (r = RNil <-> is_success b (srv (a - 1)) = true) /\
    (forall j, j < a - 1 -> is_retry b (srv j) = true /\ is_success b (srv j) = false) /\
    length sl = a - 1 + (if waits b srv bo (a - 1) then 1 else 0).
Proof. exact post_result. Qed.
Print Assumptions C16_post_result.

(* Cancellation: the run returns ctx.Err() exactly when its last attempt reached the wait and the
   ctx.Done() arm was taken there; no earlier wait took it; a wait whose Done arm is taken is the
   last; and a Done arm at wait n bounds the run by n + 1 attempts whatever the oracle says. *)
Theorem C16_post_ctx :
  forall (b : backend) srv bo cx fuel r a sl,
    post b srv bo cx fuel = Done r a sl ->
    (r = RCtx <-> waits b srv bo (a - 1) = true /\ cx (a - 1) = true) /\
    (forall j, j < a - 1 -> waits b srv bo j = true /\ cx j = false) /\
    (waits b srv bo (a - 1) = true -> r = RCtx).
Proof. exact post_ctx. Qed.
Print Assumptions C16_post_ctx.

Theorem C16_post_ctx_terminates :
  forall (b : backend) srv bo cx (n fuel : nat),
    cx n = true -> n < fuel ->
    exists r a sl, post b srv bo cx fuel = Done r a sl /\ a <= n + 1.
Proof. exact post_ctx_terminates. Qed.
Print Assumptions C16_post_ctx_terminates.

(* The collector with the loops in ([cstepL env]: a worker's result is what its own loop returns on
   its own scripts): each created batch yields a result once its window ends, exactly once, and the
   exactly-once theorem holds for the composed system. *)
Theorem C16_worker_post_returns :
  forall (env : nat -> wenv) (i n : nat),
    as_written (w_b (env i)) -> w_bo (env i) n = None ->
    exists e, lower env (LPost i (S n)) = Some (WPost i e).
Proof. exact worker_post_returns. Qed.
Print Assumptions C16_worker_post_returns.

Theorem C16_worker_post_once :
  forall (env : nat -> wenv) (s : cstate) (i fuel : nat) (s' : cstate),
    cstepL env s (LPost i fuel) = Some s' ->
    nth_error (workers s) i = Some WRun /\
    (exists e, nth_error (workers s') i = Some (WPosted e)) /\
    forall fuel', cstepL env s' (LPost i fuel') = None.
Proof. exact worker_post_once. Qed.
Print Assumptions C16_worker_post_once.

Theorem C16_collector_exactly_once_with_loops :
  forall (env : nat -> wenv) (ls : list llabel) (s : cstate),
    run (cstepL env) cinit ls = Some s ->
    length (cout s) <= 1 /\
    (cph s = Called <-> length (cout s) = 1) /\
    forall es, cout s = [es] ->
      (existsb failed_batch (workers s) = true -> has_err es = true) /\
      (all_sent (workers s) = false -> In ECtx es /\ cancelled s = true) /\
      (cancelled s = false ->
         all_sent (workers s) = true /\ Permutation es (sent_results (workers s))
         /\ length es = length (workers s)).
Proof. exact collector_exactly_once_with_loops. Qed.
Print Assumptions C16_collector_exactly_once_with_loops.
