(* C19 - every event is delivered once to every backend with its fields intact.
   Statements only.

   Bookkeeping (Model/Events.v part B): the labelled transition system [fstep c] of CloudHandler.wg and
   BackendHandler.DispatchEvent / internalDispatchEvent / WaitForEvents for a configuration [c] with
   [nb c] backends (any number, 0 included) and max-concurrent-events [cap c].  Labels = atomic actions
   of the Go code: Arrive e hit | Release es | RelNext r | RelDone r | Spawn d | Cancel d | SendCall g |
   SendRet g | SemRelease g | WgDone g | WaitCloud | WaitBackend; every theorem is over ALL label
   sequences [ls], i.e. all interleavings, any number of concurrent senders and lookups.
   Vocabulary: arrivals_of ls = the events of the Arrive labels; nsent st e b = how many SendEvent(e) calls
   have RETURNED on backend b; inflight = goroutines for (e, b) that have not returned from SendEvent yet;
   todo = DispatchEvent(e) loops that have not reached backend b yet; skip = loops that left through
   ctx.Done before reaching b; waiting = copies of e parked in the cloud stage or with a releaser;
   quiescent = nothing parked, no releaser, no loop, no goroutine; outstanding / held = what the two
   WaitGroup counters are meant to count; cnt p l = number of elements of l satisfying p. *)
From stdpp Require Import list list_numbers.
From GS Require Import Base.Bytes Base.LTS Model.Events Proofs.EventsLTS.

(* Exactly once per backend.  In every reachable state, for every event e and backend b < nb c, every
   arrival of e is accounted for exactly once: delivered to b, in flight to b, not yet reached by its
   DispatchEvent loop, skipped by a cancelled loop, or still held by the cloud stage.  Hence never more
   SendEvent(e) on b than arrivals of e; when nothing is in progress, exactly as many (minus the
   cancelled ones); without cancellation nothing is skipped; no SendEvent beyond the configured backends. *)
Theorem C19_once_per_backend : forall (c : fcfg) (ls : list flabel) (st : fstate),
  run (fstep c) finit ls = Some st ->
  forall (e : N) (b : nat),
    (b < nb c ->
       nsent st e b + inflight st e b + todo st e b + skip st e b + waiting st e
         = cnt (is_ev e) (arrivals_of ls)
       /\ (quiescent st -> nsent st e b + skip st e b = cnt (is_ev e) (arrivals_of ls)))
    /\ (nb c <= b -> nsent st e b = 0)
    /\ (forallb (fun l => negb (is_cancel l)) ls = true -> skip st e b = 0).
Proof. exact once_per_backend. Qed.
Print Assumptions C19_once_per_backend.

(* WaitForEvents = ch.wg.Wait() then bh.eventWg.Wait().  Whatever happens before, in between ([ls2]) and
   concurrently: when the second Wait returns, every event that had arrived before the first Wait returned
   has completed SendEvent on every backend (or its loop was cancelled before that backend). *)
Theorem C19_wait_sound : forall (c : fcfg) (ls1 ls2 : list flabel) (st : fstate),
  run (fstep c) finit (ls1 ++ WaitCloud :: ls2 ++ [WaitBackend]) = Some st ->
  forall (e : N) (b : nat), b < nb c ->
    cnt (is_ev e) (arrivals_of ls1) <= nsent st e b + skip st e b.
Proof. exact wait_sound. Qed.
Print Assumptions C19_wait_sound.

(* The backend handler's Wait alone: it can return exactly in the states where nothing is owed - no
   DispatchEvent loop, no goroutine - and there every event that entered the handler has completed
   SendEvent on every backend (or was cancelled before it). *)
Theorem C19_wait_backend : forall (c : fcfg) (ls : list flabel) (st : fstate),
  run (fstep c) finit ls = Some st ->
  (fstep c st WaitBackend = Some st <-> outstanding c st = 0)
  /\ (outstanding c st = 0 ->
        disp st = [] /\ gos st = [] /\
        forall e b, b < nb c -> nsent st e b + skip st e b = nentered st e).
Proof. exact wait_backend_enabled. Qed.
Print Assumptions C19_wait_backend.

(* The counters are exactly the outstanding deliveries / the events held by the cloud stage, so they are
   never negative: sync.WaitGroup never panics (the [panicked] state is unreachable). *)
Theorem C19_counters : forall (c : fcfg) (ls : list flabel) (st : fstate),
  run (fstep c) finit ls = Some st ->
  panicked st = false /\ wg st = Z.of_nat (outstanding c st) /\ cwg st = Z.of_nat (held st).
Proof. exact counters. Qed.
Print Assumptions C19_counters.

(* At most max-concurrent-events SendEvent calls are in progress: the goroutines between go func() and
   the token release are exactly the tokens taken. *)
Theorem C19_semaphore_bound : forall (c : fcfg) (ls : list flabel) (st : fstate),
  run (fstep c) finit ls = Some st ->
  calling st <= holding st /\ holding st = sem st /\ sem st <= cap c.
Proof. exact semaphore_bound. Qed.
Print Assumptions C19_semaphore_bound.
