(* C19 - every event is delivered once to every backend with its fields intact.
   Statements only.

   Fields (Model/Events.v part A): [standalone pf ns th now ip io line] is what every backend's SendEvent
   receives for [line] sent by address [ip] at time [now] (time.Now().Unix() in the parser), composed from
   the component models: Lexer.lex (C02) -> parser (source := sender, date 0 := now) -> cloud stage
   (Cloud.update_inplace, C11; [io] = the instance of the lookup's answer for ip, None = failed / negative
   lookup or no provider) -> tag stage (Tags.dispatch_event, C10; [th] built by NewTagHandler from the
   static tags) -> the same *Event to every backend.  [forwarded ...] continues through the forwarder's
   protobuf message (Wire.event_to_pb), the ingesting server's EventHandler (Wire.event_from_pb, C14), its
   cloud stage (answer [ioS] for the forwarded source) and tag stage [thS]; [ingested thS ioS p] is that
   tail alone for a posted message p.  [render_event title text attrs] is the event line of the documented
   grammar (Model/LexGrammar.v; any bytes, attributes d: h: k: p: s: t: #tags and unknown fields in any
   order and multiplicity, a later attribute overriding an earlier one: [apply_eattr]); [unescape] turns
   each "\n" pair into a newline; [dedup l] = l without repetitions (first occurrences).

   Bookkeeping (Model/Events.v part B): the labelled transition system [fstep c] of CloudHandler.wg and
   BackendHandler.DispatchEvent / internalDispatchEvent / WaitForEvents for a configuration [c] with
   [nb c] backends (any number, 0 included) and max-concurrent-events [cap c].  Labels = atomic actions
   of the Go code: Arrive e hit | Release es | RelNext r | RelDone r | Spawn d | Cancel d | SendCall g |
   SendRet g | SemRelease g | WgDone g | WaitCloud | WaitBackend; every theorem is over ALL label
   sequences [ls], i.e. all interleavings, any number of concurrent senders and lookups.
   Vocabulary: arrivals_of ls = the events of the Arrive labels; nsent st e b = how many SendEvent(e) calls
   have RETURNED on backend b; inflight = goroutines for (e, b) that have not returned from SendEvent yet;
   todo = DispatchEvent(e) loops that have not reached backend b yet; skip = loops that left through
   ctx.Done before reaching b; waiting = copies of e parked in the cloud stage or with a releaser;
   quiescent = nothing parked, no releaser, no loop, no goroutine; outstanding / held = what the two
   WaitGroup counters are meant to count; cnt p l = number of elements of l satisfying p. *)
From GS Require Import Base.Bytes Base.LTS Model.Lexer Model.LexGrammar Model.Cloud Model.Tags Model.Events
  Proofs.Events Proofs.EventsLTS.
From GS Require Model.Wire.
From stdpp Require Import list list_numbers.

(* Every event line of the grammar reaches every backend with: its title; its text with escaped newlines
   restored; the d: time, or the receipt time when absent (or 0); aggregation key, source type, priority
   and alert type as written (defaults "", "", normal, info); as source the instance id after a positive
   lookup and the sender address otherwise - never the h: attribute; and as tags, without repetition,
   its own tags, the instance's tags and the static tags. *)
Theorem C19_fields :
  forall (pf : str -> pfres) (ns : str) (static : list str) (filters : list Tags.filter) (th : tag_handler)
         (now : Z) (ip : str) (io : option instance) (title text : str) (attrs : list eattr),
    (N.of_nat (length title) <= max_uint32)%N -> (N.of_nat (length text) <= max_uint32)%N ->
    Forall wf_eattr attrs ->                       (* fields without '|', tags without ',' '|' NUL *)
    new_tag_handler static filters = Done th ->
    let e0 := fold_left apply_eattr attrs (empty_event title (unescape text)) in
    exists tags,
      standalone pf ns th now ip io (render_event title text attrs) =
        Delivered (CEvent title (unescape text)
                          (if (Lexer.e_date e0 =? 0)%Z then now else Lexer.e_date e0)
                          (Lexer.e_key e0) (Lexer.e_stype e0) tags
                          (match io with Some i => inst_id i | None => ip end)
                          (Z.of_N (Lexer.e_pri e0)) (Z.of_N (Lexer.e_alert e0)))
      /\ tags ≡ₚ dedup (eattrs_tags attrs ++ inst_tags_of io ++ static)
      /\ NoDup tags.
Proof. exact fields. Qed.
Print Assumptions C19_fields.

(* Forwarder mode: what the ingesting server's backends receive is the event [e] the forwarder's own
   stages produced (C19_fields), every field intact across the wire, with the server's instance tags and
   static tags added (and its instance id as source after a positive lookup of the forwarded source). *)
Theorem C19_fields_forwarded :
  forall (pf : str -> pfres) (ns : str) (static : list str) (filters : list Tags.filter) (th : tag_handler)
         (now : Z) (ip : str) (io : option instance)
         (staticS : list str) (filtersS : list Tags.filter) (thS : tag_handler) (ioS : option instance)
         (title text : str) (attrs : list eattr),
    (N.of_nat (length title) <= max_uint32)%N -> (N.of_nat (length text) <= max_uint32)%N ->
    Forall wf_eattr attrs ->
    new_tag_handler static filters = Done th -> new_tag_handler staticS filtersS = Done thS ->
    exists e tags,
      standalone pf ns th now ip io (render_event title text attrs) = Delivered e
      /\ forwarded pf ns th now ip io thS ioS (render_event title text attrs) =
           Delivered (CEvent (ev_title e) (ev_text e) (ev_date e) (ev_agg e) (ev_stn e) tags
                             (match ioS with Some i => inst_id i | None => ev_src e end)
                             (ev_prio e) (ev_alert e))
      /\ tags ≡ₚ dedup (ev_tags e ++ inst_tags_of ioS ++ staticS) /\ NoDup tags.
Proof. exact fields_forwarded. Qed.
Print Assumptions C19_fields_forwarded.

(* An event message received on the HTTP ingestion endpoint: every field as sent (Hostname is the source,
   enum values outside the declared ones become normal / info, the date is taken as it is), instance and
   static tags added. *)
Theorem C19_fields_ingested :
  forall (static : list str) (filters : list Tags.filter) (th : tag_handler) (io : option instance)
         (p : Wire.pb_event),
    new_tag_handler static filters = Done th ->
    exists tags,
      ingested th io p =
        Delivered (CEvent (Wire.pe_title p) (Wire.pe_text p) (Wire.pe_date p) (Wire.pe_aggkey p)
                          (Wire.pe_srctype p) tags
                          (match io with Some i => inst_id i | None => Wire.pe_hostname p end)
                          (if (Wire.pe_priority p =? 1)%Z then 1 else 0)%Z
                          (if (Wire.pe_type p =? 1)%Z then 1 else if (Wire.pe_type p =? 2)%Z then 2
                           else if (Wire.pe_type p =? 3)%Z then 3 else 0)%Z)
      /\ tags ≡ₚ dedup (Wire.pe_tags p ++ inst_tags_of io ++ static) /\ NoDup tags.
Proof. exact fields_ingested. Qed.
Print Assumptions C19_fields_ingested.

(* Exactly once per backend.  In every reachable state, for every event e and backend b < nb c, every
   arrival of e is accounted for exactly once: delivered to b, in flight to b, not yet reached by its
   DispatchEvent loop, skipped by a cancelled loop, or still held by the cloud stage.  Hence never more
   SendEvent(e) on b than arrivals of e; when nothing is in progress, exactly as many (minus the
   cancelled ones); without cancellation nothing is skipped; no SendEvent beyond the configured backends. *)
Theorem C19_once_per_backend : forall (c : fcfg) (ls : list flabel) (st : fstate),
  run (fstep c) finit ls = Some st ->
  forall (e : N) (b : nat),
    (b < nb c ->
       nsent st e b + inflight st e b + todo st e b + skip st e b + waiting st e
         = cnt (is_ev e) (arrivals_of ls)
       /\ (quiescent st -> nsent st e b + skip st e b = cnt (is_ev e) (arrivals_of ls)))
    /\ (nb c <= b -> nsent st e b = 0)
    /\ (forallb (fun l => negb (is_cancel l)) ls = true -> skip st e b = 0).
Proof. exact once_per_backend. Qed.
Print Assumptions C19_once_per_backend.

(* WaitForEvents = ch.wg.Wait() then bh.eventWg.Wait().  Whatever happens before, in between ([ls2]) and
   concurrently: when the second Wait returns, every event that had arrived before the first Wait returned
   has completed SendEvent on every backend (or its loop was cancelled before that backend). *)
Theorem C19_wait_sound : forall (c : fcfg) (ls1 ls2 : list flabel) (st : fstate),
  run (fstep c) finit (ls1 ++ WaitCloud :: ls2 ++ [WaitBackend]) = Some st ->
  forall (e : N) (b : nat), b < nb c ->
    cnt (is_ev e) (arrivals_of ls1) <= nsent st e b + skip st e b.
Proof. exact wait_sound. Qed.
Print Assumptions C19_wait_sound.

(* The backend handler's Wait alone: it can return exactly in the states where nothing is owed - no
   DispatchEvent loop, no goroutine - and there every event that entered the handler has completed
   SendEvent on every backend (or was cancelled before it). *)
Theorem C19_wait_backend : forall (c : fcfg) (ls : list flabel) (st : fstate),
  run (fstep c) finit ls = Some st ->
  (fstep c st WaitBackend = Some st <-> outstanding c st = 0)
  /\ (outstanding c st = 0 ->
        disp st = [] /\ gos st = [] /\
        forall e b, b < nb c -> nsent st e b + skip st e b = nentered st e).
Proof. exact wait_backend_enabled. Qed.
Print Assumptions C19_wait_backend.

(* The counters are exactly the outstanding deliveries / the events held by the cloud stage, so they are
   never negative: sync.WaitGroup never panics (the [panicked] state is unreachable). *)
Theorem C19_counters : forall (c : fcfg) (ls : list flabel) (st : fstate),
  run (fstep c) finit ls = Some st ->
  panicked st = false /\ wg st = Z.of_nat (outstanding c st) /\ cwg st = Z.of_nat (held st).
Proof. exact counters. Qed.
Print Assumptions C19_counters.

(* At most max-concurrent-events SendEvent calls are in progress: the goroutines between go func() and
   the token release are exactly the tokens taken. *)
Theorem C19_semaphore_bound : forall (c : fcfg) (ls : list flabel) (st : fstate),
  run (fstep c) finit ls = Some st ->
  calling st <= holding st /\ holding st = sem st /\ sem st <= cap c.
Proof. exact semaphore_bound. Qed.
Print Assumptions C19_semaphore_bound.

(* Why the capacity must be >= 1: with at least one token the bookkeeping is never stuck - as long as
   anything is parked, being released, dispatched or delivered, some [internal] step (any label but Arrive,
   Cancel, WaitCloud, WaitBackend) is enabled, so WaitForEvents is never left waiting on a state that cannot
   move.  (With capacity 0 the first DispatchEvent blocks for ever: Proofs/EventsExamples.v, ex_cap0_stuck.) *)
Theorem C19_no_deadlock : forall (c : fcfg) (ls : list flabel) (st : fstate),
  1 <= cap c -> run (fstep c) finit ls = Some st -> ~ quiescent st ->
  exists l st', internal l = true /\ fstep c st l = Some st'.
Proof. exact no_deadlock. Qed.
Print Assumptions C19_no_deadlock.
