(* C14 — what a forwarder encodes is what the ingesting server decodes.
   to_pb = translateToProtobufV2, from_pb now = translateFromProtobufV2 (now = its time.Now()),
   event_to_pb = dispatchEvent's message, event_from_pb = EventHandler's event (Model/Wire.v). *)
From stdpp Require Import gmap.
From Coq Require Import QArith Qcanon String.
From GS Require Import Base.Bytes Base.GoFloat Model.Series Model.MetricMap Model.Wire Model.PbWire Proofs.Wire Proofs.PbWire.
Local Open Scope string_scope.
Local Open Scope Z_scope.

(* Every metric map comes back with the same series under the same (name, tags key) — the tags
   key is carried verbatim as the inner map key, not recomputed —, the same tags, sources, counter
   and gauge values (gauge and timer values bit for bit: NaN, infinities, -0 included), timer
   values in order, sampled counts, set members; every timestamp is replaced by the receive time.
   Hypothesis: sampled counts are doubles (Model/MetricMap.v carries them as exact rationals). *)
Theorem C14_metrics_roundtrip :
  forall (m : mmap) (now : Z),
    (forall k t, timers m !! k = Some t -> Qc_of_bits (bits_of_Qc (t_samp t)) = t_samp t) ->
    from_pb now (to_pb m) =
      MkMap ((fun c => MkCounter (c_val c) now (c_src c) (c_tags c)) <$> counters m)
            ((fun t => MkTimer (t_vals t) (t_samp t) now (t_src t) (t_tags t)) <$> timers m)
            ((fun g => MkGauge (g_val g) now (g_src g) (g_tags g)) <$> gauges m)
            ((fun s => MkSet (s_vals s) now (s_src s) (s_tags s)) <$> sets m).
Proof. exact metrics_roundtrip. Qed.
Print Assumptions C14_metrics_roundtrip.

(* Nested maps: the sender never emits a name with an empty inner TagMap (so flattening the
   message loses nothing of what was sent) ... *)
Theorem C14_nested_maps_nonempty :
  forall (m : mmap) (name : str),
    (forall tm, pb_counters (to_pb m) !! name = Some tm -> tm <> ∅)
    /\ (forall tm, pb_gauges (to_pb m) !! name = Some tm -> tm <> ∅)
    /\ (forall tm, pb_sets (to_pb m) !! name = Some tm -> tm <> ∅)
    /\ (forall tm, pb_timers (to_pb m) !! name = Some tm -> tm <> ∅).
Proof. exact to_pb_inner_nonempty. Qed.
Print Assumptions C14_nested_maps_nonempty.

(* ... and the order (and multiplicity) in which set members are listed — Go's map iteration
   order on the sender — does not matter to the receiver. *)
Theorem C14_set_member_order_irrelevant :
  forall (now : Z) (p q : pbmsg),
    pb_counters p = pb_counters q -> pb_gauges p = pb_gauges q -> pb_timers p = pb_timers q ->
    (forall name key, option_Forall2
        (fun a b => ps_tags a = ps_tags b /\ ps_host a = ps_host b /\ (forall x, x ∈ ps_vals a <-> x ∈ ps_vals b))
        (gmap_uncurry (pb_sets p) !! (name, key)) (gmap_uncurry (pb_sets q) !! (name, key))) ->
    from_pb now p = from_pb now q.
Proof. exact from_pb_set_order. Qed.
Print Assumptions C14_set_member_order_irrelevant.

(* Every event comes back with all fields intact (the source travels as Hostname); priority and
   alert-type bytes outside the declared constants arrive as the defaults Normal / Info. *)
Theorem C14_event_roundtrip :
  forall e : event,
    event_from_pb (event_to_pb e) =
      MkEvent (e_title e) (e_text e) (e_date e) (e_aggkey e) (e_srctype e) (e_tags e) (e_source e)
              (if (e_priority e <=? 1)%N then e_priority e else pri_normal)
              (if (e_alert e <=? 3)%N then e_alert e else alert_info)
    /\ pe_hostname (event_to_pb e) = e_source e
    /\ ((e_priority e <= 1)%N -> (e_alert e <= 3)%N -> event_from_pb (event_to_pb e) = e).
Proof. exact event_roundtrip_full. Qed.
Print Assumptions C14_event_roundtrip.

(* For every configuration the constructor accepts — compress flag, compression-type string,
   level 0..9 — the Content-Encoding header the sender sets selects, in the receiver's readBody,
   exactly the inverse of the codec the sender applied ("deflate" <-> zlib, "lz4" <-> lz4,
   "identity" <-> none), so the receiver recovers the serialised message.  The codecs are
   arbitrary functions satisfying the round-trip law (library behaviour). *)
Theorem C14_encoding_agreement :
  forall (compress : codec -> Z -> str -> str) (decompress : codec -> str -> option str),
    (forall k level raw, 0 <= level <= 9 -> decompress k (compress k level raw) = Some raw) ->
    forall (flag : bool) (ctype : str) (level : Z) (c : fwd_cfg) (raw : str),
      new_forwarder flag ctype level = Some c ->
      let '(hdr, body) := construct_post compress c raw in
      hdr = (if flag && negb (str_eqb ctype (bs "none"))
             then (if str_eqb ctype (bs "lz4") then bs "lz4" else bs "deflate")
             else bs "identity")
      /\ receiver_codec hdr = Some (sender_codec c)
      /\ body = match sender_codec c with Some k => compress k level raw | None => raw end
      /\ read_body decompress hdr (Some body) = inl raw.
Proof. exact encoding_agreement_full. Qed.
Print Assumptions C14_encoding_agreement.

(* The two halves composed: whatever request the forwarder builds for a map / an event is
   answered 202 and dispatches exactly the map (re-timed) / the event (enums normalised). *)
Theorem C14_end_to_end :
  forall (compress : codec -> Z -> str -> str) (decompress : codec -> str -> option str)
         (ser : pbmsg -> option str) (deser : str -> option pbmsg)
         (ser_e : pb_event -> option str) (deser_e : str -> option pb_event),
    (forall k level raw, 0 <= level <= 9 -> decompress k (compress k level raw) = Some raw) ->
    (forall p raw, ser p = Some raw -> deser raw = Some p) ->
    (forall p raw, ser_e p = Some raw -> deser_e raw = Some p) ->
    forall (flag : bool) (ctype : str) (level : Z) (c : fwd_cfg) (hdr body : str),
      new_forwarder flag ctype level = Some c ->
      (forall (m : mmap) (now : Z),
          (forall k t, timers m !! k = Some t -> Qc_of_bits (bits_of_Qc (t_samp t)) = t_samp t) ->
          post_metrics compress ser c m = Some (hdr, body) ->
          metric_handler decompress deser now hdr (Some body) = (202, Some (retime now m)))
      /\ (forall e : event,
          post_event compress ser_e c e = Some (hdr, body) ->
          event_handler decompress deser_e hdr (Some body) = (202, Some (normalise_event e))).
Proof. exact end_to_end_full. Qed.
Print Assumptions C14_end_to_end.

(* A body that cannot be read, has an unknown Content-Encoding, cannot be decompressed or
   cannot be decoded is answered 400 / 500 and dispatches nothing; 202 is answered only with
   exactly one dispatch of the decoded message.  No assumption on the codecs. *)
Theorem C14_bad_body :
  forall (decompress : codec -> str -> option str) (deser : str -> option pbmsg)
         (now : Z) (enc : str) (body : option str),
    let '(st, out) := metric_handler decompress deser now enc body in
    (st = 202 /\ exists b raw p, body = Some b /\ read_body decompress enc body = inl raw
                                 /\ deser raw = Some p /\ out = Some (from_pb now p))
    \/ ((st = 400 \/ st = 500) /\ out = None
        /\ (body = None \/ receiver_codec enc = None
            \/ (exists b k, body = Some b /\ receiver_codec enc = Some (Some k) /\ decompress k b = None)
            \/ (exists raw, read_body decompress enc body = inl raw /\ deser raw = None))).
Proof. exact bad_body_metrics. Qed.
Print Assumptions C14_bad_body.

(* GROWTH.  The protobuf wire format of pb/gostatsd.proto (Model/PbWire.v: varints, tags,
   fixed64 doubles, length-delimited strings and sub-messages, map entries, packed repeated
   doubles) round-trips on every well-formed message — values within their Go types, strings
   valid UTF-8, payloads shorter than 2^64 bytes ([msg_ok] / [event_ok]) —; map entries travel
   as lists in wire order and [pb_of_wire] rebuilds the Go maps without loss; the parser's fuel
   (the input length) is never the reason for a failure. *)
Theorem C14_wire_roundtrip :
  (forall w : wmsg, msg_ok w = true -> decode_msg (encode_msg w) = Some w)
  /\ (forall e : pb_event, event_ok e = true -> decode_event (encode_event e) = Some e)
  /\ (forall p : pbmsg, pb_of_wire (wire_of_pb p) = p)
  /\ (forall (b : str) (k : nat), parse_fuel (length b + k) b = parse b).
Proof. exact wire_roundtrip_full. Qed.
Print Assumptions C14_wire_roundtrip.

(* C14_end_to_end with the serialisation no longer assumed: pb_marshal / pb_unmarshal are the
   byte-level codec above (Marshal = None exactly when the message is not well-formed, e.g. a
   string that is not UTF-8: then nothing is sent — finding D8 of C15).  Only the compression
   codecs remain hypothetical. *)
Theorem C14_end_to_end_bytes :
  forall (compress : codec -> Z -> str -> str) (decompress : codec -> str -> option str),
    (forall k level raw, 0 <= level <= 9 -> decompress k (compress k level raw) = Some raw) ->
    forall (flag : bool) (ctype : str) (level : Z) (c : fwd_cfg) (hdr body : str),
      new_forwarder flag ctype level = Some c ->
      (forall (m : mmap) (now : Z),
          (forall k t, timers m !! k = Some t -> Qc_of_bits (bits_of_Qc (t_samp t)) = t_samp t) ->
          post_metrics compress pb_marshal c m = Some (hdr, body) ->
          metric_handler decompress pb_unmarshal now hdr (Some body) = (202, Some (retime now m)))
      /\ (forall e : event,
          post_event compress event_marshal c e = Some (hdr, body) ->
          event_handler decompress event_unmarshal hdr (Some body) = (202, Some (normalise_event e))).
Proof. exact end_to_end_bytes. Qed.
Print Assumptions C14_end_to_end_bytes.
