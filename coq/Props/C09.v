(* C09: series persist until their type's expiry interval elapses, then disappear.

   Vocabulary (Model/Expiry.v): a history is a list of [OData ds] (a batch of datapoints, merged
   into the aggregate) and [OFlush now dt] (Flush; Process; Reset with the clock at [now]);
   [times h] lists the datapoint timestamps and flush times in order and [monotone h] says they
   are non-decreasing; [flush_at cfg lim h dt] is the map handed to the backends by a flush that
   follows [h]; [reported ty k r] says series [k] of type [ty] is in it; [of_series ty k d] says
   datapoint [d] belongs to that series; [mentions ty k o] says operation [o] carries data of
   it; [interval cfg ty] is the expiry interval of the type, any integer (ns). *)
From stdpp Require Import gmap.
From Coq Require Import QArith Qcanon.
From GS Require Import Base.Bytes Model.Lexer Model.Series Model.MetricMap Model.Expiry
  Proofs.Expiry Proofs.ExpiryHistory Proofs.ExpiryValues.
Local Open Scope Z_scope.

(* Let [d], at time T = dp_ts d, be the last datapoint of a series: it is the last of the series
   in its batch, and [h1], the history since, carries no data of the series.  Then the flush at
   time [f] that follows reports the series iff no earlier flush f' since the data had
   i <> 0 /\ f' - T > i.  Any four intervals, any history with non-decreasing times. *)
Theorem C09_reported_until : forall cfg lim h0 ds1 d ds2 h1 f dt ty k,
  monotone (h0 ++ OData (ds1 ++ d :: ds2) :: h1 ++ [OFlush f dt]) ->
  of_series ty k d ->
  (forall d', In d' ds2 -> ~ of_series ty k d') ->
  (forall o, In o h1 -> ~ mentions ty k o) ->
  (reported ty k (flush_at cfg lim (h0 ++ OData (ds1 ++ d :: ds2) :: h1) dt)
   <-> forall f' dt', In (OFlush f' dt') h1 ->
         ~ (interval cfg ty <> 0 /\ f' - dp_ts d > interval cfg ty)).
Proof. exact reported_until. Qed.
Print Assumptions C09_reported_until.

(* ... which unfolds to the three cases of the statement.  i > 0: reported as long as every
   earlier flush was at most i after T, i.e. up to and including the first flush more than i
   after T; i = 0: for ever; i < 0: only by the first flush after the data. *)
Theorem C09_reported_until_cases : forall cfg lim h0 ds1 d ds2 h1 f dt ty k,
  monotone (h0 ++ OData (ds1 ++ d :: ds2) :: h1 ++ [OFlush f dt]) ->
  of_series ty k d ->
  (forall d', In d' ds2 -> ~ of_series ty k d') ->
  (forall o, In o h1 -> ~ mentions ty k o) ->
  let i := interval cfg ty in
  let T := dp_ts d in
  let R := reported ty k (flush_at cfg lim (h0 ++ OData (ds1 ++ d :: ds2) :: h1) dt) in
  (i > 0 -> (R <-> forall f' dt', In (OFlush f' dt') h1 -> f' <= T + i)) /\
  (i = 0 -> R) /\
  (i < 0 -> (R <-> forall f' dt', ~ In (OFlush f' dt') h1)).
Proof. exact reported_until_cases. Qed.
Print Assumptions C09_reported_until_cases.

(* A series that a flush does not report stays unreported by every later flush until an
   operation carries new data for it (any history, any intervals). *)
Theorem C09_never_after : forall cfg lim hA f1 dt1 hB dt ty k,
  (forall o, In o hB -> ~ mentions ty k o) ->
  ~ reported ty k (flush_at cfg lim hA dt1) ->
  ~ reported ty k (flush_at cfg lim (hA ++ OFlush f1 dt1 :: hB) dt).
Proof. exact never_after. Qed.
Print Assumptions C09_never_after.

(* A series is reported only if some operation of the history carried data for it. *)
Theorem C09_only_with_data : forall cfg lim h dt ty k,
  (forall o, In o h -> ~ mentions ty k o) -> ~ reported ty k (flush_at cfg lim h dt).
Proof. exact only_with_data. Qed.
Print Assumptions C09_only_with_data.

(* A series without data since the previous flush, if reported at all, is reported idle: counter
   0 with rate 0, empty set, timer without values, count 0, no percentiles and an all-zero +Inf
   bucket; a gauge with the value and time of a datapoint that has the newest timestamp of the
   series (equal timestamps are the only freedom, as in C07). *)
Theorem C09_idle_values : forall cfg lim hA f1 dt1 hB dt ty k,
  (forall o, In o hB -> ~ mentions ty k o) ->
  let r := flush_at cfg lim (hA ++ OFlush f1 dt1 :: hB) dt in
  match ty with
  | Counter => forall c, r_counters r !! k = Some c -> rc_val c = 0 /\ rc_per_second c = 0%Qc
  | MSet => forall s, r_sets r !! k = Some s -> rs_vals s = ∅
  | Timer => forall t, r_timers r !! k = Some t ->
      rt_vals t = [] /\ rt_count t = 0 /\ rt_samp t = 0%Qc /\ rt_per_second t = 0%Qc /\
      rt_has_pct t = false /\ (rt_hist_inf t = None \/ rt_hist_inf t = Some 0)
  | Gauge => monotone (hA ++ OFlush f1 dt1 :: hB) -> forall g, r_gauges r !! k = Some g ->
      exists d, In d (datapoints hA) /\ of_series Gauge k d /\ rg_val g = dp_value d /\ rg_ts g = dp_ts d /\
                forall d', In d' (datapoints hA) -> of_series Gauge k d' -> dp_ts d' <= dp_ts d
  end.
Proof. exact idle_values. Qed.
Print Assumptions C09_idle_values.

(* At every flush of a history with non-decreasing times a reported gauge has the value of a
   datapoint of its series with the newest timestamp. *)
Theorem C09_gauge_latest : forall cfg lim h dt k g,
  monotone h ->
  r_gauges (flush_at cfg lim h dt) !! k = Some g ->
  exists d, In d (datapoints h) /\ of_series Gauge k d /\ rg_val g = dp_value d /\ rg_ts g = dp_ts d /\
            forall d', In d' (datapoints h) -> of_series Gauge k d' -> dp_ts d' <= dp_ts d.
Proof. exact gauge_latest. Qed.
Print Assumptions C09_gauge_latest.

(* Each type obeys its own interval: two configurations that agree on the interval of a type
   report exactly the same series and values of that type at every flush of every history,
   whatever the other three intervals are. *)
Theorem C09_per_type : forall cfg cfg' lim h dt ty,
  interval cfg ty = interval cfg' ty ->
  match ty with
  | Counter => r_counters (flush_at cfg lim h dt) = r_counters (flush_at cfg' lim h dt)
  | Gauge => r_gauges (flush_at cfg lim h dt) = r_gauges (flush_at cfg' lim h dt)
  | Timer => r_timers (flush_at cfg lim h dt) = r_timers (flush_at cfg' lim h dt)
  | MSet => r_sets (flush_at cfg lim h dt) = r_sets (flush_at cfg' lim h dt)
  end.
Proof. exact per_type. Qed.
Print Assumptions C09_per_type.

(* ... and the interval of a type is expiry-interval-<type> if given, else expiry-interval if
   given, else 5 minutes (cmd/gostatsd/main.go). *)
Theorem C09_config_precedence : forall p ty,
  interval (resolve p) ty =
  match (match ty with Counter => p_counter p | Gauge => p_gauge p | MSet => p_set p | Timer => p_timer p end),
        p_all p with
  | Some v, _ => v
  | None, Some v => v
  | None, None => 300 * 10 ^ 9
  end.
Proof. exact resolve_precedence. Qed.
Print Assumptions C09_config_precedence.

(* The list of reports the correspondence compares, [reports cfg lim h], consists of exactly
   these maps: one [flush_at] per flush, taken on the history before it. *)
Theorem C09_reports_are_flushes : forall cfg lim h,
  (forall now dt, reports cfg lim (h ++ [OFlush now dt]) = reports cfg lim h ++ [flush_at cfg lim h dt]) /\
  (forall ds, reports cfg lim (h ++ [OData ds]) = reports cfg lim h) /\
  reports cfg lim [] = [].
Proof. exact reports_spec. Qed.
Print Assumptions C09_reports_are_flushes.
