(* C03 — no network input can crash ingestion.

   "No byte sequence received as a datagram, and no request body sent to the HTTP ingestion
   endpoints under any content-encoding, can terminate or wedge the process: each line is either
   parsed or counted as a bad line, each request is answered with an HTTP status, and processing
   of later input continues."

   Models: Model/Lexer.v (every Go index / slice expression is an explicit [OPanic]),
   Model/DatagramLines.v (the line loop and the three counters of handleDatagram),
   Model/WireStatus.v (readBody / MetricHandler / EventHandler as a trace of actions),
   Model/LexerLegacy.v (the event-body test before the repair of defect D1),
   Model/Receiver.v (DatagramReceiver.Receive as an LTS over ReadBatch returns and DoneFunc calls).
   [pf] is strconv.ParseFloat, an arbitrary function; [wire_oracle] is what the body reader, the
   decompressors and proto.Unmarshal do with the request at hand, arbitrary as well. *)
From GS Require Import Base.Bytes Model.Lexer Model.LexerLegacy Model.DatagramLines Model.WireStatus
  Model.Receiver Proofs.LexerSafety Proofs.DatagramLines Proofs.WireStatus Proofs.Receiver.
Local Open Scope N_scope.

(* No byte string — NUL bytes included, declared event lengths anywhere in [0, 2^64) and
   beyond, any length of line — makes the line lexer panic. *)
Theorem C03_lexer_never_panics :
  forall (pf : str -> pfres) (ns l : str), lex pf ns l <> OPanic.
Proof. exact lex_never_panics. Qed.
Print Assumptions C03_lexer_never_panics.

(* ... so every line is either parsed (a metric or an event) or rejected (a bad line). *)
Theorem C03_line_parsed_or_bad :
  forall (pf : str -> pfres) (ns l : str),
    (exists m, lex pf ns l = OMetric m) \/ (exists e, lex pf ns l = OEvent e)
    \/ (exists k, lex pf ns l = OReject k).
Proof. exact lex_parsed_or_bad. Qed.
Print Assumptions C03_line_parsed_or_bad.

(* Every byte string as a datagram is processed to its end: the parser does not panic, each
   line is counted in exactly one of metrics_received / events_received / bad_lines_seen
   according to its own lexer outcome, and the three counters add up to the number of lines
   (one per newline, plus one for a non-empty remainder). *)
Theorem C03_datagram_total :
  forall (pf : str -> pfres) (ns msg : str),
  exists m e b,
    parse_datagram pf ns msg = DCounts m e b
    /\ m = count_where (fun l => is_metric (lex pf ns l)) (lines msg)
    /\ e = count_where (fun l => is_event (lex pf ns l)) (lines msg)
    /\ b = count_where (fun l => is_reject (lex pf ns l)) (lines msg)
    /\ m + e + b = count_nl msg + (if open_tail msg then 1 else 0).
Proof. exact parse_datagram_total. Qed.
Print Assumptions C03_datagram_total.

(* Processing of later input continues: a sequence of datagrams (each an arbitrary byte string)
   is processed to its end, and the accumulated counters account for every line of every
   datagram ([total_lines] = sum over the datagrams of newlines + non-empty remainders). *)
Theorem C03_later_datagrams_processed :
  forall (pf : str -> pfres) (ns : str) (msgs : list str),
  exists m e b,
    parse_stream pf ns msgs 0 0 0 = DCounts m e b /\ m + e + b = total_lines msgs.
Proof. exact parse_stream_total0. Qed.
Print Assumptions C03_later_datagrams_processed.

(* ---- the socket-facing loop, DatagramReceiver.Receive (Model/Receiver.v) ----
   [ls] is any sequence of ReadBatch returns (error, or up to batch-size datagrams of 0..65535
   bytes each with the address they came from) interleaved with DoneFunc calls of the parser;
   [receive c B ls = Some st] says that [ls] is a run (every DoneFunc belongs to a datagram
   that is still pending).  [current u] is the code as it is, [u] = the socket is a unix socket. *)

(* The receiver never panics, and no nil slot ever reaches the parser: every batch it hands
   over can be dereferenced slot by slot (zero-length datagrams and read errors included). *)
Theorem C03_receiver_never_panics :
  forall (u : bool) (B : nat) (ls : list label) (st : status),
    Forall (wf_label B) ls ->
    receive (current u) B ls = Some st ->
    exists s, st = Running s /\ forall bt, In bt (r_handed s) -> exists ds, deref bt = Some ds.
Proof. exact receiver_never_panics. Qed.
Print Assumptions C03_receiver_never_panics.

(* The batches handed to the parser are exactly the successful reads, one batch per read, in
   order, zero-length datagrams included; each datagram carries the bytes read, the sender's
   IP (getIP of its address; the unknown source on a unix socket) and the time of its read. *)
Theorem C03_receiver_conserves :
  forall (u : bool) (B : nat) (ls : list label) (st : status),
    Forall (wf_label B) ls ->
    receive (current u) B ls = Some st ->
    exists s dss,
      st = Running s
      /\ r_handed s = map (map Some) dss
      /\ map (map seen) dss = expected (current u) ls.
Proof. exact receiver_safe_and_conserving. Qed.
Print Assumptions C03_receiver_conserves.

(* Receiver and parser composed are total: for every script of ReadBatch results the process
   survives and the counters account for every line of every datagram that was read. *)
Theorem C03_receiver_parser_total :
  forall (pf : str -> pfres) (ns : str) (u : bool) (B : nat) (script : list read_result),
    Forall (wf_read B) script ->
    exists m e b,
      ingest pf ns (current u) B script = DCounts m e b
      /\ m + e + b = total_lines (flat_map read_data script).
Proof. exact ingest_total. Qed.
Print Assumptions C03_receiver_parser_total.

(* No receive buffer is ever in two places: not in two slots, not in a slot while a datagram
   whose DoneFunc has not run still references it, not in the pool while referenced. *)
Theorem C03_receiver_buffers_disjoint :
  forall (c : config) (B : nat) (ls : list label) (s : rstate),
    receive c B ls = Some (Running s) ->
    NoDup (r_slots s ++ r_outst s ++ p_free (r_pool s)).
Proof. exact receiver_buffers_disjoint. Qed.
Print Assumptions C03_receiver_buffers_disjoint.

(* The seeded variant (`if nbytes == 0 { continue }` with the pre-sized batch slice) is refuted:
   one zero-length datagram leaves a nil slot and the parser's dereference panics, while the
   code as it is counts zero lines. *)
Theorem C03_receiver_legacy_refuted :
  exists script, Forall (wf_read 1) script
    /\ forall pf ns u, ingest pf ns (seeded u) 1 script = DPanic
                       /\ ingest pf ns (current u) 1 script = DCounts 0 0 0.
Proof. exact seeded_refuted. Qed.
Print Assumptions C03_receiver_legacy_refuted.

(* The pre-fix lexer (length test in uint32, /repo before commit 409dd76) is refuted: there is
   a line — `_e{5,4294967290}:abcde|xyz` — on which it panics, both in the frozen model's
   legacy variant and in the position-exact uint32 model, and which the current lexer rejects. *)
Theorem C03_legacy_refuted :
  exists l : str, forall (pf : str -> pfres) (ns : str),
    lex_legacy_u32 pf ns l = OPanic /\ lex_legacy pf ns l = OPanic
    /\ lex pf ns l = OReject ENotEnoughData.
Proof. exact legacy_refuted. Qed.
Print Assumptions C03_legacy_refuted.

(* Every request to /v2/raw or /v2/event, under every Content-Encoding header value [h] and
   every behaviour [o] of the body reader, the decompressors and the protobuf decoder, is
   answered with exactly one status; the status is 202 and the payload is dispatched exactly
   once if every stage on the path selected by the header succeeds; otherwise the status is a
   4xx/5xx and nothing is dispatched. *)
Theorem C03_http_status :
  forall (ep : endpoint) (h : str) (o : wire_oracle),
  exists code,
    statuses (handle ep h o) = [code]
    /\ (all_stages_ok h o -> code = status_accepted /\ dispatches (handle ep h o) = 1)
    /\ (~ all_stages_ok h o -> is_4xx_5xx code /\ dispatches (handle ep h o) = 0).
Proof. exact http_status. Qed.
Print Assumptions C03_http_status.

Theorem C03_http_accepted_iff_all_stages_ok :
  forall (ep : endpoint) (h : str) (o : wire_oracle),
    In (WriteHeader status_accepted) (handle ep h o) <-> all_stages_ok h o.
Proof. exact http_accepted_iff. Qed.
Print Assumptions C03_http_accepted_iff_all_stages_ok.

Theorem C03_http_dispatch_iff_all_stages_ok :
  forall (ep : endpoint) (h : str) (o : wire_oracle),
    In Dispatch (handle ep h o) <-> all_stages_ok h o.
Proof. exact http_dispatch_iff. Qed.
Print Assumptions C03_http_dispatch_iff_all_stages_ok.
