(* C15: the forwarder delivers every batch exactly once or reports it dropped.
   Models: Model/Consolidator.v (metric_consolidator.go), Model/Forwarder.v
   (handler_http_forwarder_v2.go, metric_map.go SplitByTags). *)
From Coq Require Import List Arith.
From GS Require Import Base.LTS Model.Consolidator Proofs.Consolidator.
Import ListNotations.

(* Between any two steps of any interleaving of dispatchers and the flusher, the k slots are all
   accounted for: in the channel, held by a dispatcher that is merging, collected by Drain, or
   still owed to the channel by Fill.  Hence Drain returns only when no merge is in flight. *)
Theorem C15_slot_tokens : forall (M : Type) (mempty : M) (mmerge : M -> M -> M) (k : nat) ls s,
  run (step mempty mmerge k) (init mempty k) ls = Some s ->
  length (chan s) + length (held s) + owed (fl s) = k.
Proof. exact (@slot_tokens). Qed.
Print Assumptions C15_slot_tokens.
