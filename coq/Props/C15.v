(* C15: the forwarder delivers every batch exactly once or reports it dropped.

   Models (definitions only): Model/Consolidator.v = metric_consolidator.go as an LTS over the atomic
   channel operations of dispatchers and the flusher; Model/Forwarder.v = metric_map.go
   tagsMatch/SplitByTags, and handler_http_forwarder_v2.go's Run loop, semaphores, post/retry loop and
   counters.  Every theorem quantifies over all label sequences [ls] (= all interleavings and all
   fault scripts: the outcome of an attempt and the decision of the backoff policy are labels) and
   over all slot counts, semaphore sizes, header names and contents.  Proofs: Proofs/Consolidator.v,
   Proofs/Forwarder.v. *)
From Coq Require Import List Arith Permutation.
From GS Require Import Base.Bytes Base.LTS Model.Lexer Model.Series Model.MetricMap.
From GS Require Import Model.Content Model.Wire Model.PbWire.
From GS Require Import Model.Consolidator Model.Forwarder Proofs.Consolidator Proofs.Forwarder.
From GS Require Import Model.ForwarderWire Proofs.ForwarderWire.
From stdpp Require Import gmap.
Import ListNotations.

(* ---- the consolidator ---------------------------------------------------------------------- *)

(* In every reachable state the k slots are all accounted for: in the channel, held by a dispatcher
   between its receive and its send, collected by Drain, or still owed to the channel by Fill.
   So Drain's k-th receive succeeds only when no merge is in flight, and (second theorem) neither a
   dispatcher's send nor Fill's ever finds the channel full. *)
Theorem C15_slot_tokens : forall (M : Type) (mempty : M) (mmerge : M -> M -> M) (k : nat) ls s,
  run (Consolidator.step mempty mmerge k) (Consolidator.init mempty k) ls = Some s ->
  length (chan s) + length (held s) + owed (fl s) = k.
Proof. exact (@slot_tokens). Qed.
Print Assumptions C15_slot_tokens.

Theorem C15_sends_never_block : forall (M : Type) (mempty : M) (mmerge : M -> M -> M) (k : nat) ls s,
  run (Consolidator.step mempty mmerge k) (Consolidator.init mempty k) ls = Some s ->
  (forall d, Consolidator.lookup d (held s) <> None -> Consolidator.step mempty mmerge k s (Put d) <> None)
  /\ (forall n, fl s = Filling (S n) -> Consolidator.step mempty mmerge k s FillOne <> None).
Proof. exact (@sends_never_block). Qed.
Print Assumptions C15_sends_never_block.

(* Batches are numbered in the order of their Take.  Ghost stamps of batch i: put_stamp s i = Some e
   and put_emitted s i = Some pe: it was sent back (its dispatch returns after that) when e DrainStarts
   and pe DrainEmits had happened; take_stamp s i = Some t: it got its slot when t flushes had been
   emitted; flush_ids s f = the batches in the maps of the f-th emission.
   1. Every batch is in exactly one place, once: with its dispatcher (not yet merged), in a slot that is
      still inside the consolidator, or in one emitted flush.
   2. The batches that were sent back are exactly those in slots or flushes.
   3. Nothing is left behind: a batch sent back before the g-th DrainStart (e < g) is in a flush as
      soon as g flushes have been emitted; more precisely
   4. a batch is carried by the first emission after its Put (f = pe + 1), and
   5. it got its slot before that emission (t < f) and was sent back after the start of flush f-1
      (f <= e+1): a dispatch that returned before flush f began and was not flushed earlier is in flush
      f; one concurrent with flush f is in f or in f+1 (e <= f); never in two, never in none. *)
Theorem C15_flush_contains : forall (M : Type) (mempty : M) (mmerge : M -> M -> M) (k : nat) ls s,
  run (Consolidator.step mempty mmerge k) (Consolidator.init mempty k) ls = Some s ->
  List.NoDup (pending_ids s ++ ids_of (resident s) ++ flushed_ids s)
  /\ (forall i, i < next_id s <-> In i (pending_ids s ++ ids_of (resident s) ++ flushed_ids s))
  /\ (forall i, put_stamp s i <> None <-> In i (ids_of (resident s) ++ flushed_ids s))
  /\ (forall i e, put_stamp s i = Some e -> e < length (flushes s) -> In i (flushed_ids s))
  /\ (forall i pe, put_emitted s i = Some pe -> pe < length (flushes s) -> In i (flush_ids s (S pe)))
  /\ (forall i f, In i (flush_ids s f) ->
        exists e pe t, put_stamp s i = Some e /\ put_emitted s i = Some pe /\ take_stamp s i = Some t
                       /\ f = S pe /\ t < f /\ e <= f <= S e).
Proof. exact (@flush_contains). Qed.
Print Assumptions C15_flush_contains.

(* Conservation of contents.  For any measure [abs] of a map's contents that merging adds up
   (a multiset, as a list up to permutation: datapoint ids; or Model.MetricMap.mmap's counter totals,
   timer value multisets, set members), every map -- still inside or already emitted -- holds exactly
   the batches whose numbers it carries: with C15_flush_contains, each batch's contents are in exactly
   one emitted map or still inside, never in two, never in none. *)
Theorem C15_conservation : forall (M X : Type) (mempty : M) (mmerge : M -> M -> M) (k : nat) (abs : M -> list X),
  abs mempty = [] ->
  (forall a b, Permutation (abs (mmerge a b)) (abs a ++ abs b)) ->
  forall ls s, run (Consolidator.step mempty mmerge k) (Consolidator.init mempty k) ls = Some s ->
  forall sl, In sl (resident s ++ concat (flushes s)) ->
    Permutation (abs (s_map sl))
                (concat (map (fun i => match batch_of s i with Some b => abs b | None => [] end) (s_ids sl))).
Proof. exact (@slot_contents). Qed.
Print Assumptions C15_conservation.

(* ---- splitting by dynamic-header tags ------------------------------------------------------- *)

(* SplitByTags is a partition: part keys are distinct; the part with key pk holds exactly the series
   of m (of every type, with unchanged values) whose own tags key yields pk under tagsMatch, and
   nothing else; every series of m has its part.  Hence each series is in exactly one part, the one
   whose key (from which constructPost derives the headers) comes from its own tags. *)
Theorem C15_split_partition : forall (names : list str) (m : mmap),
  NoDup (split_by_tags names m).*1
  /\ (forall pk p ty k, (pk, p) ∈ split_by_tags names m ->
        series_at p ty k = if decide (part_key names k = pk) then series_at m ty k else None)
  /\ (forall ty k, is_Some (series_at m ty k) -> exists p, (part_key names k, p) ∈ split_by_tags names m).
Proof. exact split_partition. Qed.
Print Assumptions C15_split_partition.

(* ---- one request ----------------------------------------------------------------------------- *)

(* For every fault script (sequence of Construct / Attempt outcome / Backoff / Stop / CtxDone labels
   the post loop accepts): every attempt but the last one failed -- attempt n+1 happens only after
   attempt n failed and nothing follows a success; the request is Sent iff its last attempt
   succeeded; it has a final status iff it has ended; sent / dropped / invalid are counted exactly
   once, with that status; dropped = number of times the backoff policy said Stop, retried = number
   of times it did not; created = sent + dropped + abandoned + in flight; only a request under a
   cancellable context (the start-up nop) can be abandoned. *)
Theorem C15_retry_discipline : forall (cancellable : bool) (ls : list plabel) (s : pstate),
  run (post_step cancellable) pinit ls = Some s ->
  let k := p_ctr s in
  Forall (eq Failed) (tl (p_hist s))
  /\ (p_status s = SSent <-> head (p_hist s) = Some Ok2xx)
  /\ (p_status s <> SNone <-> p_phase s = PEnd)
  /\ n_sent k = (match p_status s with SSent => 1 | _ => 0 end)
  /\ n_dropped k = (match p_status s with SDropped => 1 | _ => 0 end)
  /\ n_invalid k = (match p_status s with SInvalid => 1 | _ => 0 end)
  /\ n_created k = n_sent k + n_dropped k + (match p_status s with SAbandoned => 1 | _ => 0 end) + in_flight s
  /\ n_retried k + n_dropped k + (match p_phase s with PFailed => 1 | _ => 0 end) = failures (p_hist s)
  /\ n_dropped k = count_label is_stop ls
  /\ n_retried k = count_label is_backoff ls
  /\ (p_status s = SAbandoned -> cancellable = true).
Proof. exact retry_discipline. Qed.
Print Assumptions C15_retry_discipline.

(* ---- the handler ------------------------------------------------------------------------------ *)

(* Semaphores: free tokens + holders = capacity, always (so a release never blocks); when nothing
   is running every token of both semaphores is back. *)
Theorem C15_sem_balance : forall (cm mr : nat) (dyn : list str) (utf8ok : str -> bool) ls s,
  run (hstep cm mr dyn utf8ok) (hinit cm mr) ls = Some s ->
  merge_free s + merging s = cm /\ req_free s + holding_req s = mr
  /\ (at_rest s = true -> merge_free s = cm /\ req_free s = mr).
Proof. exact sem_balance. Qed.
Print Assumptions C15_sem_balance.

(* Every item read from the sink is in exactly one place: the flush waiting for a merging token, a
   flush goroutine (merging, or in a part not yet posted), or the part of exactly one request.  All
   items of a request route to that request's key (from which its headers are derived), requests
   other than the nop are non-empty, and each request's state is a state of the post LTS (so
   C15_retry_discipline applies to it).  At rest every item is in a request and every request has
   ended. *)
Theorem C15_handler_delivery : forall (cm mr : nat) (dyn : list str) (utf8ok : str -> bool) ls s,
  run (hstep cm mr dyn utf8ok) (hinit cm mr) ls = Some s ->
  Permutation (items_received s) (items_held s)
  /\ Forall (fun r => Forall (fun it => item_pkey dyn it = r_key r) (r_part r)
                      /\ (r_tok r = true -> r_part r <> [])
                      /\ exists pls, run (post_step (negb (r_tok r))) pinit pls = Some (r_post r)) (reqs s)
  /\ (at_rest s = true ->
        Permutation (items_received s) (concat (map r_part (reqs s)))
        /\ Forall (fun r => p_phase (r_post r) = PEnd) (reqs s)).
Proof. exact handler_delivery. Qed.
Print Assumptions C15_handler_delivery.

(* Isolation between requests: whether a request is Invalid depends on its own part only -- it is
   Invalid iff its own part contains a string the serialiser rejects; a part whose strings are all
   valid UTF-8 is always created, whatever the other parts of the flush contain. *)
Theorem C15_isolation_valid : forall (cm mr : nat) (dyn : list str) (utf8ok : str -> bool) ls s r,
  run (hstep cm mr dyn utf8ok) (hinit cm mr) ls = Some s -> In r (reqs s) ->
  p_phase (r_post r) <> PNew ->
  (p_status (r_post r) = SInvalid <-> serialisable utf8ok (r_part r) = false)
  /\ (serialisable utf8ok (r_part r) = true -> n_created (p_ctr (r_post r)) = 1 /\ n_invalid (p_ctr (r_post r)) = 0).
Proof. exact isolation_valid. Qed.
Print Assumptions C15_isolation_valid.

(* ... but not between clients (known finding D8): the property's "one client's datapoints never cause
   another client's datapoints in the same flush to be lost" is refuted on the model.  d8_x is a valid
   datapoint of one client, d8_y a datapoint of another client with the tag 0xFF; one flush merges them
   into one part, whose request is Invalid: d8_x is never sent and is counted only as "invalid". *)
Theorem C15_isolation_refuted_D8 :
  exists s r, run (hstep 1 1 [] d8_utf8) (hinit 1 1) d8_run = Some s
    /\ In r (reqs s) /\ In d8_x (r_part r) /\ item_ok d8_utf8 d8_x = true
    /\ p_status (r_post r) = SInvalid /\ n_created (p_ctr (r_post r)) = 0
    /\ at_rest s = true /\ hcounters s = Ctr 1 1 0 0 1.
Proof. exact isolation_refuted_D8. Qed.
Print Assumptions C15_isolation_refuted_D8.

(* ---- the retry window ------------------------------------------------------------------------- *)

(* C15_retry_discipline with the window explicit.  tstep = the post loop with clock readings as label
   arguments (any script of times); stop_allowed w e = the vendored cenkalti/backoff v2.2.1 rule
   `MaxElapsedTime != 0 && elapsed > MaxElapsedTime` (w = -1, "retries disabled": every elapsed time
   >= 0 stops, so the first failure is final).  Erasing the times gives a run of post_step (so
   C15_retry_discipline holds for t_p s), and a body is given up only by a NextBackOff call whose
   elapsed time, measured from the start of that request's own post loop, exceeds the window. *)
Theorem C15_retry_window : forall (cancellable : bool) (w hstart : Z) (ls : list tlabel) (s : tstate),
  run (tstep false cancellable w hstart) tinit ls = Some s ->
  (exists pls, run (post_step cancellable) pinit pls = Some (t_p s))
  /\ (p_status (t_p s) = SDropped ->
        exists created now, t_created s = Some created /\ t_decided s = Some now
                            /\ stop_allowed w (now - created) = true)
  /\ (p_status (t_p s) <> SDropped -> t_decided s = None).
Proof. exact retry_window. Qed.
Print Assumptions C15_retry_window.

(* The variant that builds the policy once in the constructor and copies it without Reset (tstep
   true: the elapsed time is measured from the handler's creation) violates it: handler created at 0,
   window 2 s, a request starts at 2.3 s, fails once, NextBackOff 1 ms later: given up after 1 ms of
   its window; the current code retries on the same script. *)
Theorem C15_retry_window_legacy_refuted :
  exists s created now,
    run (tstep true false 2000000000 0) tinit legacy_script = Some s
    /\ p_status (t_p s) = SDropped /\ p_hist (t_p s) = [Failed]
    /\ t_created s = Some created /\ t_decided s = Some now
    /\ stop_allowed 2000000000 (now - created) = false
    /\ exists s', run (tstep false false 2000000000 0) tinit legacy_script = Some s'
                  /\ p_phase (t_p s') = PTry /\ n_retried (p_ctr (t_p s')) = 1%nat /\ n_dropped (p_ctr (t_p s')) = 0%nat.
Proof. exact retry_window_legacy_refuted. Qed.
Print Assumptions C15_retry_window_legacy_refuted.

(* ---- flush notifications ---------------------------------------------------------------------- *)

(* notified = calls of flush.Coordinator.NotifyFlush.  In every state: calls made + calls still owed
   (one per part of a flush being merged or posted, one per request that has not returned) = the
   number of parts of all flushes read from the sink; at rest all have been made. *)
Theorem C15_notifications_count : forall (cm mr : nat) (dyn : list str) (utf8ok : str -> bool) ls s,
  run (hstep cm mr dyn utf8ok) (hinit cm mr) ls = Some s ->
  notified s + notif_pending dyn s = notif_total dyn s
  /\ (at_rest s = true -> notified s = notif_total dyn s).
Proof. exact notifications_count. Qed.
Print Assumptions C15_notifications_count.

(* Without dynamic headers a flush has exactly one part, so: exactly one NotifyFlush per flush,
   whether the flush is empty or not and whatever the upstream answers (this is what the Lambda
   extension's WaitForFlush relies on). *)
Theorem C15_one_notification_per_flush : forall (cm mr : nat) (utf8ok : str -> bool) ls s,
  run (hstep cm mr [] utf8ok) (hinit cm mr) ls = Some s ->
  at_rest s = true -> notified s = length (received s).
Proof. exact one_notification_per_flush. Qed.
Print Assumptions C15_one_notification_per_flush.

(* With dynamic headers (n :: dyn non-empty) a flush is notified once per distinct header key among
   its series: not at all when it is empty (a WaitForFlush for it never returns), several times when
   its series carry different values.  (cmd/lambda-extension/main.go sets the key "dynamic-header",
   the forwarder reads "dynamic-headers": the setting is not disabled there.) *)
Theorem C15_notifications_dynamic : forall (cm mr : nat) (n : str) (dyn : list str) (utf8ok : str -> bool) ls s,
  run (hstep cm mr (n :: dyn) utf8ok) (hinit cm mr) ls = Some s ->
  at_rest s = true ->
  notified s = list_sum (map (fun ms => length (remove_dups (item_pkey (n :: dyn) <$> concat ms))) (received s))
  /\ parts_of (n :: dyn) [] = 0.
Proof. exact notifications_dynamic. Qed.
Print Assumptions C15_notifications_dynamic.

(* ---- shutdown: the boundary of the property --------------------------------------------------- *)

(* rstep = hstep plus Run's behaviour after cancellation (Close, the token re-acquisition tail,
   return).  C15's quantifier does not include shutdown, and the property does not survive it: in
   sd_run the context is cancelled right after a flush was read from the sink; Run's tail takes the only
   request token before the flush goroutine asks for it and Run returns.  sd_x is in no request, no
   counter mentions it, and its goroutine can never post: no token is free and nobody holds one. *)
Theorem C15_shutdown_refuted :
  exists s, run (rstep 1 1 [] (fun _ => true) false) (rinit 1 1) sd_run = Some s
    /\ r_returned s = true
    /\ In sd_x (items_received (r_h s))
    /\ ~ In sd_x (concat (map r_part (reqs (r_h s))))
    /\ gors (r_h s) = [GPosting [([], [sd_x])]]
    /\ req_free (r_h s) = 0 /\ holding_req (r_h s) = 0
    /\ rstep 1 1 [] (fun _ => true) false s (RH (PartPost 0 0)) = None
    /\ hcounters (r_h s) = Ctr 1 1 0 0 0
    /\ run (rstep 1 1 [] (fun _ => true) true) (rinit 1 1) sd_run = None.
Proof. exact shutdown_refuted. Qed.
Print Assumptions C15_shutdown_refuted.

(* With the proposed repair (patched = true: the tail waits for the flush goroutines, notes/C15.md)
   shutdown is complete: once Run has returned, every item ever read from the sink is in a request
   that has ended, and nothing is running. *)
Theorem C15_shutdown_patched_complete : forall (cm mr : nat) (dyn : list str) (utf8ok : str -> bool) ls s,
  0 < mr ->
  run (rstep cm mr dyn utf8ok true) (rinit cm mr) ls = Some s -> r_returned s = true ->
  at_rest (r_h s) = true
  /\ Permutation (items_received (r_h s)) (concat (map r_part (reqs (r_h s))))
  /\ Forall (fun r => p_phase (r_post r) = PEnd) (reqs (r_h s)).
Proof. exact shutdown_patched_complete. Qed.
Print Assumptions C15_shutdown_patched_complete.

(* ---- C15 x C14 x C07: delivered = decoded by the ingesting server --------------------------- *)

(* Model/ForwarderWire.v composes: batches -> consolidator (carrier mmap, MetricMap.merge) -> DrainEmit:
   merge_maps, split_by_tags -> one request per non-empty part, body = Wire.post_metrics with the
   protobuf bytes of PbWire.pb_marshal (to_pb) -> attempts per post_step -> an attempt that reaches the
   server runs Wire.metric_handler (decompress, PbWire.pb_unmarshal, from_pb), which dispatches the
   decoded map; WLost = an attempt that fails without a dispatch.  (The handler's scheduling, hstep, only
   restricts when parts are posted: all orders are allowed here, a superset of its runs.)
   abs = C07's content (counter totals, timer value multisets, sampled counts, set members per series).
   For every run -- any interleaving of dispatchers, flushes, postings and any fault script:
   1,2  the consolidator component is a run of Model.Consolidator (C15_flush_contains applies) and every
        request a run of post_step (C15_retry_discipline applies);
   3    content is conserved: batches merged = maps still in slots + parts not yet posted + parts of requests;
   4    what the server dispatched is exactly what the requests were served;
   and when the sampled counts of the parts are doubles (C14's hypothesis; Model/MetricMap adds them exactly):
   5    a request that ended Sent was decoded upstream exactly once, as its own part with every
        timestamp replaced by the server's receive time (C14), and a request that is not Sent (in
        flight, Dropped, Invalid) was decoded never;
   6    the content decoded upstream = the content of the parts whose request ended Sent;
   7    at rest: content of batches merged = content decoded upstream + content of the parts of
        Dropped / Invalid requests (decoded nowhere) + content still in the consolidator's slots. *)
Theorem C15_delivered_content :
  forall (compress : codec -> Z -> str -> str) (decompress : codec -> str -> option str),
    (forall c level raw, (0 <= level <= 9)%Z -> decompress c (compress c level raw) = Some raw) ->
    forall (flag : bool) (ctype : str) (level : Z) (cfg : fwd_cfg),
      new_forwarder flag ctype level = Some cfg ->
      forall (dyn : list str) (k : nat) (ls : list wlabel) (s : wstate),
        run (wstep compress decompress cfg dyn k false) (winit k) ls = Some s ->
        (exists cls, run (cstep k) (cinit k) cls = Some (w_cons s))
        /\ Forall (fun r => exists pls, run (post_step false) pinit pls = Some (q_post r)) (w_reqs s)
        /\ cmap_sum (abs <$> w_put s) =
             cmap_sum (abs <$> resident_maps s) ⊕ₘ (cmap_sum (abs <$> job_parts s) ⊕ₘ cmap_sum (abs <$> req_parts s))
        /\ Permutation (w_dispatched s) (concat (map q_served (w_reqs s)))
        /\ ((forall r, In r (w_reqs s) -> samp_ok (q_part r)) ->
              Forall (fun r => (p_status (q_post r) = SSent -> exists now, q_served r = [retime now (q_part r)])
                               /\ (p_status (q_post r) <> SSent -> q_served r = [])) (w_reqs s)
              /\ cmap_sum (abs <$> w_dispatched s) = cmap_sum (abs <$> parts_with is_sent s)
              /\ (w_at_rest s = true ->
                    cmap_sum (abs <$> w_put s) =
                    cmap_sum (abs <$> w_dispatched s)
                    ⊕ₘ (cmap_sum (abs <$> parts_with (fun st => negb (is_sent st)) s)
                        ⊕ₘ cmap_sum (abs <$> resident_maps s)))).
Proof. exact delivered_content. Qed.
Print Assumptions C15_delivered_content.

(* The boundary of "exactly once upstream": a response that is lost after MetricHandler dispatched
   (WRespLost, excluded above).  The forwarder cannot tell it from any other failure and retries;
   the request ends Sent once (created 1, sent 1, retried 1) and the server has dispatched the batch
   (a counter worth 7) twice, at receive times 5 and 6.  The protocol has no request identity. *)
Theorem C15_delivered_twice_on_lost_response :
  match run (wstep id_compress id_decompress (MkCfg false CtZlib 0) [] 1 true) (winit 1) rl_run with
  | Some s =>
      map (fun r => (p_status (q_post r), p_ctr (q_post r))) (w_reqs s) = [(SSent, Ctr 1 1 1 0 0)]
      /\ map rl_counter_of (w_put s) = [Some 7%Z]
      /\ map rl_counter_of (w_dispatched s) = [Some 7%Z; Some 7%Z]
      /\ map (fun m => c_ts <$> (MetricMap.counters m !! rl_key)) (w_dispatched s) = [Some 5%Z; Some 6%Z]
  | None => False
  end
  /\ run (wstep id_compress id_decompress (MkCfg false CtZlib 0) [] 1 false) (winit 1) rl_run = None.
Proof. exact response_loss_duplicates. Qed.
Print Assumptions C15_delivered_twice_on_lost_response.
