(* C10 - static tags, tag de-duplication and filters follow the documented rules.
   Vocabulary (Model/Tags.v): [new_string_match re_ok p] parses a pattern string,
   [sm_match re_match sm s] is StringMatch.Match; [re_ok] / [re_match] stand for Go's regexp
   (Compile succeeds / MatchString) and are universally quantified. *)
From stdpp Require Import gmap.
From GS Require Import Base.Bytes Model.Series Model.MetricMap Model.Tags Proofs.Tags.

(* Patterns: exact match, prefix match with a trailing '*', "regex:" (Go regexp, substring
   match; a trailing '*' belongs to the expression), negation with a leading '!'. *)
Theorem C10_pattern_semantics_exact : forall re_ok re_match p,
  str_has_prefix [c_bang] p = false -> str_has_prefix regex_marker p = false -> ends_with_star p = false ->
  exists sm, new_string_match re_ok p = Done sm /\ forall s, sm_match re_match sm s = true <-> s = p.
Proof. exact pattern_exact. Qed.
Print Assumptions C10_pattern_semantics_exact.

Theorem C10_pattern_semantics_prefix : forall re_ok re_match q,
  str_has_prefix [c_bang] (q ++ [c_star]) = false -> str_has_prefix regex_marker (q ++ [c_star]) = false ->
  exists sm, new_string_match re_ok (q ++ [c_star]) = Done sm /\
             forall s, sm_match re_match sm s = true <-> exists r, s = q ++ r.
Proof. exact pattern_prefix. Qed.
Print Assumptions C10_pattern_semantics_prefix.

Theorem C10_pattern_semantics_regex : forall re_ok re_match q,
  (re_ok q = true -> exists sm, new_string_match re_ok (regex_marker ++ q) = Done sm /\
                                forall s, sm_match re_match sm s = re_match q s)
  /\ (re_ok q = false -> new_string_match re_ok (regex_marker ++ q) = GoPanic).
Proof. exact pattern_regex. Qed.
Print Assumptions C10_pattern_semantics_regex.

Theorem C10_pattern_semantics_inverted : forall re_ok re_match p sm,
  str_has_prefix [c_bang] p = false -> new_string_match re_ok p = Done sm ->
  exists sm', new_string_match re_ok (c_bang :: p) = Done sm' /\
              forall s, sm_match re_match sm' s = negb (sm_match re_match sm s).
Proof. exact pattern_inverted. Qed.
Print Assumptions C10_pattern_semantics_inverted.
