(* C10 - static tags, tag de-duplication and filters follow the documented rules.

   Vocabulary (Model/Tags.v, a model of pkg/statsd/handler_tags.go, filtering.go, matcher.go):
   [re_ok] / [re_match] stand for Go's regexp (Compile succeeds / MatchString) and are
   universally quantified.  [new_string_match re_ok p] parses a pattern, [sm_match re_match sm s]
   is StringMatch.Match.  [unique_tags_with_seen seen t1 t2] is the swap-with-last loop plus the
   append loop; results are [Done r], [GoPanic] or [OutOfFuel].
   [unique_filter_add re_match th name src tags] is uniqueFilterAndAddTags on a metric with the
   given name, source and tags under handler [th] (static tags [th_tags th], filters
   [th_filters th]): [Done None] = dropped, [Done (Some (src', r))] = kept with source src' and
   tags r.
   [satisfied re_match f name tags]: match-metrics of f empty or matching the name, no
   exclude-metrics pattern matching the name, match-tags empty or some pattern matching some tag.
   [removed re_match fs name tags t]: t is a tag of the metric and matches a drop-tags pattern of a
   satisfied filter of fs.
   [rekey_counter re_match th] (gauge, timer, set): the body of the Each callback: filter one
   series of the incoming map, give it its new key and its new source / sorted tags.
   [kept rk l]: the survivors of the iteration order l, re-keyed, in that order;
   [group k ks]: those that land on key k.  [dispatch_counters re_match th l] (...): the outgoing
   map built by iterating over l, any order. *)
From Coq Require Import QArith Qcanon.
From GS Require Import Base.Bytes Model.Series Model.MetricMap Model.Tags Proofs.Tags Proofs.TagsDispatch Proofs.TagsConfig.
From stdpp Require Import gmap.

(* ---- de-duplication loop -------------------------------------------------------------- *)

(* The in-place loop never indexes out of range and finishes within len(t1) iterations; its
   result is a permutation of: first occurrences of the tags of t1 not in seen, then the tags of
   t2 (static tags) that are neither in t1 nor seen; no duplicates if t2 has none. *)
Theorem C10_unique_loop_spec : forall seen t1 t2,
  exists r, unique_tags_with_seen seen t1 t2 = Done r
    /\ r ≡ₚ first_occ seen t1 ++ filter (fun t => t ∉ t1 ++ seen) t2
    /\ (NoDup t2 -> NoDup r).
Proof. exact unique_tags_with_seen_spec. Qed.
Print Assumptions C10_unique_loop_spec.

(* NewTagHandler de-duplicates the configured static tags *)
Theorem C10_constructor : forall tags filters,
  exists th, new_tag_handler tags filters = Done th /\ th_filters th = filters
    /\ NoDup (th_tags th) /\ forall x, x ∈ th_tags th <-> x ∈ tags.
Proof. exact new_tag_handler_spec. Qed.
Print Assumptions C10_constructor.

(* ---- one metric ------------------------------------------------------------------------ *)

Theorem C10_never_panics : forall re_match th name src tags,
  unique_filter_add re_match th name src tags = Done None
  \/ exists src' r, unique_filter_add re_match th name src tags = Done (Some (src', r)).
Proof. exact ufa_total. Qed.
Print Assumptions C10_never_panics.

(* dropped iff some satisfied filter has drop-metric *)
Theorem C10_dropped_iff : forall re_match th name src tags,
  unique_filter_add re_match th name src tags = Done None
  <-> exists f, f ∈ th_filters th /\ satisfied re_match f name tags /\ f_drop_metric f = true.
Proof. exact ufa_dropped_iff. Qed.
Print Assumptions C10_dropped_iff.

(* otherwise: an own tag survives iff it is not removed *)
Theorem C10_tags_removed : forall re_match th name src tags src' r,
  unique_filter_add re_match th name src tags = Done (Some (src', r)) ->
  forall t, t ∈ tags -> (t ∈ r <-> ~ removed re_match (th_filters th) name tags t).
Proof. exact ufa_tags_removed. Qed.
Print Assumptions C10_tags_removed.

(* a static tag is present iff it is not a removed tag of that metric *)
Theorem C10_static_tags : forall re_match th name src tags src' r,
  unique_filter_add re_match th name src tags = Done (Some (src', r)) ->
  forall s, s ∈ th_tags th -> (s ∈ r <-> ~ removed re_match (th_filters th) name tags s).
Proof. exact ufa_static_tags. Qed.
Print Assumptions C10_static_tags.

(* nothing else is added, and there are no duplicates *)
Theorem C10_no_other_tags : forall re_match th name src tags src' r,
  unique_filter_add re_match th name src tags = Done (Some (src', r)) ->
  forall t, t ∈ r -> t ∈ tags \/ t ∈ th_tags th.
Proof. exact ufa_nothing_else. Qed.
Print Assumptions C10_no_other_tags.

Theorem C10_no_duplicates : forall re_match th name src tags src' r,
  unique_filter_add re_match th name src tags = Done (Some (src', r)) -> NoDup (th_tags th) -> NoDup r.
Proof. exact ufa_nodup. Qed.
Print Assumptions C10_no_duplicates.

(* the source is cleared exactly when a satisfied filter has drop-host *)
Theorem C10_drop_host : forall re_match th name src tags src' r,
  unique_filter_add re_match th name src tags = Done (Some (src', r)) ->
  ((exists f, f ∈ th_filters th /\ satisfied re_match f name tags /\ f_drop_host f = true) -> src' = [])
  /\ ((forall f, f ∈ th_filters th -> satisfied re_match f name tags -> f_drop_host f = false) -> src' = src).
Proof. exact ufa_drop_host. Qed.
Print Assumptions C10_drop_host.

(* events get the static tags, without duplicates; filters do not apply to them *)
Theorem C10_events : forall th tags,
  exists r, dispatch_event th tags = Done r /\ (forall x, x ∈ r <-> x ∈ tags \/ x ∈ th_tags th)
    /\ (NoDup (th_tags th) -> NoDup r).
Proof. exact dispatch_event_spec. Qed.
Print Assumptions C10_events.

(* ---- patterns ---------------------------------------------------------------------------- *)

(* exact match; prefix match with a trailing '*'; "regex:" = Go regexp (MatchString, so a
   substring match; a trailing '*' belongs to the expression; a pattern that does not compile
   panics in the constructor); a leading '!' negates. *)
Theorem C10_pattern_semantics_exact : forall re_ok re_match p,
  str_has_prefix [c_bang] p = false -> str_has_prefix regex_marker p = false -> ends_with_star p = false ->
  exists sm, new_string_match re_ok p = Done sm /\ forall s, sm_match re_match sm s = true <-> s = p.
Proof. exact pattern_exact. Qed.
Print Assumptions C10_pattern_semantics_exact.

Theorem C10_pattern_semantics_prefix : forall re_ok re_match q,
  str_has_prefix [c_bang] (q ++ [c_star]) = false -> str_has_prefix regex_marker (q ++ [c_star]) = false ->
  exists sm, new_string_match re_ok (q ++ [c_star]) = Done sm /\
             forall s, sm_match re_match sm s = true <-> exists r, s = q ++ r.
Proof. exact pattern_prefix. Qed.
Print Assumptions C10_pattern_semantics_prefix.

Theorem C10_pattern_semantics_regex : forall re_ok re_match q,
  (re_ok q = true -> exists sm, new_string_match re_ok (regex_marker ++ q) = Done sm /\
                                forall s, sm_match re_match sm s = re_match q s)
  /\ (re_ok q = false -> new_string_match re_ok (regex_marker ++ q) = GoPanic).
Proof. exact pattern_regex. Qed.
Print Assumptions C10_pattern_semantics_regex.

Theorem C10_pattern_semantics_inverted : forall re_ok re_match p sm,
  str_has_prefix [c_bang] p = false -> new_string_match re_ok p = Done sm ->
  exists sm', new_string_match re_ok (c_bang :: p) = Done sm' /\
              forall s, sm_match re_match sm' s = negb (sm_match re_match sm s).
Proof. exact pattern_inverted. Qed.
Print Assumptions C10_pattern_semantics_inverted.

(* ---- collisions: series that coincide after filtering are combined without loss --------- *)
(* For every iteration order l of the incoming Go map, with ks the re-keyed survivors: the
   outgoing map has a series at key k iff some survivor lands on k, and that series combines
   all of them: counter values add, timer values concatenate and sampled counts add, sets
   unite, the timestamp is the newest; a gauge carries the newest timestamp and the value of
   a survivor with that timestamp.  Source and tags are those of the first survivor. *)
Theorem C10_collisions_lossless_counters : forall re_match th l ks,
  kept (rekey_counter re_match th) l = Done ks ->
  exists out, dispatch_counters re_match th l = Done out /\ forall k,
    match group k ks with
    | [] => out !! k = None
    | c :: g => out !! k = Some (MkCounter (zsum (c_val <$> c :: g)) (zmax_list (c_ts <$> g) (c_ts c))
                                           (c_src c) (c_tags c))
    end.
Proof. exact lossless_counters. Qed.
Print Assumptions C10_collisions_lossless_counters.

Theorem C10_collisions_lossless_timers : forall re_match th l ks,
  kept (rekey_timer re_match th) l = Done ks ->
  exists out, dispatch_timers re_match th l = Done out /\ forall k,
    match group k ks with
    | [] => out !! k = None
    | t :: g => out !! k = Some (MkTimer (concat (t_vals <$> t :: g)) (qcsum (t_samp <$> t :: g))
                                         (zmax_list (t_ts <$> g) (t_ts t)) (t_src t) (t_tags t))
    end.
Proof. exact lossless_timers. Qed.
Print Assumptions C10_collisions_lossless_timers.

Theorem C10_collisions_lossless_sets : forall re_match th l ks,
  kept (rekey_set re_match th) l = Done ks ->
  exists out, dispatch_sets re_match th l = Done out /\ forall k,
    match group k ks with
    | [] => out !! k = None
    | s :: g => out !! k = Some (MkSet (⋃ (s_vals <$> s :: g)) (zmax_list (s_ts <$> g) (s_ts s))
                                       (s_src s) (s_tags s))
    end.
Proof. exact lossless_sets. Qed.
Print Assumptions C10_collisions_lossless_sets.

Theorem C10_collisions_lossless_gauges : forall re_match th l ks,
  kept (rekey_gauge re_match th) l = Done ks ->
  exists out, dispatch_gauges re_match th l = Done out /\ forall k,
    match group k ks with
    | [] => out !! k = None
    | a :: g => exists r, out !! k = Some r
                  /\ g_ts r = zmax_list (g_ts <$> g) (g_ts a) /\ g_src r = g_src a /\ g_tags r = g_tags a
                  /\ exists w, w ∈ a :: g /\ g_ts w = g_ts r /\ g_val w = g_val r
    end.
Proof. exact lossless_gauges. Qed.
Print Assumptions C10_collisions_lossless_gauges.

(* DispatchMetricMap as a whole never panics, whatever the iteration orders *)
Theorem C10_dispatch_never_panics : forall re_match th o, exists r, dispatch_list re_match th o = Done r.
Proof. exact dispatch_list_total. Qed.
Print Assumptions C10_dispatch_never_panics.

(* re-keying itself never panics (for each series type: src_of / tags_of / retag are its accessors) *)
Theorem C10_survivors_total : forall V re_match (src_of : V -> str) tags_of retag th l,
  exists ks, kept (rekey re_match src_of tags_of retag th) l = Done ks.
Proof. exact @kept_total. Qed.
Print Assumptions C10_survivors_total.

(* ... and which survivors are combined under a key does not depend on the iteration order *)
Theorem C10_collisions_order_independent : forall V (rk : skey * V -> res (option (skey * V))) l1 l2 ks1 ks2,
  l1 ≡ₚ l2 -> kept rk l1 = Done ks1 -> kept rk l2 = Done ks2 -> forall k, group k ks1 ≡ₚ group k ks2.
Proof. exact @group_order_independent. Qed.
Print Assumptions C10_collisions_order_independent.

(* ---- configuration (FILTERING.md "Configuration", "The filter block", "Matching") ---------- *)
(* Vocabulary: a pattern string is [bang neg ++ x] (an optional '!').  [tag_config] is the configuration tree
   viper holds: the `filters` value and the [filter.<name>] tables, each value a string, a list of strings or
   a bool ([cval]); [raws_of_config] applies viper's casts (a string where a list is expected is split on white
   space, ...) and looks the named tables up case-insensitively; [handler_of_config] is NewTagHandlerFromViper. *)

(* every pattern string is an optional '!' and a body; what the body means: "regex:q" is Go's regexp on q
   (a q that does not compile panics in regexp.MustCompile), otherwise "q*" is the prefix q, otherwise the
   body itself, exactly; the '!' negates.  The "regex:" test comes after the '!' test and before the '*' test. *)
Theorem C10_config_spelling_total : forall p : str,
  exists (neg : bool) (x : str), p = bang neg ++ x /\ (neg = false -> str_has_prefix [c_bang] x = false).
Proof. exact spelling_total. Qed.
Print Assumptions C10_config_spelling_total.

Theorem C10_config_semantics : forall (re_ok : str -> bool) (re_match : str -> str -> bool) neg x,
  (neg = false -> str_has_prefix [c_bang] x = false) ->
  let p := bang neg ++ x in
  (forall q, x = regex_marker ++ q ->
     if re_ok q then exists sm, new_string_match re_ok p = Done sm /\ forall s, sm_match re_match sm s = xorb (re_match q s) neg
     else new_string_match re_ok p = GoPanic)
  /\ (str_has_prefix regex_marker x = false -> forall q, x = q ++ [c_star] ->
     exists sm, new_string_match re_ok p = Done sm /\ forall s, sm_match re_match sm s = xorb (str_has_prefix q s) neg)
  /\ (str_has_prefix regex_marker x = false -> ends_with_star x = false ->
     exists sm, new_string_match re_ok p = Done sm /\ forall s, sm_match re_match sm s = xorb (str_eqb s x) neg).
Proof. exact config_semantics. Qed.
Print Assumptions C10_config_semantics.

(* the odd spellings: ""  "!"  "*"  "!*"  "!!a"  "*a"  "a**"  " a"  "regex:!a"  "!regex:a" *)
Theorem C10_config_odd_spellings : forall (re_ok : str -> bool) (re_match : str -> str -> bool),
  let means p (m : str -> bool) := exists sm, new_string_match re_ok p = Done sm /\ forall s, sm_match re_match sm s = m s in
  means [] (fun s => str_eqb s [])
  /\ means [c_bang] (fun s => negb (str_eqb s []))
  /\ means [c_star] (fun _ => true)
  /\ means [c_bang; c_star] (fun _ => false)
  /\ means [c_bang; c_bang; 97%N] (fun s => negb (str_eqb s [c_bang; 97%N]))
  /\ means [c_star; 97%N] (fun s => str_eqb s [c_star; 97%N])
  /\ means [97%N; c_star; c_star] (fun s => str_has_prefix [97%N; c_star] s)
  /\ means [32%N; 97%N] (fun s => str_eqb s [32%N; 97%N])
  /\ (re_ok [c_bang; 97%N] = true -> means (regex_marker ++ [c_bang; 97%N]) (fun s => re_match [c_bang; 97%N] s))
  /\ (re_ok [97%N] = true -> means (c_bang :: regex_marker ++ [97%N]) (fun s => negb (re_match [97%N] s))).
Proof. exact odd_spellings. Qed.
Print Assumptions C10_config_odd_spellings.

(* A configuration yields the panic of regexp.MustCompile iff a pattern of a named, existing filter table
   spells a regular expression that does not compile; otherwise a handler with exactly one filter per named
   existing table, in the order of `filters`, every pattern string turned into its matcher ([filter_of_raw]),
   and the de-duplicated static tags.  Nothing else can happen (no OutOfFuel, no other panic). *)
Theorem C10_config_total : forall (re_ok : str -> bool) tags c,
  if existsb (pattern_invalid re_ok) (config_patterns c) then handler_of_config re_ok tags c = GoPanic
  else exists th, handler_of_config re_ok tags c = Done th
       /\ Forall2 (filter_of_raw re_ok) (raws_of_config c) (th_filters th)
       /\ NoDup (th_tags th) /\ forall x, x ∈ th_tags th <-> x ∈ tags.
Proof. exact config_total. Qed.
Print Assumptions C10_config_total.

(* ... but "never a silent default" is refuted for one case: a filter that `filters` names and that has no
   [filter.<name>] table is skipped (the code only logs a warning); the server runs with no filter. *)
Theorem C10_config_total_refuted_missing_block :
  exists c, cfg_filters c = Some (VList [[97%N]]) /\
            forall re_ok tags, exists th, handler_of_config re_ok tags c = Done th /\ th_filters th = [].
Proof. exact config_missing_block_skipped. Qed.
Print Assumptions C10_config_total_refuted_missing_block.

(* ---- the regex-free fragment: no oracle ------------------------------------------------------ *)
(* [plain_output] (Model/Tags.v) is written with string equality and prefix tests only.  For a handler whose
   filters hold no `regex:` pattern, whatever the regexp oracle is, a metric is dropped iff plain_output says
   so, and otherwise source and stored (sorted) tag list are the ones plain_output gives. *)
Theorem C10_decidable_spec : forall re_match th name src tags,
  regex_free th -> NoDup (th_tags th) ->
  match plain_output th name src tags with
  | None => unique_filter_add re_match th name src tags = Done None
  | Some (src', stags) => exists r, unique_filter_add re_match th name src tags = Done (Some (src', r))
                                    /\ sort_tags r = stags
  end.
Proof. exact decidable_spec. Qed.
Print Assumptions C10_decidable_spec.

(* the same for the Each callback of DispatchMetricMap: new key and stored series *)
Theorem C10_decidable_spec_rekey : forall re_match V (src_of : V -> str) tags_of retag th e,
  regex_free th -> NoDup (th_tags th) ->
  rekey re_match src_of tags_of retag th e = Done (plain_rekey src_of tags_of retag th e).
Proof. exact decidable_spec_rekey. Qed.
Print Assumptions C10_decidable_spec_rekey.

(* a configuration without any `regex:` spelling gives a regex-free handler *)
Theorem C10_config_regex_free : forall re_ok tags c th,
  (forall p, p ∈ config_patterns c -> forall neg q, spelling_of p <> SpRegex neg q) ->
  handler_of_config re_ok tags c = Done th -> regex_free th.
Proof. exact config_regex_free. Qed.
Print Assumptions C10_config_regex_free.
