(* C02 -- the line parser accepts exactly the documented grammar and extracts its fields.

   [lex pf ns l] (Model/Lexer.v) is the model of Lexer.Run on line [l] under namespace [ns];
   [pf] is strconv.ParseFloat, an arbitrary function here (oracle).  The grammar is given as a
   generator (Model/LexGrammar.v): [render_metric raw val ty attrs] is the line
   raw:val|ty{|@rate | |#t1,t2.. | |other}*, [render_event title text attrs] the line
   _e{|title|,|text|}:title|text{|d:.. |h:.. |k:.. |p:.. |s:.. |t:.. |#tags |other}*.
   Side conditions [wf_*] only say that a piece does not contain the separator that ends it. *)
From GS Require Import Base.Bytes Model.Lexer Model.LexGrammar Model.LexerLegacyUint.
From GS Require Import Proofs.Lexer Proofs.LexerGrammar Proofs.LexerGrammarEvent Proofs.LexerGrammarWf.
From GS Require Import Proofs.LexerGrammarExact Proofs.LexerGrammarExactEvent.
Local Open Scope N_scope.

(* Every metric line of the grammar, with the attribute fields in any order and multiplicity,
   yields exactly: reject if the name normalises to nothing or some '@' string does not convert
   ([attrs_rate]: every '@' field is converted when met, the last one is the rate, default 1);
   otherwise the end of Lexer.Run ([finish_metric]: rate finite > 0, value converted unless a
   set, not NaN) applied to the namespace-prefixed normalised name, the value string, the type,
   that rate, and the non-empty tags of all '#' fields in order ([attrs_tags]). *)
Theorem C02_grammar_metric :
  forall (pf : str -> pfres) (ns raw val : str) (ty : tytok) (attrs : list attr),
    wf_raw_name raw ->             (* no ':' , no NUL, first byte not '_' *)
    wf_value val ->                (* no '|', no NUL *)
    Forall wf_attr attrs ->        (* fields without '|'; tags without ',' '|' NUL; other fields non-empty *)
    lex pf ns (render_metric raw val ty attrs) =
    match normalise raw with
    | [] => OReject EEmptyKey
    | key =>
        match attrs_rate pf f64_one attrs with
        | RateBad e => OReject e
        | RateOk rate => finish_metric pf (with_ns ns key) (tytok_type ty) val rate (attrs_tags attrs)
        end
    end.
Proof. exact grammar_metric. Qed.
Print Assumptions C02_grammar_metric.

(* The same with everything unfolded: the line is accepted as [m] iff the name survives
   normalisation, every '@' string converts and the LAST one (default 1) is m's rate, finite and
   > 0, and the value converts to a non-NaN number (for a set: is kept as a string); name, type
   and tags are as specified. *)
Theorem C02_grammar_metric_fields :
  forall (pf : str -> pfres) (ns raw val : str) (ty : tytok) (attrs : list attr) (m : metric),
    wf_raw_name raw -> wf_value val -> Forall wf_attr attrs ->
    (lex pf ns (render_metric raw val ty attrs) = OMetric m <->
     normalise raw <> [] /\
     (exists vs, Forall2 (fun s x => pf s = PFVal x) (rate_strings attrs) vs /\
                 m_rate m = last vs f64_one) /\
     f64_finite_pos (m_rate m) = true /\
     m_name m = with_ns ns (normalise raw) /\
     m_type m = tytok_type ty /\
     m_tags m = attrs_tags attrs /\
     ((ty = TokS /\ m_strval m = val /\ m_value m = 0%Z) \/
      (ty <> TokS /\ m_strval m = [] /\ pf val = PFVal (m_value m) /\ f64_is_nan (m_value m) = false))).
Proof. exact grammar_metric_fields. Qed.
Print Assumptions C02_grammar_metric_fields.

(* Every event line of the grammar (any bytes in title and text, lengths < 2^32, attributes in
   any order and multiplicity) is accepted with title, text (each "\n" pair unescaped) and
   fields as written; a later attribute overrides an earlier one of its kind ([apply_eattr]);
   tags are the non-empty tags of all '#' fields in order. *)
Theorem C02_grammar_event :
  forall (pf : str -> pfres) (ns title text : str) (attrs : list eattr),
    N.of_nat (length title) <= max_uint32 -> N.of_nat (length text) <= max_uint32 ->
    Forall wf_eattr attrs ->
    lex pf ns (render_event title text attrs) =
    OEvent (with_tags (fold_left apply_eattr attrs (empty_event title (unescape text)))
                      (eattrs_tags attrs)).
Proof. exact grammar_event. Qed.
Print Assumptions C02_grammar_event.

(* ... and the lengths may be written with any decimal numerals (leading zeros) *)
Theorem C02_grammar_event_digits :
  forall (pf : str -> pfres) (ns dt dx title text : str) (attrs : list eattr),
    is_number dt -> digit_value dt = N.of_nat (length title) -> N.of_nat (length title) <= max_uint32 ->
    is_number dx -> digit_value dx = N.of_nat (length text) -> N.of_nat (length text) <= max_uint32 ->
    Forall wf_eattr attrs ->
    lex pf ns (render_event_digits dt dx title text attrs) = OEvent (expected_event title text attrs).
Proof. exact grammar_event_digits. Qed.
Print Assumptions C02_grammar_event_digits.

(* Lines lacking a mandatory part are rejected. *)
Theorem C02_reject :
  forall (pf : str -> pfres) (ns : str),
    (* no name separator: any line at all without ':' *)
    (forall l, ~ In c_colon l -> exists e, lex pf ns l = OReject e) /\
    (* no value separator: any line at all without '|' ... *)
    (forall l, ~ In c_pipe l -> exists e, lex pf ns l = OReject e) /\
    (* ... and any metric line without '|' after the ':' that ends the key *)
    (forall raw rest, ~ In c_colon raw -> (forall r, raw <> c_us :: r) -> ~ In c_pipe rest ->
       exists e, lex pf ns (raw ++ c_colon :: rest) = OReject e) /\
    (* a type field [tok] (ended by '|' or the end of the line) that is none of c g ms h s *)
    (forall raw val tok k, wf_raw_name raw -> wf_value val ->
       ~ In c_pipe tok -> ~ In c_nul tok -> (k = [] \/ exists k', k = c_pipe :: k') ->
       (forall ty, tok <> tytok_str ty) ->
       exists e, lex pf ns (raw ++ c_colon :: val ++ c_pipe :: tok ++ k) = OReject e) /\
    (* an '@' field, in any position, whose string does not convert *)
    (forall raw val ty attrs s, wf_raw_name raw -> wf_value val -> Forall wf_attr attrs ->
       In (ARate s) attrs -> (forall x, pf s <> PFVal x) ->
       exists e, lex pf ns (render_metric raw val ty attrs) = OReject e) /\
    (* a sample rate that is not a finite number > 0 *)
    (forall raw val ty attrs rate, wf_raw_name raw -> wf_value val -> Forall wf_attr attrs ->
       attrs_rate pf f64_one attrs = RateOk rate -> f64_finite_pos rate = false ->
       exists e, lex pf ns (render_metric raw val ty attrs) = OReject e) /\
    (* a value, for a type other than set, that does not convert or converts to NaN *)
    (forall raw val ty attrs, wf_raw_name raw -> wf_value val -> Forall wf_attr attrs -> ty <> TokS ->
       ((forall x, pf val <> PFVal x) \/ exists x, pf val = PFVal x /\ f64_is_nan x = true) ->
       exists e, lex pf ns (render_metric raw val ty attrs) = OReject e).
Proof. exact reject_all. Qed.
Print Assumptions C02_reject.

(* Whatever is accepted, from ANY byte string (NUL bytes included), is well formed. *)
Theorem C02_wellformed :
  forall (pf : str -> pfres) (ns l : str),
    (forall m, lex pf ns l = OMetric m ->
       m_name m <> [] /\
       (exists key, key <> [] /\ Forall (fun b => allowed_byte b = true) key /\ m_name m = with_ns ns key) /\
       Forall (fun t => t <> [] /\ ~ In c_comma t /\ ~ In c_pipe t) (m_tags m) /\
       f64_is_nan (m_value m) = false /\
       f64_finite_pos (m_rate m) = true) /\
    (forall e, lex pf ns l = OEvent e ->
       Forall (fun t => t <> [] /\ ~ In c_comma t /\ ~ In c_pipe t) (e_tags e)).
Proof. exact wellformed_all. Qed.
Print Assumptions C02_wellformed.

(* Name normalisation is: '/' -> '-', blank and tab -> '_', bytes of [A-Za-z0-9._-] kept,
   every other byte deleted -- byte by byte; hence output in the alphabet, identity on the
   alphabet, idempotent, and a morphism for concatenation. *)
Theorem C02_normalise_spec :
  (forall l, normalise l =
             flat_map (fun b => if b =? c_slash then [c_dash]
                                else if (b =? c_space) || (b =? c_tab) then [c_us]
                                else if is_alnum b || (b =? c_dot) || (b =? c_dash) || (b =? c_us) then [b]
                                else []) l) /\
  (forall l, Forall (fun b => allowed_byte b = true) (normalise l)) /\
  (forall l, Forall (fun b => allowed_byte b = true) l -> normalise l = l) /\
  (forall l, normalise (normalise l) = normalise l) /\
  (forall a b, normalise (a ++ b) = normalise a ++ normalise b).
Proof. exact normalise_spec. Qed.
Print Assumptions C02_normalise_spec.

(* ---------------------------------------------------------------------------------------- *)
(* EXACTLY the grammar.  [render_metric'] / [render_event'] are the same renderings under the
   weaker side conditions [wf_attrs'] / [wf_eattrs'] (Model/LexGrammar.v), which add precisely
   the slack the lexer has: an ignored field is recognised by its first byte only, so it may
   be EMPTY, in which case that first byte is the next '|' and the field after it is skipped
   ([AOther (c_pipe :: g)]), or it is the empty field after a trailing '|' ([AOther []], last
   position only).  Nothing else: numerals denote their decimal value (lengths < 2^32, date < 2^63)
   and the results are [expected_metric] / [expected_event]. *)

(* Every accepted metric line without NUL is a rendering of the grammar -- the derivation is
   the one [parse_to_spec] computes -- and the record returned is the one the grammar promises
   for that derivation. *)
Theorem C02_accepted_only_grammar :
  forall (pf : str -> pfres) (ns l : str) (m : metric),
    ~ In c_nul l -> lex pf ns l = OMetric m ->
    exists raw val ty attrs,
      parse_to_spec l = Some (SMetric raw val ty attrs) /\
      wf_raw_name raw /\ wf_value val /\ wf_attrs' attrs /\
      l = render_metric' raw val ty attrs /\
      expected_metric pf ns raw val ty attrs = OMetric m.
Proof. exact accepted_only_grammar. Qed.
Print Assumptions C02_accepted_only_grammar.

Theorem C02_accepted_event_only_grammar :
  forall (pf : str -> pfres) (ns l : str) (e : event),
    ~ In c_nul l -> lex pf ns l = OEvent e ->
    exists dt dx title text attrs,
      parse_to_spec l = Some (SEvent dt dx title text attrs) /\
      wf_event_header dt dx title text /\ wf_eattrs' attrs /\
      l = render_event' dt dx title text attrs /\
      e = expected_event title text attrs.
Proof. exact accepted_event_only_grammar. Qed.
Print Assumptions C02_accepted_event_only_grammar.

(* {accepted lines without NUL} = {render_metric' ..} U {render_event' ..}, with the results. *)
Theorem C02_language :
  forall (pf : str -> pfres) (ns l : str), ~ In c_nul l ->
    (forall m, lex pf ns l = OMetric m <->
       exists raw val ty attrs, wf_raw_name raw /\ wf_value val /\ wf_attrs' attrs /\
         l = render_metric' raw val ty attrs /\ expected_metric pf ns raw val ty attrs = OMetric m) /\
    (forall e, lex pf ns l = OEvent e <->
       exists dt dx title text attrs, wf_event_header dt dx title text /\ wf_eattrs' attrs /\
         l = render_event' dt dx title text attrs /\ e = expected_event title text attrs).
Proof. exact language. Qed.
Print Assumptions C02_language.

(* The documented grammar is a sub-grammar of the exact one: same rendering, same results. *)
Theorem C02_documented_subgrammar :
  (forall attrs, Forall wf_attr attrs -> wf_attrs' attrs) /\
  (forall attrs, Forall wf_eattr attrs -> wf_eattrs' attrs) /\
  (forall raw val ty attrs, render_metric' raw val ty attrs = render_metric raw val ty attrs) /\
  (forall dt dx title text attrs, render_event' dt dx title text attrs = render_event_digits dt dx title text attrs).
Proof. exact documented_subgrammar. Qed.
Print Assumptions C02_documented_subgrammar.

(* parse_to_spec (used by the correspondence on every accepted real line): whatever it returns
   renders back to the line; it is defined on every accepted line without NUL. *)
Theorem C02_parse_to_spec :
  (forall l s, parse_to_spec l = Some s -> render_spec s = l) /\
  (forall (pf : str -> pfres) (ns l : str), ~ In c_nul l ->
     (exists m, lex pf ns l = OMetric m) \/ (exists e, lex pf ns l = OEvent e) ->
     parse_to_spec l <> None).
Proof. exact parse_to_spec_correct. Qed.
Print Assumptions C02_parse_to_spec.

(* What "exactly" means for the real code: an empty field swallows the next one (metrics and
   events); a trailing '|' is harmless; a numeral is accepted exactly when its decimal value fits
   in 64 bits and denotes that value ([uint_acc] is lexUint's accumulation with its test). *)
Theorem C02_quirks :
  forall (pf : str -> pfres) (ns : str),
  (forall raw val ty g attrs, wf_raw_name raw -> wf_value val -> ~ In c_pipe g -> wf_attrs' attrs ->
     lex pf ns (render_metric' raw val ty (AOther (c_pipe :: g) :: attrs)) =
     lex pf ns (render_metric' raw val ty attrs)) /\
  (forall raw val ty attrs, wf_raw_name raw -> wf_value val -> Forall wf_attr attrs ->
     lex pf ns (render_metric raw val ty attrs ++ [c_pipe]) = lex pf ns (render_metric raw val ty attrs)) /\
  (forall dt dx title text g attrs, wf_event_header dt dx title text -> ~ In c_pipe g -> wf_eattrs' attrs ->
     lex pf ns (render_event' dt dx title text (EAOther (c_pipe :: g) :: attrs)) =
     lex pf ns (render_event' dt dx title text attrs)) /\
  (forall ds v, Forall (fun b => is_digit b = true) ds ->
     (uint_acc 0 ds = Some v <-> v = digit_value ds /\ digit_value ds <= max_uint64)).
Proof. exact quirks. Qed.
Print Assumptions C02_quirks.

(* Defect D11, found through an earlier form of C02_quirks ("a date numeral can wrap") and repaired
   in /repo 162b292: the lexer BEFORE the repair (Model/LexerLegacyUint.v: multiply in uint64, then
   test n < value) accepts  _e{1,1}:a|b|d:21000000000000000000  (2.1e19 > 2^64) with the date
   2553255926290448384 = 2.1e19 - 2^64; the current lexer rejects that line. *)
Theorem C02_legacy_refuted_uint_wrap :
  forall (pf : str -> pfres) (ns : str),
    lex_uint_wrap_legacy pf ns
      [95;101;123;49;44;49;125;58;97;124;98;124;100;58;50;49;48;48;48;48;48;48;48;48;48;48;48;48;48;48;48;48;48;48] =
      OEvent {| e_title := [97]; e_text := [98]; e_date := 2553255926290448384; e_host := []; e_key := [];
                e_pri := 0; e_stype := []; e_alert := 0; e_tags := [] |} /\
    lex pf ns
      [95;101;123;49;44;49;125;58;97;124;98;124;100;58;50;49;48;48;48;48;48;48;48;48;48;48;48;48;48;48;48;48;48;48] =
      OReject EOverflow.
Proof. exact legacy_refuted_uint_wrap. Qed.
Print Assumptions C02_legacy_refuted_uint_wrap.
