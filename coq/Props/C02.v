From GS Require Import Base.Bytes Model.Lexer Proofs.Lexer.

Theorem C02_normalise_app : forall a b, normalise (a ++ b) = normalise a ++ normalise b.
Proof. exact normalise_app. Qed.
Print Assumptions C02_normalise_app.
