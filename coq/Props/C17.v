(* C17 -- backend payloads contain every series exactly once and are well formed.
   Models: Model/Batching.v (batching state machines, item lists per backend), Model/Relay.v
   (statsd relay printers), Model/InfluxEsc.v (InfluxDB escapers and lines).  fmt_f / fmt_g /
   fmt_s are the value printers (fmt %f, %g, strconv.FormatFloat): arbitrary functions here. *)
From GS Require Import Base.Bytes Model.Lexer Model.Series Model.Batching Model.Relay Model.InfluxEsc.
From GS Require Import Proofs.Batching.
Local Open Scope N_scope.

(* Datadog: for every map (any iteration order), mask and batch size, the emitted batches
   concatenate to the item list of the map -- every series' group, each enabled sub-metric once,
   in order -- and no batch is empty when every series has at least one enabled sub-metric. *)
Theorem C17_batches_conserve_datadog : forall fmt_s pb mk m,
  concat (datadog_payloads fmt_s pb mk m) = concat (dd_groups fmt_s mk m)
  /\ (Forall (fun g => g <> []) (dd_groups fmt_s mk m) ->
      Forall (fun b => b <> []) (datadog_payloads fmt_s pb mk m)).
Proof. exact conserve_datadog. Qed.
Print Assumptions C17_batches_conserve_datadog.

(* in particular: with at least one sub-metric enabled and no empty (non-nil) histogram map, no
   Datadog batch is empty; Proofs/Batching.v has the witnesses that both conditions are needed *)
Theorem C17_datadog_no_empty_batch : forall fmt_s pb mk m,
  some_enabled mk = true -> Forall (fun t => ft_hist t <> Some []) (fm_timers m) ->
  Forall (fun b => b <> []) (datadog_payloads fmt_s pb mk m).
Proof. exact datadog_no_empty_batch. Qed.
Print Assumptions C17_datadog_no_empty_batch.

(* New Relic uses the same open-batch machine (flush.go maybeFlush / finish); stated for any
   item type and any per-series groups. *)
Theorem C17_batches_conserve_newrelic : forall (A : Type) (pb : N) (groups : list (list A)),
  concat (dd_batches pb groups) = concat groups
  /\ (Forall (fun g => g <> []) groups -> Forall (fun b => b <> []) (dd_batches pb groups)).
Proof. exact @conserve_dd. Qed.
Print Assumptions C17_batches_conserve_newrelic.

Theorem C17_batches_conserve_influxdb : forall fmt_g fmt_s pb mk now m,
  concat (influx_payloads fmt_g fmt_s pb mk now m) = influx_items fmt_g fmt_s mk now m
  /\ Forall (fun b => b <> []) (influx_payloads fmt_g fmt_s pb mk now m).
Proof. exact conserve_influx. Qed.
Print Assumptions C17_batches_conserve_influxdb.

(* OTLP posts every element of groups.batches: all are non-empty except possibly the last *)
Theorem C17_batches_conserve_otlp : forall fmt_s bs mk m, 1 <= bs ->
  concat (otlp_payloads fmt_s bs mk m) = otlp_items fmt_s mk m
  /\ exists closed last, otlp_payloads fmt_s bs mk m = closed ++ [last]
                         /\ Forall (fun b => b <> []) closed.
Proof. exact conserve_otlp. Qed.
Print Assumptions C17_batches_conserve_otlp.

(* CloudWatch: the slicing loop terminates without an out-of-range slice *)
Theorem C17_batches_conserve_cloudwatch : forall fmt_s mk m,
  exists bs, cloudwatch_payloads fmt_s mk m = Some bs
             /\ concat bs = concat (cw_groups fmt_s mk m) /\ Forall (fun b => b <> []) bs.
Proof. exact conserve_cloudwatch. Qed.
Print Assumptions C17_batches_conserve_cloudwatch.

(* statsd relay: the datagrams are whole lines, in order; none is empty unless a single line is
   longer than the packet size (processMetrics then hands an empty buffer to the sender) *)
Theorem C17_batches_conserve_statsdaemon : forall fmt_f ps dt m,
  concat (relay_payloads fmt_f ps dt m) = relay_lines fmt_f dt m
  /\ (Forall (fun l => N.of_nat (length l) <= ps) (relay_lines fmt_f dt m) ->
      Forall (fun d => d <> []) (relay_payloads fmt_f ps dt m)).
Proof. exact conserve_relay. Qed.
Print Assumptions C17_batches_conserve_statsdaemon.

Theorem C17_hard_limits : forall fmt_f fmt_g fmt_s mk m,
  (forall pb now, 1 <= pb -> Forall (fun b => len b <= pb) (influx_payloads fmt_g fmt_s pb mk now m))
  /\ (forall bs, 1 <= bs -> Forall (fun b => len b <= bs) (otlp_payloads fmt_s bs mk m))
  /\ (forall bs, cloudwatch_payloads fmt_s mk m = Some bs -> Forall (fun b => (length b <= 20)%nat) bs)
  /\ (forall ps dt, Forall (fun d => blen d <= ps \/ exists l, d = [l]) (relay_payloads fmt_f ps dt m)).
Proof. exact hard_limits. Qed.
Print Assumptions C17_hard_limits.

(* ---------------------------------------------------------------------------------------- *)
(* The relay's output under gostatsd's own parser (the lexer model of C02, Model/Lexer.v).
   [pf] is strconv.ParseFloat (any function).  name_ok: bytes of [A-Za-z0-9_.-], not empty, not
   starting with '_'; tag_ok: not empty, bytes of [A-Za-z0-9_.:/-]; value_ok: no '|', no NUL
   (true of every %d / %f text and of every set member over the tag alphabet).  The line of a
   series parses to the same name, the sorted tags followed by s:<source>, the same type and,
   for a set, the member; for the numeric types, whatever ParseFloat makes of the printed value. *)
From GS Require Import Proofs.Relay Proofs.RelayEvent Proofs.InfluxEsc.

Theorem C17_relay_roundtrip : forall pf name tags src value ty,
  name_ok name -> Forall tag_ok tags -> forallb tag_byte src = true -> value_ok value ->
  lex pf [] (relay_line false name (tags_key src tags) value ty)
  = match ty with
    | MSet => OMetric {| m_name := name; m_type := MSet; m_value := 0; m_strval := value;
                         m_rate := f64_one; m_tags := sort_tags tags ++ source_tag src |}
    | _ => match pf value with
           | PFVal v => if f64_is_nan v then OReject ENaN
                        else OMetric {| m_name := name; m_type := ty; m_value := v; m_strval := [];
                                        m_rate := f64_one; m_tags := sort_tags tags ++ source_tag src |}
           | PFErr => OReject EParseFloat
           | PFMiss => OReject EOracleMiss
           end
    end.
Proof. exact relay_roundtrip. Qed.
Print Assumptions C17_relay_roundtrip.

(* event_ok (Model/Relay.v): lengths below 2^32, text without a literal backslash-n pair, date in
   [0, 2^63), host / key / source type without '|', priority normal or low, the four alert types,
   tags non-empty and free of ',' '|' NUL -- the events the lexer can produce *)
Theorem C17_relay_event_roundtrip : forall pf e, event_ok e -> lex pf [] (relay_event e) = OEvent e.
Proof. exact relay_event_lex. Qed.
Print Assumptions C17_relay_event_roundtrip.

(* each InfluxDB escaper has a left inverse, so it is injective *)
Theorem C17_influx_escape_injective :
  (forall s, unescape_tag (escape_tag s) = s)
  /\ (forall s, unescape_name (escape_name s) = s)
  /\ (forall s, unescape_string (escape_string s) = s)
  /\ (forall a b, escape_tag a = escape_tag b -> a = b)
  /\ (forall a b, escape_name a = escape_name b -> a = b)
  /\ (forall a b, escape_string a = escape_string b -> a = b).
Proof. exact influx_escape_injective. Qed.
Print Assumptions C17_influx_escape_injective.

(* ---------------------------------------------------------------------------------------- *)
(* Syntactic validity of the text payloads, against reference readers written from the protocols'
   documentation (Model/InfluxLine.v, Model/GraphiteLine.v): printer followed by reader gives
   back the series.

   InfluxDB line protocol.  [influx_print now (name, tags, fields)] are the bytes of one line;
   [influx_parse] is the strict reader.  For ARBITRARY bytes in the name and the tags -- the
   escapers represent every byte -- the line reads back to the name, the grouped tags (sorted
   keys, sorted values joined by "__"), the fields and the timestamp, exactly under [ipre_ok]:
     * the name is not empty and does not start with '#' (a comment line);
     * no tag key is empty and no (joined) tag value is empty     -- fails: known finding F5;
     * there is a field; field keys have no ',' '=' ' ' '\'; every value is a number literal
       (true of every %d text: Proofs dec_Z_number)                -- fails: known finding F4. *)
From GS Require Import Model.InfluxLine Model.GraphiteLine Proofs.InfluxLine Proofs.GraphiteLine.

Theorem C17_influx_line_roundtrip : forall now name tags fields,
  match name with [] => False | b :: _ => b <> c_hash end ->
  Forall (fun kv => fst kv <> [] /\ join_str s_uu (snd kv) <> []) (influx_groups tags) ->
  fields <> [] ->
  Forall (fun f => field_key_ok (fst f) = true /\ is_number_lit (snd f) = true) fields ->
  influx_parse (influx_print now (name, tags, fields))
  = Some (MkLP name (map (fun kv => (fst kv, join_str s_uu (snd kv))) (influx_groups tags)) fields now).
Proof. intros now name tags fields H1 H2 H3 H4. exact (influx_line_roundtrip now (name, tags, fields) (conj H1 (conj H2 (conj H3 H4)))). Qed.
Print Assumptions C17_influx_line_roundtrip.

(* the tag condition holds when every tag has a non-empty key and a non-empty value (a tag
   without ':' is a value of the key "unnamed"): C17's alphabets minus the F5 inputs `k:` / `:v` *)
Theorem C17_influx_tags_ok : forall tags,
  Forall (fun t => fst (influx_split t) <> [] /\ snd (influx_split t) <> []) tags ->
  Forall (fun kv => fst kv <> [] /\ join_str s_uu (snd kv) <> []) (influx_groups tags).
Proof. exact influx_groups_ok. Qed.
Print Assumptions C17_influx_tags_ok.

(* without the side conditions the printed line is NOT valid: F5 and F4 as theorems *)
Theorem C17_influx_line_invalid_without :
  influx_parse (influx_print 1 ([97], [[107; 58]], [([99], [53])])) = None          (* a:5|c|#k:  "a,k= c=5 1" *)
  /\ influx_parse (influx_print 1 ([97], [[58; 118]], [([99], [53])])) = None       (* #:v        "a,=v c=5 1" *)
  /\ influx_parse (influx_print 1 ([97], [], [([118], [43; 73; 110; 102])])) = None. (* +Inf       "a v=+Inf 1" *)
Proof. exact (conj (proj1 influx_empty_tag_value_rejected) (conj (proj1 (proj2 influx_empty_tag_value_rejected)) influx_nonfinite_rejected)). Qed.
Print Assumptions C17_influx_line_invalid_without.

(* Graphite plaintext, all three modes ([g_legacy], [g_tags] of the configuration): a printed
   entry reads back to its path (namespace . normalised name . suffix . global suffix), its
   tags (`k:v` -> (k, v), a bare tag -> ("unnamed", tag), then ("host", source) unless a host:
   tag exists; none in basic / legacy mode), the printed value and the timestamp.  Side
   conditions ([gentry_ok]): namespace not empty; namespace, suffixes, tags and source without
   ' ' ';' newline; the value text is a number literal; each tag has a non-empty name without
   ";!^=" and a non-empty value not starting with '~' (`k:` is the analogue of F5 here). *)
Theorem C17_graphite_line_roundtrip : forall fmt_f c now e,
  gentry_ok c (prv fmt_f (ge_val e)) e ->
  graphite_parse (gr_print fmt_f c now e)
  = Some (MkGL (base_path c (ge_ns e) (ge_name e) (ge_suffix e)) (gtags_of c (ge_src e) (ge_tags e))
               (prv fmt_f (ge_val e)) now).
Proof. exact graphite_line_roundtrip. Qed.
Print Assumptions C17_graphite_line_roundtrip.
