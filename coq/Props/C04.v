(* C04 - flushing never crashes for any reachable aggregate, configuration or backend. *)
From Coq Require Import List ZArith.
From GS Require Import Base.Bytes Model.GoPartial Model.Rank Proofs.RankSweep.
Local Open Scope Z_scope.

(* The percentile rank int(round(|p| / 100 * n)), computed in binary64 as the Go code does, is an
   index into a timer with n values - finite-sweep version: every integer percentile, every
   count up to 10 000. *)
Theorem C04_rank_in_range_sweep : forall p n,
  -100 <= p <= 100 -> 0 <= n <= 10000 -> 0 <= rank p n <= n.
Proof. exact rank_in_range_sweep. Qed.
Print Assumptions C04_rank_in_range_sweep.
