(* C04 - flushing never crashes for any reachable aggregate, configuration or backend.

   Models: Model/Stats.v + Model/Histogram.v (MetricAggregator.Flush per timer, the same index
   arithmetic as the Go code over checked operations: an index or slice out of range is the outcome
   Panic), Model/FlushPartial.v (the aggregate as an LTS: merge | flush | reset, every expiry
   pattern a label), Model/Rank.v (the percentile rank in binary64), Model/PayloadPartial.v (the
   index / slice / make expressions of the backend payload builders).  [V] is the carrier of
   float64 values: the theorems hold for EVERY carrier whose sort preserves the length, so in
   particular for Go's float64 with NaN and infinities. *)
From Coq Require Import String.
From Coq Require Import List ZArith Floats.
From GS Require Import Base.Bytes.
From GS Require Import Model.GoPartial.
From GS Require Import Model.Histogram.
From GS Require Import Model.Stats.
From GS Require Import Model.Rank.
From GS Require Import Model.FlushPartial.
From GS Require Import Model.PayloadPartial.
From GS Require Import Proofs.FlushSafety.
From GS Require Import Proofs.FlushSafetyPayload.
From GS Require Import Proofs.FlushSafetyMain.
From GS Require Import Proofs.FlushSafetyExamples.
From GS Require Import Proofs.RankUnbounded.
From GS Require Import Proofs.RankSweep.
Import ListNotations.
Local Open Scope Z_scope.

(* The percentile rank int(round(|p| / 100 * float64(n))), computed in IEEE-754 binary64 exactly as
   the Go code does, is a count between 0 and n: for every integer percentile and every timer
   with fewer than 2^52 values. *)
Theorem C04_rank_in_range : forall p n,
  -100 <= p <= 100 -> 0 <= n < 2^52 -> 0 <= rank p n <= n.
Proof. exact rank_in_range_unbounded. Qed.
Print Assumptions C04_rank_in_range.

(* The same for ANY float64 threshold (the configuration accepts non-integers such as 99.9) with
   |pct| <= 100 as Go's float comparison decides it (false for NaN):
   rank_float pct n = int(math.Floor(math.Abs(pct) / 100 * float64(n) + 0.5)). *)
Theorem C04_rank_in_range_float : forall (pct : PrimFloat.float) (n : Z),
  PrimFloat.leb (PrimFloat.abs pct) (f64_of_int 100) = true -> 0 <= n < 2^52 ->
  0 <= rank_float pct n <= n.
Proof. exact rank_float_in_range. Qed.
Print Assumptions C04_rank_in_range_float.

(* The same by exhaustive evaluation of the float computation, without the real-number axioms:
   201 percentiles x counts 0..2000. *)
Theorem C04_rank_in_range_sweep : forall p n,
  -100 <= p <= 100 -> 0 <= n <= 2000 -> 0 <= rank p n <= n.
Proof. exact rank_in_range_sweep. Qed.
Print Assumptions C04_rank_in_range_sweep.

(* For every configuration the server accepts (thresholds with |p| <= 100, any TimerSubtypes mask,
   bucket limit >= 0) and every history of merge | flush | reset from the empty aggregator - so:
   persisted timers without values, histogram timers with malformed bucket lists, any expiry
   pattern - no step panics, Flush does not panic in the state reached, and what is reported
   satisfies the invariant [Reported] the payload builders rely on (percentile names contain
   '_'; a histogram is nil, empty, or has exactly one +Inf key). *)
Theorem C04_flush_never_panics :
  forall (V : Type) (O : vops V) (pf : str -> option bound) (c : config V) (ls : list (label V)),
    (forall l, length (vsort O l) = length l) ->
    Forall (fun p => -100 <= p <= 100) (c_pcts c) -> 0 <= c_limit c ->
    history_values ls < 2^52 ->
    exists a, run O pf rank false c ls = Ok a
              /\ Reported (report_of a)
              /\ exists a', flush O pf rank false c a = Ok a' /\ Reported (report_of a').
Proof. exact (fun V O pf c ls H => flush_never_panics_float O pf H c ls). Qed.
Print Assumptions C04_flush_never_panics.

(* InfluxDB (v1 and v2 build the same lines): kv[0] / kv[1] of formatNameTags, buf[:len(buf)-1]
   of addBaseTimer and addHistogramTimer are in range for EVERY map and mask. *)
Theorem C04_payload_never_panics_influxdb : forall (m : bmask) (r : reported),
  exists lines, influx_payload false m r = Ok lines.
Proof. exact influx_payload_ok. Qed.
Print Assumptions C04_payload_never_panics_influxdb.

(* New Relic, all three flush types: keyvalpair[0] / [1] of setTags, pct.Str[:lastUnderscore] and
   pct.Str[lastUnderscore+1:] of the dimensional metrics. *)
Theorem C04_payload_never_panics_newrelic : forall (ty : nr_type) (r : reported),
  Reported r -> exists u, nr_payload ty r = Ok u.
Proof. exact nr_payload_ok. Qed.
Print Assumptions C04_payload_never_panics_newrelic.

(* OTLP, both conversions, any resource keys, any batch size >= 1: parseTag, the in-place tag
   partition, kv[:idx] / kv[idx+1:], g.batches[len-1], &values[0] / &values[len-1],
   make([]float64, len(buckets)-1), BucketCounts[i], ExplicitBounds[i]. *)
Theorem C04_payload_never_panics_otlp :
  forall (as_hist : bool) (m : bmask) (keys : list str) (batch : Z) (r : reported),
    Reported r -> 1 <= batch -> exists batches, otlp_payload false as_hist m keys batch r = Ok batches.
Proof. exact otlp_payload_ok. Qed.
Print Assumptions C04_payload_never_panics_otlp.

(* CloudWatch: segments[0] / [1], dimensions[:10], and the sending loop metricData[start:end]
   neither panics nor fails to end, for EVERY map and mask. *)
Theorem C04_payload_never_panics_cloudwatch : forall (m : bmask) (r : reported),
  exists sizes, cw_payload m r = Ok (Done sizes).
Proof. exact cw_payload_ok. Qed.
Print Assumptions C04_payload_never_panics_cloudwatch.

(* The property in one statement. *)
Theorem C04_flush_and_payloads_never_panic :
  forall (V : Type) (O : vops V) (pf : str -> option bound) (c : config V) (ls : list (label V))
         (m : bmask) (ty : nr_type) (as_hist : bool) (keys : list str) (batch : Z),
    (forall l, length (vsort O l) = length l) ->
    Forall (fun p => -100 <= p <= 100) (c_pcts c) -> 0 <= c_limit c -> 1 <= batch ->
    history_values ls < 2^52 ->
    exists a a', run O pf rank false c ls = Ok a /\ flush O pf rank false c a = Ok a'
      /\ (exists lines, influx_payload false m (report_of a') = Ok lines)
      /\ (exists u, nr_payload ty (report_of a') = Ok u)
      /\ (exists batches, otlp_payload false as_hist m keys batch (report_of a') = Ok batches)
      /\ (exists sizes, cw_payload m (report_of a') = Ok (Done sizes)).
Proof. exact (fun V O pf c ls m ty ah keys batch H => flush_and_payloads_never_panic O pf H c ls m ty ah keys batch). Qed.
Print Assumptions C04_flush_and_payloads_never_panic.

(* The code before the repairs panics on reachable states (legacy = true); the repaired code
   (legacy = false) does not, on the same histories. *)
Theorem C04_legacy_refuted_D3 :
  config_ok (cfg [-90] 0) /\ run u_ops pf_ex rank true (cfg [-90] 0) h_D3 = Panic
  /\ (exists a, run u_ops pf_ex rank false (cfg [-90] 0) h_D3 = Ok a).
Proof. exact legacy_refuted_D3. Qed.
Print Assumptions C04_legacy_refuted_D3.

Theorem C04_legacy_refuted_D4 :
  exists a, run u_ops pf_ex rank false (cfg [90] 0) h_D4 = Ok a
    /\ influx_payload true b_on (report_of a) = Panic
    /\ (exists lines, influx_payload false b_on (report_of a) = Ok lines).
Proof. exact legacy_refuted_D4. Qed.
Print Assumptions C04_legacy_refuted_D4.

Theorem C04_legacy_refuted_D5 :
  exists a, run u_ops pf_ex rank false (cfg [90] 5) h_D5 = Ok a
    /\ otlp_payload true true b_on [] 1000 (report_of a) = Panic
    /\ (exists g, otlp_payload false true b_on [] 1000 (report_of a) = Ok g).
Proof. exact legacy_refuted_D5. Qed.
Print Assumptions C04_legacy_refuted_D5.
