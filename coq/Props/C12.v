From GS Require Import Base.Bytes Base.LTS Model.InstanceCache Proofs.InstanceCache.
From stdpp Require Import gmap.

Theorem C12_answers_length : forall ips res, length (answers ips res) = length ips.
Proof. exact answers_length. Qed.
Print Assumptions C12_answers_length.
