(* C12 -- the instance cache answers every lookup once and never forgets good data on error.

   Model/InstanceCache.v is a labelled transition system whose labels are the atomic steps of
   CachedCloudProvider.Run (one select arm + the refill of its two send registers), Peek, and the
   lookup dispatcher (run / doLookup): Submit s | SendLookup | Batch res err | HandleInfo now | Return |
   Refresh t order | Peek s now.  [run (step c) init ls = Some st] says that [ls] is a history of the
   component from its initial state, for cache options / batch limit [c]; every theorem below is over all
   of them (any interleaving of clients, dispatcher, ticker and consumer; any provider answers; any times).
   The state carries the history (never read by [step]): [submitted], [requeued] (sources queued by refresh
   ticks), [batches] (every provider call: ips, returned map, error?), [handled] (infos given to
   handleInstanceInfo), [evicted], [delivered] (infos received by the consumer on InfoSource()), newest first.

     answers ips res  = map (λ ip, (ip, res_get res ip)) ips        what doLookup emits for one provider call
     due_answers st   = the answers of all provider calls so far     (concat over [batches st])
     queried st       = all positions of all provider calls so far
     waiting st       = pending st ++ lookup register ++ to_lookup st  accepted, not yet in a provider call
     in_transit st    = inflight st ++ to_return st ++ return register  produced, not yet at the consumer
     serves st s i    = Peek(s) would return (i, true)
     positive_entry (s,h) = h_inst h is an instance;  negative_entry (s,h) = h_inst h is nil *)
From GS Require Import Base.Bytes Base.LTS Model.InstanceCache Proofs.InstanceCache.
From stdpp Require Import gmap.
Local Open Scope Z_scope.

(* doLookup emits exactly one InstanceInfo per position of the batch, the n-th for the n-th source, carrying
   whatever the returned map holds for it (nil if absent) -- for a full, partial, empty or nil map, with or
   without error (the error flag of a [Batch] is recorded and influences nothing).  In every history each
   such answer goes through handleInstanceInfo exactly once and reaches the consumer exactly once: what has
   been produced is, as a multiset, what has been delivered plus what is still on its way; once nothing is
   on its way, the consumer has received exactly one answer per queried position. *)
Theorem C12_one_answer_per_query :
  (forall (ips : list source) (res : result),
     length (answers ips res) = length ips /\
     forall (n : nat) ip, ips !! n = Some ip -> answers ips res !! n = Some (ip, res_get res ip)) /\
  forall (c : config) (ls : list label) (st : state),
    run (step c) init ls = Some st ->
    due_answers st ≡ₚ handled st ++ inflight st /\
    due_answers st ≡ₚ delivered st ++ in_transit st /\
    (in_transit st = [] -> delivered st ≡ₚ due_answers st).
Proof. exact one_answer_per_query. Qed.
Print Assumptions C12_one_answer_per_query.

(* Every source a client submitted or a refresh tick queued is waiting or has been one position of exactly
   one provider call (multiset equality: duplicates are queried as often as they were accepted); once
   nothing waits, the queried positions are exactly the accepted sources.  For a batch limit >= 1 every
   provider call has between 1 and limit sources. *)
Theorem C12_all_queried :
  forall (c : config) (ls : list label) (st : state),
    run (step c) init ls = Some st ->
    submitted st ++ requeued st ≡ₚ waiting st ++ queried st /\
    (waiting st = [] -> queried st ≡ₚ submitted st ++ requeued st) /\
    (1 <= c_limit c -> Forall (λ b, 1 <= Z.of_nat (length b.1.1) <= c_limit c) (batches st)).
Proof. exact all_queried. Qed.
Print Assumptions C12_all_queried.

(* From ANY state on: over any further history the eviction log grows by [ev] and the handled log by [han];
   a source s that served instance i and is not among the evicted still serves an instance, namely that of
   the newest positive answer for s in [han] and i itself if there is none
   ([latest_positive s han i]) -- in particular i, if every answer handled for s since then was a failed /
   empty one, whatever refresh ticks, peeks and other sources' lookups happened in between. *)
Theorem C12_keeps_good_data :
  forall (c : config) (st : state) (ls : list label) (st' : state),
    run (step c) st ls = Some st' ->
    exists ev han,
      evicted st' = ev ++ evicted st /\ handled st' = han ++ handled st /\
      forall s i, serves st s i -> s ∉ ev ->
        serves st' s (latest_positive s han i) /\
        ((forall i', (s, Some i') ∉ han) -> serves st' s i).
Proof. exact keeps_good_data. Qed.
Print Assumptions C12_keeps_good_data.

(* Only a refresh tick evicts: any other step leaves the eviction log alone and keeps every cache key. *)
Theorem C12_evict_only_on_refresh :
  forall (c : config) (st : state) (l : label) (st' : state),
    step c st l = Some st' -> (forall t order, l <> Refresh t order) ->
    evicted st' = evicted st /\ forall s, is_Some (cache st !! s) -> is_Some (cache st' !! s).
Proof. exact evict_only_on_refresh. Qed.
Print Assumptions C12_evict_only_on_refresh.

(* A refresh tick at time t (from any state) removes exactly the entries whose last access lies MORE than the
   idle period back (now - lastAccess > idle; equality keeps the entry), leaves the others untouched, and
   logs each removed key once. *)
Theorem C12_evict_idle :
  forall (c : config) (st : state) (t : Z) (order : list source) (st' : state),
    step c st (Refresh t order) = Some st' ->
    (forall s h, cache st' !! s = Some h <-> cache st !! s = Some h /\ ¬ (c_idle c < t - h_access h)) /\
    exists ev, evicted st' = ev ++ evicted st /\ NoDup ev /\
      forall s, s ∈ ev <-> exists h, cache st !! s = Some h /\ c_idle c < t - h_access h.
Proof. exact evict_idle. Qed.
Print Assumptions C12_evict_idle.

(* ... and queues for lookup exactly the remaining entries whose expiry lies strictly before t
   (t.After(expires); equality does not re-query), each once, in the order Go's map iteration chose. *)
Theorem C12_requery_expired :
  forall (c : config) (st : state) (t : Z) (order : list source) (st' : state),
    step c st (Refresh t order) = Some st' ->
    requeued st' = rev order ++ requeued st /\
    waiting st' ≡ₚ order ++ waiting st /\
    NoDup order /\
    forall s, s ∈ order <->
      exists h, cache st !! s = Some h /\ ¬ (c_idle c < t - h_access h) /\ h_expires h < t.
Proof. exact requery_expired. Qed.
Print Assumptions C12_requery_expired.

(* In every reachable state the gauges cloudprovider.cache_positive / cache_negative (uint64 counters) equal
   the numbers of entries holding an instance / holding nil, modulo 2^64 -- an underflow would read
   2^64-1 -- hence exactly, for any cache of fewer than 2^64 entries. *)
Theorem C12_gauges :
  forall (c : config) (ls : list label) (st : state),
    run (step c) init ls = Some st ->
    gauge_pos st = Z.of_nat (size (filter positive_entry (cache st))) `mod` 2 ^ 64 /\
    gauge_neg st = Z.of_nat (size (filter negative_entry (cache st))) `mod` 2 ^ 64 /\
    (Z.of_nat (size (cache st)) < 2 ^ 64 ->
     gauge_pos st = Z.of_nat (size (filter positive_entry (cache st))) /\
     gauge_neg st = Z.of_nat (size (filter negative_entry (cache st)))).
Proof. exact gauges. Qed.
Print Assumptions C12_gauges.
