(* C12 -- the instance cache answers every lookup once and never forgets good data on error.

   Model/InstanceCache.v is a labelled transition system whose labels are the atomic steps of
   CachedCloudProvider.Run (one select arm + the refill of its two send registers), Peek, and the
   lookup dispatcher (run / doLookup): Submit s | SendLookup | Batch res err | HandleInfo now | Return |
   Refresh t order | Peek s now.  [run (step c) init ls = Some st] says that [ls] is a history of the
   component from its initial state, for cache options / batch limit [c]; every theorem below is over all
   of them (any interleaving of clients, dispatcher, ticker and consumer; any provider answers; any times).
   The state carries the history (never read by [step]): [submitted], [requeued] (sources queued by refresh
   ticks), [batches] (every provider call: ips, returned map, error?), [handled] (infos given to
   handleInstanceInfo), [evicted], [delivered] (infos received by the consumer on InfoSource()), newest first.

     answers ips res  = map (λ ip, (ip, res_get res ip)) ips        what doLookup emits for one provider call
     due_answers st   = the answers of all provider calls so far     (concat over [batches st])
     queried st       = all positions of all provider calls so far
     waiting st       = pending st ++ lookup register ++ to_lookup st  accepted, not yet in a provider call
     in_transit st    = inflight st ++ to_return st ++ return register  produced, not yet at the consumer
     serves st s i    = Peek(s) would return (i, true)
     positive_entry (s,h) = h_inst h is an instance;  negative_entry (s,h) = h_inst h is nil *)
From GS Require Import Base.Bytes Base.LTS Model.InstanceCache Proofs.InstanceCache.
From GS Require Import Model.InstanceDispatcher Proofs.InstanceDispatcher.
From stdpp Require Import gmap.
Local Open Scope Z_scope.

(* doLookup emits exactly one InstanceInfo per position of the batch, the n-th for the n-th source, carrying
   whatever the returned map holds for it (nil if absent) -- for a full, partial, empty or nil map, with or
   without error (the error flag of a [Batch] is recorded and influences nothing).  In every history each
   such answer goes through handleInstanceInfo exactly once and reaches the consumer exactly once: what has
   been produced is, as a multiset, what has been delivered plus what is still on its way; once nothing is
   on its way, the consumer has received exactly one answer per queried position. *)
Theorem C12_one_answer_per_query :
  (forall (ips : list source) (res : result),
     length (answers ips res) = length ips /\
     forall (n : nat) ip, ips !! n = Some ip -> answers ips res !! n = Some (ip, res_get res ip)) /\
  forall (c : config) (ls : list label) (st : state),
    run (step c) init ls = Some st ->
    due_answers st ≡ₚ handled st ++ inflight st /\
    due_answers st ≡ₚ delivered st ++ in_transit st /\
    (in_transit st = [] -> delivered st ≡ₚ due_answers st).
Proof. exact one_answer_per_query. Qed.
Print Assumptions C12_one_answer_per_query.

(* Every source a client submitted or a refresh tick queued is waiting or has been one position of exactly
   one provider call (multiset equality: duplicates are queried as often as they were accepted); once
   nothing waits, the queried positions are exactly the accepted sources.  For a batch limit >= 1 every
   provider call has between 1 and limit sources. *)
Theorem C12_all_queried :
  forall (c : config) (ls : list label) (st : state),
    run (step c) init ls = Some st ->
    submitted st ++ requeued st ≡ₚ waiting st ++ queried st /\
    (waiting st = [] -> queried st ≡ₚ submitted st ++ requeued st) /\
    (1 <= c_limit c -> Forall (λ b, 1 <= Z.of_nat (length b.1.1) <= c_limit c) (batches st)).
Proof. exact all_queried. Qed.
Print Assumptions C12_all_queried.

(* From ANY state on: over any further history the eviction log grows by [ev] and the handled log by [han];
   a source s that served instance i and is not among the evicted still serves an instance, namely that of
   the newest positive answer for s in [han] and i itself if there is none
   ([latest_positive s han i]) -- in particular i, if every answer handled for s since then was a failed /
   empty one, whatever refresh ticks, peeks and other sources' lookups happened in between. *)
Theorem C12_keeps_good_data :
  forall (c : config) (st : state) (ls : list label) (st' : state),
    run (step c) st ls = Some st' ->
    exists ev han,
      evicted st' = ev ++ evicted st /\ handled st' = han ++ handled st /\
      forall s i, serves st s i -> s ∉ ev ->
        serves st' s (latest_positive s han i) /\
        ((forall i', (s, Some i') ∉ han) -> serves st' s i).
Proof. exact keeps_good_data. Qed.
Print Assumptions C12_keeps_good_data.

(* Only a refresh tick evicts: any other step leaves the eviction log alone and keeps every cache key. *)
Theorem C12_evict_only_on_refresh :
  forall (c : config) (st : state) (l : label) (st' : state),
    step c st l = Some st' -> (forall t order, l <> Refresh t order) ->
    evicted st' = evicted st /\ forall s, is_Some (cache st !! s) -> is_Some (cache st' !! s).
Proof. exact evict_only_on_refresh. Qed.
Print Assumptions C12_evict_only_on_refresh.

(* A refresh tick at time t (from any state) removes exactly the entries whose last access lies MORE than the
   idle period back (now - lastAccess > idle; equality keeps the entry), leaves the others untouched, and
   logs each removed key once. *)
Theorem C12_evict_idle :
  forall (c : config) (st : state) (t : Z) (order : list source) (st' : state),
    step c st (Refresh t order) = Some st' ->
    (forall s h, cache st' !! s = Some h <-> cache st !! s = Some h /\ ¬ (c_idle c < t - h_access h)) /\
    exists ev, evicted st' = ev ++ evicted st /\ NoDup ev /\
      forall s, s ∈ ev <-> exists h, cache st !! s = Some h /\ c_idle c < t - h_access h.
Proof. exact evict_idle. Qed.
Print Assumptions C12_evict_idle.

(* ... and queues for lookup exactly the remaining entries whose expiry lies strictly before t
   (t.After(expires); equality does not re-query), each once, in the order Go's map iteration chose. *)
Theorem C12_requery_expired :
  forall (c : config) (st : state) (t : Z) (order : list source) (st' : state),
    step c st (Refresh t order) = Some st' ->
    requeued st' = rev order ++ requeued st /\
    waiting st' ≡ₚ order ++ waiting st /\
    NoDup order /\
    forall s, s ∈ order <->
      exists h, cache st !! s = Some h /\ ¬ (c_idle c < t - h_access h) /\ h_expires h < t.
Proof. exact requery_expired. Qed.
Print Assumptions C12_requery_expired.

(* In every reachable state the gauges cloudprovider.cache_positive / cache_negative (uint64 counters) equal
   the numbers of entries holding an instance / holding nil, modulo 2^64 -- an underflow would read
   2^64-1 -- hence exactly, for any cache of fewer than 2^64 entries. *)
Theorem C12_gauges :
  forall (c : config) (ls : list label) (st : state),
    run (step c) init ls = Some st ->
    gauge_pos st = Z.of_nat (size (filter positive_entry (cache st))) `mod` 2 ^ 64 /\
    gauge_neg st = Z.of_nat (size (filter negative_entry (cache st))) `mod` 2 ^ 64 /\
    (Z.of_nat (size (cache st)) < 2 ^ 64 ->
     gauge_pos st = Z.of_nat (size (filter positive_entry (cache st))) /\
     gauge_neg st = Z.of_nat (size (filter negative_entry (cache st)))).
Proof. exact gauges. Qed.
Print Assumptions C12_gauges.

(* ---- the lookup dispatcher loop as written (Model/InstanceDispatcher.v) ---------------------------------

   The model above abstracts cloudProviderLookupDispatcher.run to "any non-empty batch of at most limit sources
   may be looked up".  [dstep lim] is the loop itself: DRecv ip (append; leave the select iff
   len(ips) >= limit, else arm the 10 ms timer) | DTimer (an armed timer fires) | DLimit / DLimitErr (limiter.Wait
   returns nil / an error: run returns) | DCall res err | DSend | DAbandon (doLookup sees ctx.Done) | DCancel |
   DStop (run sees ctx.Done).  [cstep c] runs this loop together with the Run side of the model: CSubmit,
   CSendLookup, CCall, CHandle are joint steps, CTimer / CLimit are the loop's own, CReturn / CRefresh / CPeek
   are Run's own; [cproj] maps them to the abstract labels (CTimer, CLimit to nothing).  [cstep] has no
   cancellation and no limiter failure. *)

(* Every history of Run + the real loop, without cancellation, is -- after erasing timer and limiter steps -- a
   history of the abstract model ending in the same state, so the seven theorems above hold of it; the abstract
   dispatcher component is exactly the loop's ips / unsent answers / provider calls, and every provider call has
   between 1 and limit sources (1 for a limit <= 0). *)
Theorem C12_dispatcher_refines :
  forall (c : config) (cls : list clabel) (st : state) (d : dstate),
    run (cstep c) (init, d_init (c_limit c)) cls = Some (st, d) ->
    run (step c) init (omap cproj cls) = Some st /\
    pending st = d_ips d /\ inflight st = d_tosend d /\ batches st = d_calls d /\
    Forall (λ b, 1 <= Z.of_nat (length b.1.1) <= Z.max 1 (c_limit c)) (batches st).
Proof. exact dispatcher_refines. Qed.
Print Assumptions C12_dispatcher_refines.

(* [cstep] demands that the abstract model allows the joint step as well; it never is the abstract model that
   refuses: whenever the loop can take its part [dl] of a step (and for CSendLookup Run's register is full:
   [dpart] is then defined), the joint step exists.  So no behaviour of the loop is excluded by the abstraction. *)
Theorem C12_dispatcher_never_blocked :
  forall (c : config) (cls : list clabel) (st : state) (d : dstate) (cl : clabel) (dl : dlabel) (d' : dstate),
    run (cstep c) (init, d_init (c_limit c)) cls = Some (st, d) ->
    dpart st cl = Some dl -> dstep (c_limit c) d dl = Some d' ->
    exists st', cstep c (st, d) cl = Some (st', d').
Proof. exact dispatcher_never_blocked. Qed.
Print Assumptions C12_dispatcher_never_blocked.

(* In EVERY history of the loop -- cancellations and limiter failures included -- no provider call has more
   than limit sources (nor fewer than one); with a negative limit the loop panics at once and calls nothing. *)
Theorem C12_dispatcher_batch_bound :
  forall (lim : Z) (ls : list dlabel) (d : dstate),
    run (dstep lim) (d_init lim) ls = Some d ->
    Forall (λ b, 1 <= Z.of_nat (length b.1.1) <= Z.max 1 lim) (d_calls d) /\
    (1 <= lim -> Forall (λ b, 1 <= Z.of_nat (length b.1.1) <= lim) (d_calls d)) /\
    (lim < 0 -> d_calls d = [] /\ d_received d = []).
Proof. exact dispatcher_batch_bound. Qed.
Print Assumptions C12_dispatcher_batch_bound.

(* What cancellation does.  In every history of the loop: each received source has been a position of a provider
   call, is still in ips, or was DROPPED (never queried, never answered) when run returned; each answer doLookup
   owes has been sent, is still to be sent, or was ABANDONED when doLookup saw ctx.Done.  Sources are dropped
   only by run returning, answers are abandoned only after a cancellation, a stopped loop does nothing more; and
   a history without DCancel / DStop / DAbandon / DLimitErr drops and abandons nothing and never stops. *)
Theorem C12_dispatcher_cancel :
  forall (lim : Z) (ls : list dlabel) (d : dstate),
    run (dstep lim) (d_init lim) ls = Some d ->
    d_received d ≡ₚ d_queried d ++ d_ips d ++ d_dropped d /\
    d_due d ≡ₚ d_sent d ++ d_tosend d ++ d_abandoned d /\
    (d_dropped d <> [] -> d_phase d = DStopped) /\
    (d_abandoned d <> [] -> d_cancelled d = true) /\
    (d_phase d = DStopped -> d_ips d = [] /\ d_tosend d = [] /\ forall l, l <> DCancel -> dstep lim d l = None) /\
    (Forall (λ l, d_fault l = false) ls ->
     d_dropped d = [] /\ d_abandoned d = [] /\ d_cancelled d = false /\ d_phase d <> DStopped).
Proof. exact dispatcher_cancel. Qed.
Print Assumptions C12_dispatcher_cancel.

(* The limiter.  [dstep_b lim burst] is the loop with golang.org/x/time/rate's guarantee for the call it makes,
   Wait(ctx) = WaitN(ctx, 1): the loop asks for ONE token per provider call, however many sources the batch holds
   ([limiter_request ips] = 1); the limiter refuses at once iff that exceeds its bucket [burst], and otherwise grants
   unless the context is done:
     limiter_ok burst d DLimit    = (1 <=? burst)        limiter_ok burst d DLimitErr = d_cancelled d || (burst <? 1).
   So for every bucket of at least one token and EVERY batch limit -- also limits above the bucket size, full batches
   included -- a history without cancellation contains no limiter failure: the loop never returns, nothing is
   dropped or abandoned, every received source is queried or still being collected, every call has 1..limit sources. *)
Theorem C12_dispatcher_limiter :
  forall (lim burst : Z) (ls : list dlabel) (d : dstate),
    1 <= burst -> DCancel ∉ ls -> run (dstep_b lim burst) (d_init lim) ls = Some d ->
    Forall (λ l, d_fault l = false) ls /\
    d_phase d <> DStopped /\ d_dropped d = [] /\ d_abandoned d = [] /\
    d_received d ≡ₚ d_queried d ++ d_ips d /\
    Forall (λ b, 1 <= Z.of_nat (length b.1.1) <= Z.max 1 lim) (d_calls d).
Proof. exact dispatcher_limiter. Qed.
Print Assumptions C12_dispatcher_limiter.

(* The boundary of "every submitted source is queried and answered": at shutdown it fails.  A source the
   dispatcher had received is dropped without query or answer when the context is cancelled while it waits in
   the select (limit > 1) or in the limiter (limit 1); the answers of a provider call that doLookup has not sent
   yet are abandoned.  (C12 quantifies over submissions, provider outcomes, cache reads, clock advances and batch
   limits -- not over shutdown; this is the documented limit of the property, not a violation of it.) *)
Theorem C12_dispatcher_cancel_boundary :
  (forall lim s, 1 < lim -> exists d,
     run (dstep lim) (d_init lim) [DRecv s; DCancel; DStop] = Some d /\
     d_phase d = DStopped /\ d_received d = [s] /\ d_calls d = [] /\ d_dropped d = [s]) /\
  (forall s, exists d,
     run (dstep 1) (d_init 1) [DRecv s; DCancel; DLimitErr] = Some d /\
     d_phase d = DStopped /\ d_received d = [s] /\ d_calls d = [] /\ d_dropped d = [s]) /\
  (forall s, exists d,
     run (dstep 1) (d_init 1) [DRecv s; DLimit; DCall [] false; DCancel; DAbandon; DStop] = Some d /\
     d_phase d = DStopped /\ d_queried d = [s] /\ d_sent d = [] /\ d_abandoned d = [(s, None)]).
Proof. exact dispatcher_cancel_boundary. Qed.
Print Assumptions C12_dispatcher_cancel_boundary.
