#!/bin/sh
# Build the whole Coq development (full .vo build).  Usage: ./mk.sh [make args]
# _CoqProject is regenerated from the files on disk so that adding a file needs no edit here.
set -e
cd "$(dirname "$0")"
exec 9>.build.lock
flock 9
{
  echo "-Q . GS"
  echo "-arg -w -arg -notation-overridden,-deprecated-hint-without-locality,-deprecated-instance-without-locality,-ambiguous-paths,-deprecated-syntactic-definition"
  find Base Model Proofs Props Corr -name '*.v' | LC_ALL=C sort
} > _CoqProject.new
if ! cmp -s _CoqProject.new _CoqProject 2>/dev/null; then
  mv _CoqProject.new _CoqProject
  coq_makefile -f _CoqProject -o Makefile.coq >/dev/null
else
  rm -f _CoqProject.new
fi
[ -f Makefile.coq ] || coq_makefile -f _CoqProject -o Makefile.coq >/dev/null
exec timeout ${COQ_MAKE_TIMEOUT:-3000} make -f Makefile.coq -j${COQ_JOBS:-16} "$@"
