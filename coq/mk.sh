#!/bin/sh
# Build the Coq development (full .vo build).
#   ./mk.sh                      everything (setup, thorough tier)
#   ./mk.sh Props/C06.vo ...     only the given targets and what they depend on (what a check does)
# _CoqProject is regenerated from the files on disk so that adding a file needs no edit here.
# Every coqc runs under a time limit and an address-space limit so that one diverging proof
# cannot wedge the machine; the lock only serialises writers of the .vo files.
set -e
cd "$(dirname "$0")"
# fast path without the lock: explicit targets that are already up to date
listing() {
  echo "-Q . GS"
  echo "-arg -w -arg -notation-overridden,-deprecated-hint-without-locality,-deprecated-instance-without-locality,-ambiguous-paths,-deprecated-syntactic-definition"
  find Base Model Proofs Props Corr -name '*.v' | LC_ALL=C sort
}
if [ $# -gt 0 ] && [ -f Makefile.coq ] && [ -f _CoqProject ] && listing | cmp -s - _CoqProject; then
  case "$1" in -*) ;; *) if make -q -f Makefile.coq "$@" >/dev/null 2>&1; then exit 0; fi ;; esac
fi
exec 9>.build.lock
flock -w ${COQ_LOCK_WAIT:-1500} 9 || { echo "mk.sh: could not get the build lock" >&2; exit 75; }
listing > _CoqProject.new
if ! cmp -s _CoqProject.new _CoqProject 2>/dev/null; then
  mv _CoqProject.new _CoqProject
  coq_makefile -f _CoqProject -o Makefile.coq >/dev/null
else
  rm -f _CoqProject.new
fi
[ -f Makefile.coq ] || coq_makefile -f _CoqProject -o Makefile.coq >/dev/null
ulimit -v ${COQ_MEM_KB:-16000000} 2>/dev/null || true
exec timeout ${COQ_MAKE_TIMEOUT:-3000} make -f Makefile.coq -j${COQ_JOBS:-16} COQC="timeout ${COQ_FILE_TIMEOUT:-900} coqc" "$@"
